"""Glue between Engine A verdicts and the Run bookkeeping: cases, native replay, twins."""
import os, sys, time, json, inspect, importlib, textwrap
import z3
from vlib import common
from vlib.common import DISCHARGED, FAILED, UNDECIDED, DOWNGRADED, BOUNDED_OK, ENGINE_ERR
from pyvc import engine
from pyvc.engine import FuncSrc, Unsupported

class Case(object):
    """one instantiation of a contract: a function + a choice of the non-symbolic parameters
       (classes, widths).  make_args(ctx) -> (args, inputs); native(modelvals) -> list of Python
       expression strings rebuilding the arguments natively; twin_inputs() -> iterable of modelvals
       dicts for the bounded run-time twin."""
    def __init__(self, qname, label, make_args, native, setup='', twin_inputs=None, call=None):
        self.qname, self.label, self.make_args, self.native = qname, label, make_args, native
        self.setup = setup
        self.twin_inputs = twin_inputs
        self.call = call        # python expression template for the call, default derived from qname

def resolve(qname):
    """qname 'pkg.mod:Class.meth' -> (module, FunctionDef node, source segment, file)"""
    modname, dotted = qname.split(':')
    mod = importlib.import_module(modname)
    path = inspect.getsourcefile(mod)
    node, seg = FuncSrc.find(path, dotted)
    return mod, node, seg, path

REPLAY_TMPL = '''
import sys, os
sys.path.insert(0, %(verif)r); sys.path.insert(0, %(repo)r)
sys.dont_write_bytecode = True
from pyvc.native import replay_case
sys.exit(replay_case(%(contract_module)r, %(qname)r, %(label)r, %(argexprs)r, %(setup)r))
'''

def model_uses_uf(m):
    if m is None:
        return False
    try:
        return any(d.name().startswith('py_') and d.arity() > 0 for d in m.decls())
    except Exception:
        return False

def run_case(run, prop, case, contracts, contract_module, timeout_ms=20000, mode='SMT-A', loop_bound=70, keep=None):
    """verify one case; add one Ob per clause to `run`"""
    c = contracts[case.qname]
    base = '%s:%s[%s]' % (prop, case.qname.split(':')[1], case.label)
    try:
        mod, node, seg, path = resolve(case.qname)
    except Unsupported as u:
        run.ob(base + ':generate', UNDECIDED, mode, 'pyvc', detail='cannot locate: %s' % u, func=case.qname)
        return None
    run.function(case.qname, seg, path, node.lineno)
    t0 = time.time()
    V = engine.verify_function(case.qname, node, vars(mod), c, contracts, case.make_args, timeout_ms=timeout_ms, loop_bound=loop_bound)
    if V.unsupported is not None:
        return ('unsupported', V.unsupported, base)
    if V.cover is False:
        run.ob(base + ':cover', ENGINE_ERR, mode, 'z3', detail='precondition unsatisfiable (vacuous contract)', func=case.qname)
        return V
    if V.returns == 0 and not V.raises:
        run.ob(base + ':cover', ENGINE_ERR, mode, 'z3', detail='no feasible path', func=case.qname)
        return V
    for cl, d in sorted(V.clauses.items()):
        oid = base + ':' + cl
        if d['status'] == 'unsat':
            run.ob(oid, DISCHARGED, mode, 'z3', d['secs'], func=case.qname)
        elif d['status'] == 'unknown':
            run.ob(oid, 'unknown', mode, 'z3', d['secs'], detail=d['detail'], func=case.qname)
        else:
            w = d['witness']
            confirmed, out, rp = native_replay(run, oid, case, w, contract_module)
            if confirmed:
                run.ob(oid, FAILED, mode, 'z3', d['secs'], detail='%s; inputs %s; native replay: %s' % (d['detail'], w, out.strip()[-300:]),
                       witness=rp, confirmed=True, func=case.qname)
            else:
                # the model does not replay on the real code: spurious w.r.t. uninterpreted bit operations, or an engine defect
                run.ob(oid, 'spurious-uf' if (w or {}).get('_uf') else 'spurious', mode, 'z3', d['secs'], detail='%s; inputs %s; native: %s' % (d['detail'], w, out.strip()[-200:]),
                       witness=w, func=case.qname)
    return V

def native_replay(run, oid, case, modelvals, contract_module):
    argexprs = case.native(modelvals or {})
    script = REPLAY_TMPL % dict(verif=common.VERIF, repo=common.REPO, contract_module=contract_module,
                                qname=case.qname, label=case.label, argexprs=argexprs, setup=case.setup)
    rp = run.write_replay(oid, {'obligation': oid, 'inputs': modelvals, 'args': argexprs}, script)
    rc, out = common.native_run(rp)
    if rc == 1:
        return True, out, rp
    try:
        os.unlink(rp)
    except OSError:
        pass
    return False, out, rp
