"""Native (CPython, no z3) evaluation of sidecar contracts on the real functions:
   used by replay scripts and by the bounded run-time twins."""
import sys, importlib
if hasattr(sys, "set_int_max_str_digits"):
    sys.set_int_max_str_digits(0)

class NativeCtx(object):
    interp = None
    path = None
    native = True

def check_native(contract, qname, args, verbose=False):
    """call the real function on real arguments, evaluate the contract.
       returns (verdict, message): verdict in 'ok', 'violated', 'pre-false'"""
    ctx = NativeCtx()
    modname, dotted = qname.split(':')
    mod = importlib.import_module(modname)
    name = dotted.split('.')[-1]
    is_init = name == '__init__'
    cargs = args[1:] if is_init else args
    try:
        pre = contract.pre(ctx, *(([None] + list(cargs)) if is_init else args))
    except Exception as ex:
        return 'pre-false', 'precondition not evaluable: %r' % (ex,)
    if not pre:
        return 'pre-false', 'precondition false'
    try:
        if is_init:
            res = args[0](*args[1:])
            pargs = [res] + list(args[1:])
        elif '.' in dotted:
            res = getattr(args[0], name)(*args[1:])
            pargs = list(args)
        else:
            res = getattr(mod, name)(*args)
            pargs = list(args)
    except Exception as ex:
        en = type(ex).__name__
        cond = contract.raises.get(en)
        if cond is None:
            return 'violated', 'raised %s: %s (contract: raises nothing of that kind)' % (en, ex)
        if not cond(ctx, *(([None] + list(cargs)) if is_init else args)):
            return 'violated', 'raised %s: %s although its condition is false' % (en, ex)
        return 'ok', 'raised %s as allowed' % en
    for en in contract.raises_iff:
        if contract.raises[en](ctx, *(([None] + list(cargs)) if is_init else args)):
            return 'violated', 'returned %r although %s is due' % (res, en)
    try:
        ok = contract.post(ctx, res, *pargs)
    except Exception as ex:
        return 'violated', 'postcondition not evaluable on result %r: %r' % (res, ex)
    if ok:
        return 'ok', 'result %r satisfies the contract' % (res,)
    return 'violated', 'result %r (%s) violates the postcondition for args %r' % (res, type(res).__name__, args)

def replay_case(contract_module, qname, label, argexprs, setup=''):
    cm = importlib.import_module(contract_module)
    contract = cm.CONTRACTS[qname]
    modname = qname.split(':')[0]
    mod = importlib.import_module(modname)
    ns = dict(vars(mod))
    if setup:
        exec(setup, ns)
    args = [eval(a, ns) for a in argexprs]
    verdict, msg = check_native(contract, qname, args)
    print('replay %s[%s] args=%s -> %s: %s' % (qname, label, argexprs, verdict, msg))
    return {'ok': 0, 'violated': 1, 'pre-false': 2}[verdict]
