"""z3-free part of Engine A: contract records and symbolic-object records (importable under /venv/bin/python)."""

class SObj(object):
    """symbolic instance of a real class `cls` with (possibly symbolic) fields"""
    _n = 0
    def __init__(self, cls, fields=None, fresh=True):
        object.__setattr__(self, 'cls', cls)
        object.__setattr__(self, 'fields', dict(fields or {}))
        object.__setattr__(self, 'fresh', fresh)
        SObj._n += 1
        object.__setattr__(self, 'ident', SObj._n)
    def __getattr__(self, name):
        f = object.__getattribute__(self, 'fields')
        if name in f:
            return f[name]
        raise AttributeError(name)
    def __setattr__(self, name, v):
        self.fields[name] = v
    def __repr__(self):
        return '<SObj %s %r>' % (self.cls.__name__, self.fields)

def cls_of(x):
    if isinstance(x, SObj):
        return x.cls
    return type(x)


class Contract(object):
    """sidecar contract of one real function.

    pre(ctx, *args)            -> Bool (duck typed)
    post(ctx, res, *args)      -> Bool: holds on every normal return
    raises                      : dict ExcName -> cond(ctx, *args); an exception E may escape only when
                                  cond_E holds; `raises_iff` : set of names for which cond_E ⇒ E is raised
                                  (i.e. a normal return implies ¬cond_E)
    result(ctx, *args)         -> fresh symbolic result shape used at call sites (may ctx.choose);
                                  post is then *assumed* for it
    frame                       : 'pure' (default: no field of any argument is written) or list of
                                  'arg.field' names that may be written
    """
    def __init__(self, qname, pre=None, post=None, raises=None, raises_iff=(), result=None,
                 frame='pure', inline=False, post_fields=None, note=''):
        self.qname = qname
        self.pre = pre or (lambda ctx, *a: True)
        self.post = post or (lambda ctx, res, *a: True)
        self.raises = raises or {}
        self.raises_iff = set(raises_iff)
        self.result = result
        self.frame = frame
        self.inline = inline
        self.note = note



class SSeq(object):
    """opaque symbolic sequence (bytes/str): only its length is known; slices are records, never materialised"""
    def __init__(self, name, length):
        self.name, self.length = name, length
    def __repr__(self):
        return '<SSeq %s len=%s>' % (self.name, self.length)

class SSlice(object):
    """the slice seq[lo:hi] of an opaque sequence (bounds are terms)"""
    def __init__(self, seq, lo, hi):
        self.seq, self.lo, self.hi = seq, lo, hi
    def __repr__(self):
        return '<%s[%s:%s]>' % (self.seq.name, self.lo, self.hi)
