"""Parallel driver for Engine A cases + bounded run-time twins + fallbacks (DESIGN 2.7)."""
import os, sys, time, importlib, itertools, multiprocessing, traceback
from vlib import common
from vlib.common import DISCHARGED, FAILED, UNDECIDED, DOWNGRADED, BOUNDED_OK, ENGINE_ERR, Ob

class MiniRun(object):
    """per-worker recorder with the Run interface used by runner.run_case"""
    def __init__(self):
        self.obs, self.functions = [], {}
    def ob(self, oid, status, mode, backend, secs=0.0, **kw):
        o = Ob(oid, status, mode, backend, secs, **kw)
        self.obs.append(o)
        return o
    def function(self, qname, src, file=None, lineno=None):
        self.functions[qname] = {'sha': common.sha(src), 'file': file, 'line': lineno}
    def write_replay(self, oid, payload, script=None):
        return common.Run.write_replay(self, oid, payload, script)

def _twin(cm, case, prop, mini, limit=None):
    """bounded run-time twin of one case: native contract evaluation over case.twin_inputs()"""
    from pyvc.native import check_native
    contract = cm.CONTRACTS[case.qname]
    modname = case.qname.split(':')[0]
    mod = importlib.import_module(modname)
    ns = dict(vars(mod))
    if case.setup:
        exec(case.setup, ns)
    n = 0
    nontriv = 0
    bad = None
    t0 = time.time()
    for mv in case.twin_inputs():
        exprs = case.native(mv)
        args = [eval(a, ns) for a in exprs]
        verdict, msg = check_native(contract, case.qname, args)
        if verdict == 'pre-false':
            continue
        n += 1
        if verdict == 'violated' and bad is None:
            bad = (mv, exprs, msg)
        if limit and n >= limit:
            break
    return n, bad, time.time() - t0

_HISTORY = []        # keys whose twins ran in this worker process, in order (for history replays)

HIST_REPLAY = '''
import sys, os
sys.path.insert(0, %(verif)r); sys.path.insert(0, %(repo)r)
sys.dont_write_bytecode = True
from pyvc.harness import replay_twin_history
sys.exit(replay_twin_history(%(cm)r, %(bmod)r, %(bfn)r, %(keys)r))
'''

def replay_twin_history(cm_name, builder_mod, builder_fn, keys):
    """re-run the bounded twins of `keys` in order in this (fresh) process; exit code 1 iff the twin of the LAST key is violated:
       a failure that only shows after the earlier calls is a history-dependent result of the code under test"""
    common.use_repo()
    cm = importlib.import_module(cm_name)
    last = None
    for key in keys:
        case = getattr(importlib.import_module(builder_mod), builder_fn)(key)
        if case.twin_inputs is None: continue
        last = _twin(cm, case, None, None)
    if last is None: return 0
    n, bad, secs = last
    if bad is not None:
        print('after the twins of %d earlier cases: args %s: %s' % (len(keys) - 1, bad[1], bad[2]))
        return 1
    print('twin of the last case clean (%d inputs)' % n)
    return 0

def _work(job):
    cm_name, builder_mod, builder_fn, key, prop, opts = job
    common.use_repo()
    _HISTORY.append(key)
    from pyvc import runner
    from pyvc.engine import Unsupported
    mini = MiniRun()
    try:
        cm = importlib.import_module(cm_name)
        case = getattr(importlib.import_module(builder_mod), builder_fn)(key)
        base = '%s:%s[%s]' % (prop, case.qname.split(':')[1], case.label)
        V = None
        if opts.get('smt', True):
            V = runner.run_case(mini, prop, case, cm.CONTRACTS, cm_name, timeout_ms=opts.get('timeout_ms', 20000),
                                mode=opts.get('mode', 'SMT-A'), loop_bound=opts.get('loop_bound', 70))
        need_twin = opts.get('twin', True) and case.twin_inputs is not None
        unresolved = [o for o in mini.obs if o.status in ('spurious', 'spurious-uf', 'unknown')]
        unsupported = isinstance(V, tuple) and V[0] == 'unsupported'
        twin_res = None
        if need_twin or unresolved or unsupported:
            if case.twin_inputs is not None:
                twin_res = _twin(cm, case, prop, mini, limit=opts.get('twin_limit'))
        if twin_res is not None:
            n, bad, secs = twin_res
            if bad is not None:
                mv, exprs, msg = bad
                confirmed, out, rp = runner.native_replay(mini, base + ':twin', case, mv, cm_name)
                detail = 'args %s: %s' % (exprs, msg)
                if not confirmed:
                    # right when called alone, wrong here: the result depends on the calls made before in this process
                    script = HIST_REPLAY % dict(verif=common.VERIF, repo=common.REPO, cm=cm_name, bmod=builder_mod, bfn=builder_fn, keys=list(_HISTORY))
                    rp = common.Run.write_replay(mini, base + ':twin', {'obligation': base + ':twin', 'detail': detail + ' [history-dependent: after the twins of %d earlier cases]' % (len(_HISTORY) - 1)}, script)
                    rc, out2 = common.native_run(rp, timeout=600)
                    if rc == 1:
                        confirmed = True
                        detail += ' -- only after the operations of %d earlier cases in the same process (history-dependent result)' % (len(_HISTORY) - 1)
                mini.ob(base + ':twin', FAILED if confirmed else ENGINE_ERR, 'BND', 'cpython-enum', secs,
                        detail=detail, witness=rp, confirmed=confirmed, func=case.qname)
            else:
                mini.ob(base + ':twin', BOUNDED_OK, 'BND', 'cpython-enum', secs, detail='%d inputs' % n, func=case.qname)
                mini.twin_evals = getattr(mini, 'twin_evals', 0) + n
        # resolve spurious / unknown / unsupported
        for o in unresolved:
            if twin_res is None:
                o.status = UNDECIDED
            elif twin_res[1] is not None:
                o.status = 'superseded-by-twin'
            else:
                uses_uf = o.status in ('unknown', 'spurious-uf')
                o.detail = 'downgraded to bounded (%s): %s' % (o.status, o.detail)
                o.status = DOWNGRADED if uses_uf else ENGINE_ERR
        if unsupported:
            why = V[1]
            if twin_res is None:
                mini.ob(base + ':generate', UNDECIDED, 'SMT-A', 'pyvc', detail='outside supported subset: %s' % why, func=case.qname)
            elif twin_res[1] is None:
                mini.ob(base + ':generate', DOWNGRADED, 'SMT-A', 'pyvc', detail='outside supported subset (%s); twin clean' % why, func=case.qname)
    except Exception:
        mini.ob('%s:%s:crash' % (prop, key), ENGINE_ERR, 'SMT-A', 'pyvc', detail=traceback.format_exc()[-1500:])
    return [(o.oid, o.status, o.mode, o.backend, o.secs, o.detail, o.witness, o.confirmed, o.func) for o in mini.obs], mini.functions, getattr(mini, 'twin_evals', 0)

def verify_cases(run, prop, cm_name, builder_mod, builder_fn, keys, nproc=None, **opts):
    jobs = [(cm_name, builder_mod, builder_fn, k, prop, opts) for k in keys]
    nproc = nproc or min(16, os.cpu_count() or 4)
    evals = 0
    if nproc == 1 or len(jobs) < 4:
        results = map(_work, jobs)
    else:
        ctx = multiprocessing.get_context('fork')
        pool = ctx.Pool(nproc)
        results = pool.imap_unordered(_work, jobs, chunksize=max(1, len(jobs) // (nproc * 8)))
    for obs, funcs, te in results:
        for t in obs:
            run.add(Ob(*t[:5], detail=t[5], witness=t[6], confirmed=t[7], func=t[8]))
        run.functions.update(funcs)
        evals += te
    if nproc != 1 and len(jobs) >= 4:
        pool.close(); pool.join()
    run.obs.sort(key=lambda o: o.oid)
    return evals
