"""Engine A (pyvc): verification-condition generation from the AST of the real functions.

The function's source is re-read from /repo on every run (ast.parse of the file on disk).  A forward
symbolic executor enumerates the paths of the function (DART style: re-execution under a decision
list; no state copying).  Values are either concrete Python values (partial evaluation of module
constants, classes, literals) or z3 terms (Int = Python int, Real = result of int/int, Bool), or
SObj records (instances of the repo's own classes with symbolic fields).

Calls are resolved *by contract* (see Contract): the callee's precondition becomes an obligation at
the call site, its postcondition an assumption about a fresh result; callee bodies are never
inlined unless the sidecar marks the callee `inline` (reported in the evidence).

What the extraction drops: docstrings, comments, calls on names listed in DROP_CALLS (logging,
print).  Any other unsupported node aborts generation for that function (Unsupported).
"""
import ast, os, sys, time, inspect, importlib, itertools
import z3
from specs import duck
from specs.duck import is_sym
from pyvc.contract import SObj, cls_of, Contract, SSeq, SSlice

DROP_CALLS = {'print'}
DROP_ATTR_BASES = {'log', 'logging'}

class Unsupported(Exception):
    pass

class PathEnd(Exception):
    """internal: the current path is infeasible / pruned"""

class PyRaise(Exception):
    """the interpreted program raised `exc` (a Python exception class name)"""
    def __init__(self, exc, msg=None, node=None):
        Exception.__init__(self, exc)
        self.exc, self.msg, self.node = exc, msg, node

class BoundMethod(object):
    def __init__(self, obj, name, owner, func):
        self.obj, self.name, self.owner, self.func = obj, name, owner, func

class Closure(object):
    def __init__(self, node, env, interp_globals):
        self.node, self.env, self.globals = node, env, interp_globals

# ---------------------------------------------------------------------------------------
class Path(object):
    """decision list for DART-style exploration"""
    def __init__(self, timeout_ms=10000):
        self.decisions = []     # [value, n_options, tried(set)]
        self.pos = 0
        self.pc = []
        self.solver = z3.Solver()
        self.solver.set('timeout', timeout_ms)
        self.side = []          # side obligations: (clause, formula, pc snapshot, node)
        self.npaths = 0
    def restart(self):
        self.pos = 0
        self.pc = []
        self.solver.reset()
        self.side = []
    def feasible(self, cond):
        self.solver.push()
        self.solver.add(cond)
        r = self.solver.check()
        self.solver.pop()
        return r != z3.unsat
    def assume(self, cond):
        if not is_sym(cond):
            if not cond:
                raise PathEnd()
            return
        self.pc.append(cond)
        self.solver.add(cond)
    def branch(self, cond):
        """fork on a symbolic boolean"""
        if not is_sym(cond):
            return bool(cond)
        cond = z3.simplify(cond)
        if z3.is_true(cond): return True
        if z3.is_false(cond): return False
        if self.pos < len(self.decisions):
            d = self.decisions[self.pos]
            self.pos += 1
            v = d[0]
        else:
            ft = self.feasible(cond)
            ff = self.feasible(z3.Not(cond))
            if not ft and not ff:
                raise PathEnd()
            if ft and ff:
                d = [True, 2, {True}]
            elif ft:
                d = [True, 2, {True, False}]
            else:
                d = [False, 2, {True, False}]
            self.decisions.append(d)
            self.pos += 1
            v = d[0]
        self.assume(cond if v else z3.Not(cond))
        return v
    def choose(self, n):
        """n-ary nondeterministic choice (contract alternatives)"""
        if n <= 0:
            raise PathEnd()
        if n == 1:
            return 0
        if self.pos < len(self.decisions):
            d = self.decisions[self.pos]
            self.pos += 1
            return d[0]
        d = [0, n, {0}]
        self.decisions.append(d)
        self.pos += 1
        return 0
    def advance(self):
        """move to the next unexplored decision vector; False when exhausted"""
        while self.decisions:
            d = self.decisions[-1]
            if d[1] == 2 and isinstance(d[0], bool):
                rest = [v for v in (True, False) if v not in d[2]]
            else:
                rest = [v for v in range(d[1]) if v not in d[2]]
            if rest:
                d[0] = rest[0]
                d[2].add(rest[0])
                return True
            self.decisions.pop()
        return False

# ---------------------------------------------------------------------------------------
class Ctx(object):
    """what contract text may use"""
    def __init__(self, interp):
        self.interp = interp
        self.path = interp.path if interp else None
        self._k = 0
    def fresh_int(self, name='r'):
        self._k += 1
        SObj._n += 1
        return z3.Int('%s!%d' % (name, SObj._n))
    def fresh_bool(self, name='b'):
        SObj._n += 1
        return z3.Bool('%s!%d' % (name, SObj._n))
    def choose(self, options):
        options = list(options)
        i = self.path.choose(len(options))
        return options[i]
    def new(self, cls, **fields):
        return SObj(cls, fields)

class NativeCtx(object):
    """ctx for native evaluation of contracts (replay / twins)"""
    interp = None
    path = None

# ---------------------------------------------------------------------------------------
class FuncSrc(object):
    """AST of a function re-read from disk"""
    _cache = {}
    @classmethod
    def module_ast(cls, path):
        st = os.stat(path)
        key = (path, st.st_mtime_ns, st.st_size)
        if key not in cls._cache:
            src = open(path).read()
            cls._cache[key] = (src, ast.parse(src, path))
        return cls._cache[key]
    @classmethod
    def find(cls, path, dotted):
        src, tree = cls.module_ast(path)
        node = tree
        for part in dotted.split('.'):
            found = None
            for n in node.body:
                if isinstance(n, (ast.FunctionDef, ast.ClassDef)) and n.name == part:
                    found = n       # last definition wins, like Python
            if found is None:
                raise Unsupported('no definition %s in %s' % (dotted, path))
            node = found
        seg = ast.get_source_segment(src, node)
        return node, seg

def find_method(cls, name):
    """(owner class, FunctionDef node, source) following the MRO on the real class"""
    for k in cls.__mro__:
        if name in k.__dict__:
            if k is object:
                return None
            raw = k.__dict__[name]
            if not (inspect.isfunction(raw) or isinstance(raw, (classmethod, staticmethod))):
                return None         # a data attribute of the class, not a method
            path = inspect.getsourcefile(sys.modules[k.__module__])
            node, seg = FuncSrc.find(path, k.__qualname__ + '.' + name)
            return k, node, seg
    return None

# ---------------------------------------------------------------------------------------
class _Return(Exception):
    def __init__(self, v):
        self.v = v

class Interp(object):
    def __init__(self, path, contracts, recorder=None, loop_bound=70):
        self.path = path
        self.contracts = contracts          # qname -> Contract
        self.ctx = Ctx(self)
        self.loop_bound = loop_bound
        self.steps = 0
        self.written = []                   # (obj, field) stores on non-fresh objects
        self.calls = []                     # contracts used at call sites
        self.recorder = recorder

    # ---- obligations collected along a path
    def oblige(self, clause, formula, node=None):
        if not is_sym(formula):
            if formula:
                return
            formula = z3.BoolVal(False)
        self.path.side.append((clause, formula, list(self.path.pc), getattr(node, 'lineno', None)))

    # ---- function execution
    def run_function(self, node, args, globs, kwargs=None, closure_env=None):
        env = dict(closure_env or {})
        a = node.args
        params = [p.arg for p in a.args]
        if a.vararg or a.kwarg or a.kwonlyargs:
            if a.vararg and not a.kwarg and not a.kwonlyargs:
                pass
            else:
                raise Unsupported('signature of %s' % getattr(node, 'name', '<lambda>'))
        defaults = a.defaults
        nd = len(defaults)
        vals = list(args)
        kwargs = dict(kwargs or {})
        for i, p in enumerate(params):
            if i < len(vals):
                env[p] = vals[i]
            elif p in kwargs:
                env[p] = kwargs.pop(p)
            else:
                j = i - (len(params) - nd)
                if j < 0:
                    raise PyRaise('TypeError', 'missing argument %s' % p)
                env[p] = self.eval(defaults[j], {}, globs)
        if kwargs:
            raise PyRaise('TypeError', 'unexpected keyword argument %s' % sorted(kwargs)[0])
        if a.vararg:
            env[a.vararg.arg] = tuple(vals[len(params):])
        elif len(vals) > len(params):
            raise PyRaise('TypeError', 'too many arguments')
        if isinstance(node, ast.Lambda):
            return self.eval(node.body, env, globs)
        try:
            self.exec_block(node.body, env, globs)
        except _Return as r:
            return r.v
        return None

    def exec_block(self, stmts, env, globs):
        for s in stmts:
            self.exec_stmt(s, env, globs)

    def truth(self, v):
        if is_sym(v):
            if z3.is_bool(v):
                return v
            if z3.is_int(v) or z3.is_real(v):
                return v != 0
            raise Unsupported('truth of %s' % v.sort())
        if isinstance(v, SObj):
            # Python: __bool__, else __len__() != 0, else True
            if find_method(v.cls, '__bool__'):
                return self.truth(self.call_method(v, '__bool__', []))
            if find_method(v.cls, '__len__'):
                return self.num(self.call_method(v, '__len__', [])) != 0
            if hasattr(v.cls, '__bool__') or hasattr(v.cls, '__len__'):
                raise Unsupported('truth of object with a non-Python __bool__/__len__')
            return True
        return bool(v)

    def exec_stmt(self, s, env, globs):
        self.steps += 1
        if self.steps > 200000:
            raise Unsupported('step budget')
        if isinstance(s, ast.Expr):
            if isinstance(s.value, ast.Constant):
                return      # docstring
            if isinstance(s.value, ast.Call) and self.is_dropped_call(s.value):
                return
            self.eval(s.value, env, globs)
        elif isinstance(s, ast.Assign):
            v = self.eval(s.value, env, globs)
            for t in s.targets:
                self.assign(t, v, env, globs)
        elif isinstance(s, ast.AugAssign):
            cur = self.eval(self.as_load(s.target), env, globs)
            v = self.binop(s.op, cur, self.eval(s.value, env, globs), s)
            self.assign(s.target, v, env, globs)
        elif isinstance(s, ast.Return):
            raise _Return(self.eval(s.value, env, globs) if s.value is not None else None)
        elif isinstance(s, ast.If):
            c = self.truth(self.eval(s.test, env, globs))
            if self.path.branch(c):
                self.exec_block(s.body, env, globs)
            else:
                self.exec_block(s.orelse, env, globs)
        elif isinstance(s, ast.Assert):
            c = self.truth(self.eval(s.test, env, globs))
            self.oblige('assert@%d' % s.lineno, c, s)
            self.path.assume(c)
        elif isinstance(s, ast.Raise):
            raise PyRaise(self.exc_name(s.exc, env, globs), node=s)
        elif isinstance(s, ast.Pass):
            return
        elif isinstance(s, ast.For):
            it = self.eval(s.iter, env, globs)
            seq = self.concrete_seq(it)
            for x in seq:
                self.assign(s.target, x, env, globs)
                try:
                    self.exec_block(s.body, env, globs)
                except _Break:
                    break
                except _Continue:
                    continue
            else:
                self.exec_block(s.orelse, env, globs)
        elif isinstance(s, ast.While):
            n = 0
            while True:
                c = self.truth(self.eval(s.test, env, globs))
                if not self.path.branch(c):
                    break
                n += 1
                if n > self.loop_bound:
                    # unwinding assertion: the loop must not be able to continue
                    self.oblige('unwind@%d' % s.lineno, z3.BoolVal(False), s)
                    raise PathEnd()
                try:
                    self.exec_block(s.body, env, globs)
                except _Break:
                    break
                except _Continue:
                    continue
        elif isinstance(s, ast.Break):
            raise _Break()
        elif isinstance(s, ast.Continue):
            raise _Continue()
        elif isinstance(s, ast.Try):
            try:
                self.exec_block(s.body, env, globs)
            except PyRaise as e:
                for h in s.handlers:
                    names = self.handler_names(h, env, globs)
                    if names is None or e.exc in names or self.exc_is_subclass(e.exc, names):
                        if h.name:
                            env[h.name] = e
                        self.exec_block(h.body, env, globs)
                        break
                else:
                    raise
            else:
                self.exec_block(s.orelse, env, globs)
            if s.finalbody:
                raise Unsupported('finally')
        elif isinstance(s, (ast.FunctionDef,)):
            env[s.name] = Closure(s, env, globs)
        elif isinstance(s, ast.Delete):
            for t in s.targets:
                if isinstance(t, ast.Name):
                    if t.id not in env:
                        raise PyRaise('NameError', t.id, s)
                    del env[t.id]
                elif isinstance(t, ast.Subscript):
                    o = self.eval(t.value, env, globs)
                    k = self.eval(t.slice, env, globs)
                    if isinstance(o, (dict, list)) and not is_sym(k) and not isinstance(k, (SObj, slice)):
                        try:
                            del o[k]
                        except (KeyError, IndexError) as ex:
                            raise PyRaise(type(ex).__name__, str(ex), s)
                    else:
                        raise Unsupported('del of a symbolic subscript')
                else:
                    raise Unsupported('del target %s' % type(t).__name__)
        elif isinstance(s, ast.Global):
            raise Unsupported('global')
        else:
            raise Unsupported('statement %s at line %s' % (type(s).__name__, getattr(s, 'lineno', '?')))

    def exc_is_subclass(self, name, names):
        import builtins
        k = getattr(builtins, name, None)
        for n in names:
            b = getattr(builtins, n, None)
            if isinstance(k, type) and isinstance(b, type) and issubclass(k, b):
                return True
        return False

    def handler_names(self, h, env, globs):
        if h.type is None:
            return None
        if isinstance(h.type, ast.Tuple):
            return [self.exc_name(e, env, globs) for e in h.type.elts]
        return [self.exc_name(h.type, env, globs)]

    def exc_name(self, node, env, globs):
        if node is None:
            raise Unsupported('bare raise')
        if isinstance(node, ast.Call):
            node = node.func
        if isinstance(node, ast.Name):
            return node.id
        if isinstance(node, ast.Attribute):
            return node.attr
        if isinstance(node, ast.Constant) and isinstance(node.value, str):
            return 'TypeError'      # raise 'string' is a TypeError in Python 3
        if isinstance(node, ast.BinOp):
            return 'TypeError'      # raise 'fmt' % args
        raise Unsupported('raise expression')

    def is_dropped_call(self, call):
        f = call.func
        if isinstance(f, ast.Name) and f.id in DROP_CALLS:
            return True
        if isinstance(f, ast.Attribute):
            b = f.value
            while isinstance(b, ast.Attribute):
                b = b.value
            if isinstance(b, ast.Name) and b.id in DROP_ATTR_BASES:
                return True
        return False

    def as_load(self, t):
        import copy
        t2 = copy.copy(t)
        t2.ctx = ast.Load()
        return t2

    def assign(self, t, v, env, globs):
        if isinstance(t, ast.Name):
            env[t.id] = v
        elif isinstance(t, (ast.Tuple, ast.List)):
            seq = self.concrete_seq(v)
            if len(seq) != len(t.elts):
                raise PyRaise('ValueError', 'unpack')
            for tt, x in zip(t.elts, seq):
                self.assign(tt, x, env, globs)
        elif isinstance(t, ast.Attribute):
            o = self.eval(t.value, env, globs)
            if not isinstance(o, SObj):
                raise Unsupported('attribute store on %r' % (o,))
            if not o.fresh:
                self.written.append((o, t.attr))
            o.fields[t.attr] = v
        elif isinstance(t, ast.Subscript):
            o = self.eval(t.value, env, globs)
            k = self.eval(t.slice, env, globs)
            if isinstance(o, (list, dict)) and not is_sym(k):
                o[k] = v
            else:
                raise Unsupported('subscript store')
        else:
            raise Unsupported('assignment target')

    def concrete_seq(self, it):
        if isinstance(it, (list, tuple, range)):
            return list(it)
        if isinstance(it, dict):
            return list(it)
        if isinstance(it, (zip, enumerate, map, filter)):
            return list(it)
        if isinstance(it, (set, frozenset)):
            raise Unsupported('iteration over a set')
        if hasattr(it, '__iter__') and not is_sym(it) and not isinstance(it, (str, bytes, SObj)):
            return list(it)
        raise Unsupported('iteration over %r' % (type(it),))

    # ---- expressions
    def eval(self, e, env, globs):
        m = getattr(self, 'e_' + type(e).__name__, None)
        if m is None:
            raise Unsupported('expression %s at line %s' % (type(e).__name__, getattr(e, 'lineno', '?')))
        return m(e, env, globs)

    def e_Constant(self, e, env, globs):
        return e.value

    def e_Name(self, e, env, globs):
        if e.id in env:
            return env[e.id]
        if e.id in globs:
            return globs[e.id]
        import builtins
        if hasattr(builtins, e.id):
            return getattr(builtins, e.id)
        raise PyRaise('NameError', e.id, e)

    def e_Tuple(self, e, env, globs):
        return tuple(self.eval(x, env, globs) for x in e.elts)

    def e_List(self, e, env, globs):
        return [self.eval(x, env, globs) for x in e.elts]

    def e_Dict(self, e, env, globs):
        return dict((self.eval(k, env, globs), self.eval(v, env, globs)) for k, v in zip(e.keys, e.values))

    def e_Lambda(self, e, env, globs):
        return Closure(e, env, globs)

    def e_IfExp(self, e, env, globs):
        c = self.truth(self.eval(e.test, env, globs))
        if self.path.branch(c):
            return self.eval(e.body, env, globs)
        return self.eval(e.orelse, env, globs)

    def e_BoolOp(self, e, env, globs):
        v = None
        for i, x in enumerate(e.values):
            v = self.eval(x, env, globs)
            if i == len(e.values) - 1:
                return v
            t = self.path.branch(self.truth(v))
            if isinstance(e.op, ast.And) and not t:
                return v if not is_sym(v) else False
            if isinstance(e.op, ast.Or) and t:
                return v if not is_sym(v) else True
        return v

    def e_UnaryOp(self, e, env, globs):
        v = self.eval(e.operand, env, globs)
        return self.unop(e.op, v, e)

    def unop(self, op, v, node=None):
        if isinstance(op, ast.Not):
            t = self.truth(v)
            return z3.Not(t) if is_sym(t) else (not t)
        if isinstance(v, SObj):
            name = {ast.USub: '__neg__', ast.Invert: '__invert__', ast.UAdd: '__pos__'}[type(op)]
            return self.call_method(v, name, [], node)
        if is_sym(v):
            if isinstance(op, ast.USub):
                return -self.num(v)
            if isinstance(op, ast.Invert):
                return -self.num(v) - 1
            if isinstance(op, ast.UAdd):
                return self.num(v)
        else:
            if isinstance(op, ast.USub): return -v
            if isinstance(op, ast.Invert): return ~v
            if isinstance(op, ast.UAdd): return +v
        raise Unsupported('unary op')

    def num(self, v):
        if is_sym(v) and z3.is_bool(v):
            return z3.If(v, z3.IntVal(1), z3.IntVal(0))
        if isinstance(v, bool):
            return int(v)
        return v

    def e_BinOp(self, e, env, globs):
        l = self.eval(e.left, env, globs)
        r = self.eval(e.right, env, globs)
        return self.binop(e.op, l, r, e)

    _dunder = {ast.Add: 'add', ast.Sub: 'sub', ast.Mult: 'mul', ast.BitAnd: 'and', ast.BitOr: 'or',
               ast.BitXor: 'xor', ast.LShift: 'lshift', ast.RShift: 'rshift', ast.Mod: 'mod',
               ast.Pow: 'pow', ast.Div: 'truediv', ast.FloorDiv: 'floordiv'}

    def binop(self, op, l, r, node=None):
        if isinstance(l, SObj) or isinstance(r, SObj):
            base = self._dunder[type(op)]
            if isinstance(l, SObj) and find_method(l.cls, '__%s__' % base):
                return self.call_method(l, '__%s__' % base, [r], node)
            if isinstance(r, SObj) and find_method(r.cls, '__r%s__' % base):
                return self.call_method(r, '__r%s__' % base, [l], node)
            raise PyRaise('TypeError', 'unsupported operand %s' % base, node)
        if not is_sym(l) and not is_sym(r):
            try:
                return self.concrete_binop(op, l, r)
            except ZeroDivisionError:
                raise PyRaise('ZeroDivisionError', node=node)
            except (ValueError, TypeError, OverflowError) as ex:
                raise PyRaise(type(ex).__name__, str(ex), node)
        if isinstance(l, (str, bytes, list, tuple)) or isinstance(r, (str, bytes, list, tuple)):
            if isinstance(op, ast.Mod) and isinstance(l, str):
                return '<formatted>'
            raise Unsupported('sequence op with symbolic operand')
        l, r = self.num(l), self.num(r)
        isreal = (is_sym(l) and z3.is_real(l)) or (is_sym(r) and z3.is_real(r)) or isinstance(l, float) or isinstance(r, float)
        if isinstance(op, ast.Add): return self.coerce(l, isreal) + self.coerce(r, isreal)
        if isinstance(op, ast.Sub): return self.coerce(l, isreal) - self.coerce(r, isreal)
        if isinstance(op, ast.Mult): return self.coerce(l, isreal) * self.coerce(r, isreal)
        if isinstance(op, ast.Div):
            if self.path.branch(r == 0):
                raise PyRaise('ZeroDivisionError', node=node)
            return self.coerce(l, True) / self.coerce(r, True)
        if isreal:
            raise Unsupported('float operation %s' % type(op).__name__)
        if isinstance(op, ast.FloorDiv):
            if self.path.branch(r == 0):
                raise PyRaise('ZeroDivisionError', node=node)
            return self.floordiv(l, r)
        if isinstance(op, ast.Mod):
            if self.path.branch(r == 0):
                raise PyRaise('ZeroDivisionError', node=node)
            return self.pymod(l, r)
        if isinstance(op, (ast.LShift, ast.RShift)):
            if self.path.branch(r < 0):
                raise PyRaise('ValueError', 'negative shift count', node)
            return duck.bitop('<<' if isinstance(op, ast.LShift) else '>>', l, r)
        if isinstance(op, ast.BitAnd): return duck.bitop('&', l, r)
        if isinstance(op, ast.BitOr): return duck.bitop('|', l, r)
        if isinstance(op, ast.BitXor): return duck.bitop('^', l, r)
        if isinstance(op, ast.Pow):
            if self.path.branch(r < 0):
                raise Unsupported('negative exponent (float result)')
            return duck.bitop('**', l, r)
        raise Unsupported('binop %s' % type(op).__name__)

    def coerce(self, v, real):
        if not real:
            return v
        if is_sym(v):
            return z3.ToReal(v) if z3.is_int(v) else v
        return realval(v)

    def floordiv(self, l, r):
        if not is_sym(r):
            if r > 0: return duck._lift(l) / r
            return (-duck._lift(l)) / (-r)
        return z3.If(r > 0, duck._lift(l) / r, (-duck._lift(l)) / (-r))

    def pymod(self, l, r):
        if not is_sym(r):
            if r > 0: return duck._lift(l) % r
            return -((-duck._lift(l)) % (-r))
        return z3.If(r > 0, duck._lift(l) % r, -((-duck._lift(l)) % (-r)))

    def concrete_binop(self, op, l, r):
        import operator as O
        f = {ast.Add: O.add, ast.Sub: O.sub, ast.Mult: O.mul, ast.BitAnd: O.and_, ast.BitOr: O.or_,
             ast.BitXor: O.xor, ast.LShift: O.lshift, ast.RShift: O.rshift, ast.Mod: O.mod,
             ast.Pow: O.pow, ast.Div: O.truediv, ast.FloorDiv: O.floordiv}[type(op)]
        if isinstance(op, ast.LShift) and isinstance(r, int) and r > 100000:
            raise Unsupported('huge shift')
        if isinstance(op, ast.Mod) and isinstance(l, str):
            return '<formatted>'
        return f(l, r)

    def e_Compare(self, e, env, globs):
        l = self.eval(e.left, env, globs)
        res = None
        for op, rn in zip(e.ops, e.comparators):
            r = self.eval(rn, env, globs)
            c = self.compare(op, l, r, e)
            if res is None:
                res = c
            else:
                res = duck.And(res, c)
            if len(e.ops) > 1:
                if not self.path.branch(self.truth(c)):
                    return False
                res = True
            l = r
        return res

    _cmp = {ast.Eq: '__eq__', ast.NotEq: '__ne__', ast.Lt: '__lt__', ast.LtE: '__le__', ast.Gt: '__gt__', ast.GtE: '__ge__'}
    _swap = {'__eq__': '__eq__', '__ne__': '__ne__', '__lt__': '__gt__', '__le__': '__ge__', '__gt__': '__lt__', '__ge__': '__le__'}

    def compare(self, op, l, r, node=None):
        if isinstance(op, (ast.Is, ast.IsNot)):
            if is_sym(l) or is_sym(r):
                same = False if (l is None or r is None) else None
                if same is None:
                    raise Unsupported('is on symbolic value')
            else:
                same = l is r
            return same if isinstance(op, ast.Is) else not same
        if isinstance(op, (ast.In, ast.NotIn)):
            if isinstance(r, (list, tuple, dict, set, frozenset, str, range)) and not is_sym(l) and not isinstance(l, SObj):
                if isinstance(r, (list, tuple)) and any(is_sym(x) or isinstance(x, SObj) for x in r):
                    raise Unsupported('in with symbolic elements')
                v = l in r
            elif isinstance(r, (list, tuple)) and is_sym(l):
                v = duck.Or(*[l == x for x in r]) if r else False
            elif isinstance(r, (list, tuple)) and (isinstance(l, SObj) or any(isinstance(x, SObj) for x in r)) and not any(is_sym(x) for x in r):
                # list containment: identity first, then element == item (CPython's list_contains)
                v = False
                for x in r:
                    if x is l:
                        v = True; break
                    c = self.truth(self.compare(ast.Eq(), x, l, node))
                    v = c if v is False else duck.Or(v, c)
            elif not is_sym(l) and not is_sym(r) and not isinstance(l, SObj) and not isinstance(r, SObj):
                try:
                    v = l in r
                except TypeError as ex:
                    raise PyRaise('TypeError', str(ex), node)
            else:
                raise Unsupported('in')
            return v if isinstance(op, ast.In) else duck.Not(v)
        name = self._cmp[type(op)]
        if isinstance(l, SObj) or isinstance(r, SObj):
            if isinstance(l, SObj) and find_method(l.cls, name):
                return self.call_method(l, name, [r], node)
            if isinstance(r, SObj) and find_method(r.cls, self._swap[name]):
                return self.call_method(r, self._swap[name], [l], node)
            if name == '__eq__': return l is r
            if name == '__ne__': return l is not r
            raise PyRaise('TypeError', 'unorderable', node)
        if not is_sym(l) and not is_sym(r):
            import operator as O
            try:
                return {ast.Eq: O.eq, ast.NotEq: O.ne, ast.Lt: O.lt, ast.LtE: O.le, ast.Gt: O.gt, ast.GtE: O.ge}[type(op)](l, r)
            except TypeError as ex:
                raise PyRaise('TypeError', str(ex), node)
        if l is None or r is None or isinstance(l, (str, type)) or isinstance(r, (str, type)):
            if isinstance(op, ast.Eq): return False
            if isinstance(op, ast.NotEq): return True
            raise PyRaise('TypeError', 'unorderable', node)
        l, r = self.num(l), self.num(r)
        if isinstance(l, float): l = realval(l)
        if isinstance(r, float): r = realval(r)
        if isinstance(op, ast.Eq): return l == r
        if isinstance(op, ast.NotEq): return l != r
        if isinstance(op, ast.Lt): return l < r
        if isinstance(op, ast.LtE): return l <= r
        if isinstance(op, ast.Gt): return l > r
        if isinstance(op, ast.GtE): return l >= r
        raise Unsupported('compare')

    def e_Attribute(self, e, env, globs):
        o = self.eval(e.value, env, globs)
        return self.getattr(o, e.attr, e)

    def getattr(self, o, name, node=None):
        if isinstance(o, SObj):
            if name == '__class__':
                return o.cls
            if name in o.fields:
                return o.fields[name]
            fm = find_method(o.cls, name)
            if fm is not None and isinstance(o.cls.__dict__.get(name, None) or getattr(o.cls, name), (classmethod,)) is False:
                pass
            if hasattr(o.cls, name):
                raw = None
                for k in o.cls.__mro__:
                    if name in k.__dict__:
                        raw = k.__dict__[name]
                        break
                if isinstance(raw, classmethod):
                    return BoundMethod(o.cls, name, o.cls, raw)
                if isinstance(raw, staticmethod):
                    return raw.__func__
                if inspect.isfunction(raw):
                    return BoundMethod(o, name, o.cls, raw)
                return getattr(o.cls, name)
            raise PyRaise('AttributeError', name, node)
        if is_sym(o):
            raise Unsupported('attribute %s of symbolic scalar' % name)
        if isinstance(o, type):
            raw = None
            for k in o.__mro__:
                if name in k.__dict__:
                    raw = k.__dict__[name]
                    break
            if isinstance(raw, classmethod):
                return BoundMethod(o, name, o, raw)
            if raw is None and not hasattr(o, name):
                raise PyRaise('AttributeError', name, node)
            return getattr(o, name)
        try:
            return getattr(o, name)
        except AttributeError:
            raise PyRaise('AttributeError', name, node)

    def e_Subscript(self, e, env, globs):
        o = self.eval(e.value, env, globs)
        if isinstance(e.slice, ast.Slice):
            lo = self.eval(e.slice.lower, env, globs) if e.slice.lower else None
            hi = self.eval(e.slice.upper, env, globs) if e.slice.upper else None
            st = self.eval(e.slice.step, env, globs) if e.slice.step else None
            if isinstance(o, SSeq):
                if st is not None or lo is None or hi is None:
                    raise Unsupported('slice form on opaque sequence')
                # the slice must stay inside the sequence (no clamping is relied upon): side obligation
                self.oblige('slice-inbounds@%d' % e.lineno, duck.And(self.num(lo) >= 0, self.num(lo) <= self.num(hi), self.num(hi) <= o.length), e)
                return SSlice(o, self.num(lo), self.num(hi))
            if isinstance(o, SObj):
                return self.call_method(o, '__getitem__', [slice(lo, hi, st)], e)
            if is_sym(lo) or is_sym(hi) or is_sym(st) or is_sym(o):
                raise Unsupported('symbolic slice')
            return o[lo:hi:st]
        k = self.eval(e.slice, env, globs)
        if isinstance(o, SObj):
            return self.call_method(o, '__getitem__', [k], e)
        if is_sym(o):
            raise Unsupported('subscript of symbolic scalar')
        if is_sym(k):
            if isinstance(o, (list, tuple)) and o:
                k = self.num(k)
                if self.path.branch(z3.Or(k < -len(o), k >= len(o))):
                    raise PyRaise('IndexError', node=e)
                res = o[-1]
                if any(isinstance(x, SObj) or not (is_sym(x) or isinstance(x, (int, bool))) for x in o):
                    # fork per index
                    for i in range(len(o)):
                        if self.path.branch(z3.Or(k == i, k == i - len(o))):
                            return o[i]
                    raise PathEnd()
                res = duck._lift(o[len(o) - 1])
                for i in range(len(o) - 2, -1, -1):
                    res = z3.If(z3.Or(k == i, k == i - len(o)), duck._lift(o[i]), res)
                return res
            if isinstance(o, dict):
                for kk in o:
                    if self.path.branch(k == kk):
                        return o[kk]
                raise PyRaise('KeyError', node=e)
            raise Unsupported('symbolic index')
        try:
            if isinstance(k, SObj):
                raise Unsupported('object used as key')
            return o[k]
        except KeyError:
            raise PyRaise('KeyError', repr(k), e)
        except IndexError:
            raise PyRaise('IndexError', repr(k), e)
        except TypeError as ex:
            raise PyRaise('TypeError', str(ex), e)

    def e_ListComp(self, e, env, globs):
        out = []
        def rec(gi, env2):
            if gi == len(e.generators):
                out.append(self.eval(e.elt, env2, globs))
                return
            g = e.generators[gi]
            for x in self.concrete_seq(self.eval(g.iter, env2, globs)):
                env3 = dict(env2)
                self.assign(g.target, x, env3, globs)
                ok = True
                for c in g.ifs:
                    if not self.path.branch(self.truth(self.eval(c, env3, globs))):
                        ok = False
                        break
                if ok:
                    rec(gi + 1, env3)
        rec(0, dict(env))
        return out

    def e_JoinedStr(self, e, env, globs):
        return '<formatted>'

    # ---- calls
    def e_Call(self, e, env, globs):
        if self.is_dropped_call(e):
            return None
        f = self.eval(e.func, env, globs)
        args = []
        for a in e.args:
            if isinstance(a, ast.Starred):
                args.extend(self.concrete_seq(self.eval(a.value, env, globs)))
            else:
                args.append(self.eval(a, env, globs))
        kwargs = {}
        for k in e.keywords:
            if k.arg is None:
                raise Unsupported('**kwargs call')
            kwargs[k.arg] = self.eval(k.value, env, globs)
        return self.call(f, args, kwargs, e)

    def call(self, f, args, kwargs, node=None):
        import builtins
        if isinstance(f, Closure):
            return self.run_function(f.node, args, f.globals, kwargs, f.env)
        if isinstance(f, BoundMethod):
            if isinstance(f.obj, type):     # classmethod: first arg is the class
                return self.call_contract(self.qname_of(f.owner, f.name), [f.obj] + args, kwargs, node)
            return self.call_method(f.obj, f.name, args, node, kwargs)
        if isinstance(f, type):
            if f in (int, bool, float, str, list, tuple, dict, set, type, range, zip, enumerate):
                return self.call_builtin(f, args, kwargs, node)
            if issubclass(f, BaseException):
                return f
            return self.construct(f, args, kwargs, node)
        if f is isinstance:
            o, k = args
            if isinstance(o, SObj):
                ks = k if isinstance(k, tuple) else (k,)
                return any(issubclass(o.cls, kk) for kk in ks)
            if is_sym(o):
                ks = k if isinstance(k, tuple) else (k,)
                if z3.is_int(o):
                    return any(kk in (int, object) for kk in ks)
                if z3.is_bool(o):
                    return any(kk in (int, bool, object) for kk in ks)
                if z3.is_real(o):
                    return any(kk in (float, object) for kk in ks)
                raise Unsupported('isinstance on %s' % o.sort())
            return isinstance(o, k)
        if getattr(f, '__module__', None) == 'builtins' or f in (len, abs, hash, min, max, sorted, hasattr, getattr):
            return self.call_builtin(f, args, kwargs, node)
        if inspect.isfunction(f):
            mod = sys.modules.get(f.__module__)
            qn = '%s:%s' % (f.__module__, f.__qualname__)
            return self.call_contract(qn, args, kwargs, node, func=f)
        if inspect.isbuiltin(f) and isinstance(getattr(f, '__self__', None), (dict, list, tuple, str, bytes, set, frozenset)):
            # method of a concrete container (its elements may be symbolic): keys/values/items/get/append/... run natively as long as no
            # symbolic value has to be compared or hashed
            if f.__name__ in ('index', 'count', 'remove', 'sort', '__contains__') or any(is_sym(a) or isinstance(a, SObj) for a in args if f.__name__ in ('get', 'pop', 'setdefault', '__getitem__')):
                raise Unsupported('container method %s with symbolic comparison' % f.__name__)
            try:
                return f(*args, **kwargs)
            except z3.Z3Exception as ex:
                raise Unsupported('container method %s: %s' % (f.__name__, ex))
            except Exception as ex:
                raise PyRaise(type(ex).__name__, str(ex), node)
        if inspect.ismethod(f):
            raise Unsupported('bound method of concrete object %r' % (f,))
        raise Unsupported('call of %r' % (f,))

    def call_builtin(self, f, args, kwargs, node):
        if f is sorted and len(args) == 1 and isinstance(args[0], (list, tuple)) and set(kwargs) <= {'key'}:
            # stable insertion sort; comparisons of symbolic integer keys fork the path
            items = list(args[0])
            kf = kwargs.get('key')
            keys = [self.call(kf, [x], {}, node) if kf is not None else x for x in items]
            if any(is_sym(k) for k in keys):
                if not all(is_sym(k) and z3.is_int(k) or (isinstance(k, int) and not isinstance(k, bool)) for k in keys):
                    raise Unsupported('sorted with symbolic non-integer keys')
                out = []
                for x, k in zip(items, keys):
                    pos = len(out)
                    while pos > 0 and self.path.branch(duck._lift(k) < duck._lift(out[pos - 1][1])):
                        pos -= 1
                    out.insert(pos, (x, k))
                return [x for (x, _) in out]
            if kf is not None and not any(isinstance(k, SObj) for k in keys):
                try:
                    order = sorted(range(len(items)), key=lambda i: keys[i])
                except TypeError as ex:
                    raise PyRaise('TypeError', str(ex), node)
                return [items[i] for i in order]
        sym = any(is_sym(a) or isinstance(a, (SObj, SSeq, SSlice)) for a in args)
        if not sym:
            if f in (list, tuple) and args and isinstance(args[0], (list, tuple)) and any(
                    is_sym(x) or isinstance(x, SObj) for x in args[0]):
                return f(args[0])
            try:
                return f(*args, **kwargs)
            except Exception as ex:
                raise PyRaise(type(ex).__name__, str(ex), node)
        if f is int:
            a = args[0]
            if isinstance(a, SObj):
                return self.call_method(a, '__int__', [], node)
            if z3.is_int(a): return a
            if z3.is_bool(a): return self.num(a)
            if z3.is_real(a):
                # int() truncates toward zero
                return z3.If(a >= 0, z3.ToInt(a), -z3.ToInt(-a))
        if f is bool:
            return self.truth(args[0])
        if f is abs:
            a = args[0]
            if isinstance(a, SObj):
                return self.call_method(a, '__abs__', [], node)
            return duck.pyabs(self.num(a))
        if f is hash:
            a = args[0]
            if isinstance(a, SObj):
                return self.call_method(a, '__hash__', [], node)
            return duck.pyhash(self.num(a))
        if f is len:
            a = args[0]
            if isinstance(a, SSeq):
                return a.length
            if isinstance(a, SObj):
                return self.call_method(a, '__len__', [], node)
        if f in (min, max) and len(args) >= 2:
            xs = [self.num(a) for a in args]
            r = xs[0]
            for x in xs[1:]:
                r = z3.If((x < r) if f is min else (x > r), duck._lift(x), duck._lift(r))
            return r
        if f in (list, tuple):
            return f(self.concrete_seq(args[0]))
        if f is type:
            if isinstance(args[0], SObj):
                return args[0].cls
            if z3.is_int(args[0]): return int
        if f is range:
            raise Unsupported('range over symbolic bound')
        if f is hasattr and len(args) == 2 and isinstance(args[1], str):
            o, name = args
            if isinstance(o, SObj):
                # instance attributes of a symbolic record are exactly its fields; everything else comes from the class
                return name in o.fields or hasattr(o.cls, name)
            if z3.is_int(o): return hasattr(int, name)
            if z3.is_bool(o): return hasattr(bool, name)
            if z3.is_real(o): return hasattr(float, name)
        if f is getattr and len(args) in (2, 3) and isinstance(args[1], str):
            o, name = args[0], args[1]
            if isinstance(o, SObj):
                if name in o.fields or hasattr(o.cls, name):
                    return self.getattr(o, name, node)
                if len(args) == 3: return args[2]
                raise PyRaise('AttributeError', name, node)
            if is_sym(o):
                k = int if z3.is_int(o) else (bool if z3.is_bool(o) else float)
                if not hasattr(k, name):
                    if len(args) == 3: return args[2]
                    raise PyRaise('AttributeError', name, node)
                raise Unsupported('attribute %s of symbolic scalar' % name)
        raise Unsupported('builtin %s on symbolic args' % getattr(f, '__name__', f))

    def qname_of(self, owner, name):
        fm = find_method(owner, name)
        if fm is None:
            raise PyRaise('AttributeError', name)
        k = fm[0]
        return '%s:%s.%s' % (k.__module__, k.__qualname__, name)

    def call_method(self, obj, name, args, node=None, kwargs=None):
        if not isinstance(obj, SObj):
            raise Unsupported('method call on %r' % (obj,))
        fm = find_method(obj.cls, name)
        if fm is None:
            raise PyRaise('AttributeError', name, node)
        return self.call_contract('%s:%s.%s' % (fm[0].__module__, fm[0].__qualname__, name), [obj] + list(args), kwargs or {}, node)

    def construct(self, cls, args, kwargs, node):
        """constructor call K(args): contract of the __init__ that K resolves to"""
        fm = find_method(cls, '__init__')
        if fm is None:
            return SObj(cls, {})
        obj = SObj(cls, {})
        self.call_contract('%s:%s.__init__' % (fm[0].__module__, fm[0].__qualname__), [obj] + list(args), kwargs, node)
        return obj

    def call_contract(self, qn, args, kwargs, node=None, func=None):
        c = self.contracts.get(qn)
        if c is None:
            raise Unsupported('no contract for callee %s' % qn)
        if kwargs and not c.inline:
            raise Unsupported('keyword call to contracted callee %s' % qn)
        self.calls.append(qn)
        if c.inline:
            mod, dotted = qn.split(':')
            path = inspect.getsourcefile(sys.modules[mod])
            fnode, _ = FuncSrc.find(path, dotted)
            return self.run_function(fnode, args, vars(sys.modules[mod]), kwargs or None)
        ctx = self.ctx
        pre = c.pre(ctx, *args)
        self.oblige('callpre[%s]@%s' % (qn.split(':')[1], getattr(node, 'lineno', '?')), pre, node)
        self.path.assume(pre)
        for exc, cond in c.raises.items():
            cnd = cond(ctx, *args)
            if exc in c.raises_iff:
                if self.path.branch(cnd):
                    raise PyRaise(exc, 'from ' + qn, node)
            else:
                # may raise when cnd holds: nondeterministic
                if self.path.branch(cnd):
                    if self.path.choose(2) == 0:
                        raise PyRaise(exc, 'from ' + qn, node)
        if qn.endswith('.__init__'):
            if c.result is None:
                raise Unsupported('constructor contract %s has no result shape' % qn)
            c.result(ctx, *args)
            self.path.assume(c.post(ctx, args[0], *args))
            return None
        if c.result is None:
            raise Unsupported('contract %s has no result shape' % qn)
        res = c.result(ctx, *args)
        self.path.assume(c.post(ctx, res, *args))
        return res

def realval(v):
    """exact conversion (repr of a float is rounded; as_integer_ratio is not)"""
    if isinstance(v, float):
        n, d = v.as_integer_ratio()
        return z3.Q(n, d)
    return z3.RealVal(v)

class _Break(Exception): pass
class _Continue(Exception): pass

# ---------------------------------------------------------------------------------------
class Verdict(object):
    def __init__(self):
        self.clauses = {}       # clause -> {'status','secs','paths','witness','detail'}
        self.paths = 0
        self.returns = 0
        self.raises = {}
        self.unsupported = None
        self.calls = set()
        self.cover = None

def _check(pc, goal, timeout_ms):
    """is pc ⇒ goal valid?  returns ('unsat'|'sat'|'unknown', model, secs)"""
    t = time.time()
    s = z3.Solver()
    s.set('timeout', timeout_ms)
    for c in pc:
        s.add(c)
    s.add(z3.Not(goal) if is_sym(goal) else z3.BoolVal(not goal))
    r = s.check()
    m = s.model() if r == z3.sat else None
    return str(r), m, time.time() - t

def verify_function(qname, fnode, globs, contract, contracts, make_args, timeout_ms=20000, loop_bound=70):
    """Symbolically execute the real function body under `contract`.
       make_args(ctx) -> (args, inputs) where inputs: dict name -> z3 term (for model read-back)
       Returns a Verdict with one entry per clause: post, raises:<E>, noraise-iff:<E>, frame, assert@n, callpre..., unwind@n
    """
    V = Verdict()
    path = Path(timeout_ms=min(timeout_ms, 5000))
    def clause(name, status, secs, witness=None, detail=None):
        c = V.clauses.setdefault(name, {'status': 'unsat', 'secs': 0.0, 'paths': 0, 'witness': None, 'detail': None})
        c['secs'] += secs
        c['paths'] += 1
        order = {'unsat': 0, 'unknown': 1, 'sat': 2}
        if order[status] > order[c['status']]:
            c['status'] = status
            c['witness'] = witness
            c['detail'] = detail
    # make sure the clauses exist even if no path reaches them
    first = True
    while True:
        path.restart()
        interp = Interp(path, contracts, loop_bound=loop_bound)
        ctx = interp.ctx
        outcome = None
        try:
            args, inputs = make_args(ctx)
            pre = contract.pre(ctx, *args)
            path.assume(pre)
            if first:
                first = False
                V.cover = path.solver.check() != z3.unsat
                if not V.cover:
                    break
            try:
                res = interp.run_function(fnode, args, globs)
                outcome = ('return', res)
            except PyRaise as e:
                outcome = ('raise', e)
        except PathEnd:
            outcome = ('pruned', None)
        except Unsupported as u:
            V.unsupported = str(u)
            return V
        V.paths += 1
        V.calls.update(interp.calls)
        def model_inputs(m):
            if m is None:
                return None
            out = {}
            try:
                if any(d.name().startswith('py_') and d.arity() > 0 for d in m.decls()):
                    out['_uf'] = True
            except Exception:
                pass
            for k, t in inputs.items():
                try:
                    out[k] = str(m.eval(t, model_completion=True))
                except Exception:
                    out[k] = '?'
            return out
        # side obligations (asserts, call preconditions, unwinding)
        for (cl, formula, pcs, line) in path.side:
            r, m, secs = _check(pcs, formula, timeout_ms)
            clause(cl, r, secs, model_inputs(m), 'line %s' % line)
        if outcome[0] == 'return':
            V.returns += 1
            res = outcome[1]
            if qname.endswith('.__init__'):
                res = args[0]
            try:
                goal = contract.post(ctx, res, *args)
            except PathEnd:
                goal = True
            except PyRaise as e:
                # a postcondition that executes code itself (twin execution of the same body) met a Python exception there
                goal = False
                res = 'twin execution raised %s (%s) at line %s' % (e.exc, e.msg, getattr(e.node, 'lineno', '?'))
            except Unsupported as u:
                V.unsupported = 'in the postcondition: %s' % u
                return V
            r, m, secs = _check(path.pc, goal, timeout_ms)
            clause('post', r, secs, model_inputs(m), 'returned %r' % (res,))
            for exc in contract.raises_iff:
                cnd = contract.raises[exc](ctx, *args)
                r, m, secs = _check(path.pc, duck.Not(cnd), timeout_ms)
                clause('raises-iff:%s' % exc, r, secs, model_inputs(m), 'returned normally although %s is due' % exc)
            # frame
            if contract.frame == 'pure':
                bad = [(o, f) for (o, f) in interp.written]
            else:
                bad = [(o, f) for (o, f) in interp.written if not any(f == fr.split('.')[-1] for fr in contract.frame)]
            if bad:
                r, m, secs = _check(path.pc, z3.BoolVal(False), timeout_ms)
                clause('frame', r, secs, model_inputs(m), 'writes %s' % [f for (_, f) in bad])
            else:
                clause('frame', 'unsat', 0.0)
        elif outcome[0] == 'raise':
            e = outcome[1]
            V.raises[e.exc] = V.raises.get(e.exc, 0) + 1
            if e.exc in contract.raises:
                cnd = contract.raises[e.exc](ctx, *args)
                r, m, secs = _check(path.pc, cnd, timeout_ms)
                clause('raises:%s' % e.exc, r, secs, model_inputs(m), 'raised %s (%s) at line %s' % (e.exc, e.msg, getattr(e.node, 'lineno', '?')))
            else:
                r, m, secs = _check(path.pc, z3.BoolVal(False), timeout_ms)
                clause('noraise', r, secs, model_inputs(m), 'raised %s (%s) at line %s' % (e.exc, e.msg, getattr(e.node, 'lineno', '?')))
        if not path.advance():
            break
        if V.paths > 4000:
            V.unsupported = 'path explosion'
            return V
    if 'post' not in V.clauses and V.cover:
        # no path returned: the postcondition is vacuous here; recorded so that the caller can see it
        V.clauses['post'] = {'status': 'unsat', 'secs': 0.0, 'paths': 0, 'witness': None, 'detail': 'no returning path'}
    if 'noraise' not in V.clauses:
        V.clauses['noraise'] = {'status': 'unsat', 'secs': 0.0, 'paths': 0, 'witness': None, 'detail': None}
    return V
