"""Independent concrete interpreter of the IR (pure Python, no z3): the reference used by native
replays and to audit liftvc.den on random valuations.  Same S-ir meaning, written separately."""
import hashlib

class Undefined(Exception):
    pass

def mask(w):
    return (1 << w) - 1

def sx(v, w):
    v &= mask(w)
    return v - (1 << w) if v >> (w - 1) else v

def ufun(name, args, w):
    h = hashlib.sha256(repr((name, tuple(args))).encode()).digest()
    return int.from_bytes(h[:16], 'little') & mask(w)

class CState(object):
    def __init__(self, regs=None, mem=None, memdefault=None):
        self.regs = dict(regs or {})        # name -> int
        self.mem = dict(mem or {})          # addr -> byte
        self.memdefault = memdefault or (lambda a: ufun('mem', [a], 8))
    def reg(self, name, size):
        if name not in self.regs:
            self.regs[name] = ufun('reg', [name], size)
        return self.regs[name] & mask(size)
    def rd(self, addr, nbytes):
        v = 0
        for i in range(nbytes):
            a = (addr + i) & 0xffffffff
            b = self.mem[a] if a in self.mem else self.memdefault(a)
            v |= (b & 0xff) << (8 * i)
        return v
    def copy(self):
        c = CState(self.regs, self.mem, self.memdefault)
        return c

def width(e):
    n = e.__class__.__name__
    if n == 'ExprInt': return e.arg.size
    if n in ('ExprId', 'ExprMem'): return e.size
    if n == 'ExprSlice': return e.stop - e.start
    if n == 'ExprCompose': return max(x[2] for x in e.args) - min(x[1] for x in e.args)
    if n == 'ExprCond': return width(e.src1)
    if n == 'ExprOp':
        if e.op in ('bsf', 'bsr') and len(e.args) == 2: return width(e.args[1])
        return width(e.args[0]) if e.args else 32
    raise Undefined(n)

def address(e, st):
    a = ev(e.arg, st) & 0xffffffff
    s = e.segm
    if s is not None and not (s.__class__.__name__ == 'ExprId' and s.name in ('es', 'cs', 'ss', 'ds')):
        a = (a + ufun('segbase', [ev(s, st)], 32)) & 0xffffffff
    return a

def ev(e, st):
    """value of e in concrete state st, as an int in [0, 2^width)"""
    n = e.__class__.__name__
    if n == 'ExprInt':
        return int(e.arg) & mask(e.arg.size)
    if n == 'ExprId':
        return st.reg(e.name, e.size)
    if n == 'ExprMem':
        return st.rd(address(e, st), (e.size + 7) // 8) & mask(e.size)
    if n == 'ExprSlice':
        return (ev(e.arg, st) >> e.start) & mask(e.stop - e.start)
    if n == 'ExprCompose':
        lo0 = min(x[1] for x in e.args)
        r = 0
        for (x, lo, hi) in e.args:
            r |= (ev(x, st) & mask(hi - lo)) << (lo - lo0)
        return r
    if n == 'ExprCond':
        w = width(e.src1)
        return (ev(e.src1, st) if ev(e.cond, st) != 0 else ev(e.src2, st)) & mask(w)
    if n == 'ExprOp':
        return ev_op(e, st)
    raise Undefined(n)

def ev_op(e, st):
    op = e.op
    if not e.args:
        return ufun(op, [], 32)
    vs = [ev(a, st) for a in e.args]
    ws = [width(a) for a in e.args]
    w = ws[0]
    m = mask(w)
    if op in ('+', '*', '^', '&', '|'):
        r = vs[0]
        for v in vs[1:]:
            v &= m
            if op == '+': r = r + v
            elif op == '*': r = r * v
            elif op == '^': r = r ^ v
            elif op == '&': r = r & v
            else: r = r | v
        return r & m
    if op == '-':
        if len(vs) == 1: return (-vs[0]) & m
        return (vs[0] - (vs[1] & m)) & m
    if op in ('<<', 'a<<') and len(vs) == 2:
        return (vs[0] << vs[1]) & m if vs[1] < w + 64 else 0
    if op == '>>' and len(vs) == 2:
        return (vs[0] >> vs[1]) & m
    if op == 'a>>' and len(vs) == 2:
        return (sx(vs[0], w) >> min(vs[1], w + 1)) & m
    if op in ('<<<', '>>>') and len(vs) == 2:
        c = vs[1] % w
        if op == '>>>': c = (w - c) % w
        return ((vs[0] << c) | (vs[0] >> (w - c))) & m if c else vs[0]
    if op == '==' and len(vs) == 2:
        return 1 if vs[0] == (vs[1] & m) else 0
    if op == '<' and len(vs) == 2:
        return 1 if vs[0] < (vs[1] & m) else 0
    if op == 'parity' and len(vs) == 1:
        return 1 if bin(vs[0] & 0xff).count('1') % 2 == 0 else 0
    if op == '!' and len(vs) == 1:
        return (~vs[0]) & m
    if op in ('umul32_hi', 'umul32_lo', 'umul16_hi', 'umul16_lo', '*hi', '*lo'):
        p = vs[0] * (vs[1] & m)
        return (p >> w) & m if op.endswith('hi') else p & m
    if op in ('imul32_hi', 'imul32_lo', 'imul16_hi', 'imul16_lo'):
        p = sx(vs[0], w) * sx(vs[1] & m, w)
        return (p >> w) & m if op.endswith('hi') else p & m
    if op == 'umul08':
        return ((vs[0] & 0xff) * (vs[1] & 0xff)) & m
    if op == 'imul08':
        return (sx(vs[0], 8) * sx(vs[1], 8)) & m
    for pre, signed, rem in (('div', False, False), ('rem', False, True), ('idiv', True, False), ('irem', True, True)):
        if op in (pre + '8', pre + '16', pre + '32') and len(vs) == 3:
            n = int(op[len(pre):])
            hi, lo, d = vs[0] & mask(n), vs[1] & mask(n), vs[2] & mask(n)
            if d == 0:
                return ufun(op + '_divzero', [hi, lo], n) & m
            big = (hi << n) | lo
            if signed:
                b, dd = sx(big, 2 * n), sx(d, n)
                q = abs(b) // abs(dd)
                if (b < 0) != (dd < 0): q = -q
                r = b - q * dd
            else:
                q, r = big // d, big % d
            return (r if rem else q) & mask(n) & m
    if op in ('<<<c_rez', '<<<c_cf', '>>>c_rez', '>>>c_cf') and len(vs) == 3:
        W = w + 1
        big = ((vs[2] & 1) << w) | vs[0]
        c = (vs[1] & 0x1f) % W
        if op.startswith('>>>'): c = (W - c) % W
        r = ((big << c) | (big >> (W - c))) & mask(W) if c else big
        return r & m if op.endswith('rez') else (r >> w) & 1
    if op in ('bsf', 'bsr'):
        x = vs[-1]
        n = ws[-1]
        if x == 0:
            return ufun(op + '_zero', [x], n) if len(vs) == 1 else vs[0] & mask(n)
        if op == 'bsf':
            return (x & -x).bit_length() - 1
        return x.bit_length() - 1
    return ufun(op, vs, w)

def apply_affs(affs, st):
    """parallel assignment on a concrete state; returns the post state"""
    post = st.copy()
    for a in affs:
        if a.__class__.__name__ != 'ExprAff':
            raise Undefined('not an assignment')
        dst, src = a.dst, a.src
        v = ev(src, st)
        dn = dst.__class__.__name__
        if dn == 'ExprId':
            post.regs[dst.name] = v & mask(dst.size)
        elif dn == 'ExprMem':
            ad = address(dst, st)
            for i in range((dst.size + 7) // 8):
                post.mem[(ad + i) & 0xffffffff] = (v >> (8 * i)) & 0xff
        else:
            raise Undefined('destination ' + dn)
    return post

def welltyped(e, out=None):
    """list of typing issues of an expression under S-ir (empty list = well typed)"""
    out = [] if out is None else out
    n = e.__class__.__name__
    try:
        if n == 'ExprSlice':
            welltyped(e.arg, out)
            if not (0 <= e.start < e.stop <= width(e.arg)):
                out.append('slice [%d:%d] of a %d-bit operand' % (e.start, e.stop, width(e.arg)))
        elif n == 'ExprCompose':
            pos = 0
            for (x, lo, hi) in sorted(e.args, key=lambda t: t[1]):
                welltyped(x, out)
                if lo != pos or hi <= lo: out.append('compose slots do not tile')
                if width(x) != hi - lo: out.append('compose element width %d in slot of %d' % (width(x), hi - lo))
                pos = hi
        elif n == 'ExprCond':
            for x in (e.cond, e.src1, e.src2): welltyped(x, out)
            if width(e.src1) != width(e.src2): out.append('conditional arms differ in width')
        elif n == 'ExprOp':
            for a in e.args: welltyped(a, out)
            if e.op in ('+', '*', '^', '&', '|', '-', '==') and len(set(width(a) for a in e.args)) > 1:
                out.append('operands of %s differ in width' % e.op)
        elif n == 'ExprMem':
            welltyped(e.arg, out)
    except Exception as ex:
        out.append('indeterminate: %r' % (ex,))
    return out
