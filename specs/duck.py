"""Duck-typed logical helpers: the same contract/spec text is evaluated
   (a) symbolically by pyvc (values are z3 terms / SObj records) and
   (b) natively by CPython (replay scripts, run-time twins, under /venv/bin/python which has no z3).
"""

def is_sym(x):
    return type(x).__module__.startswith('z3')

def _z3():
    import z3
    return z3

def And(*xs):
    xs = [x for x in xs]
    if any(is_sym(x) for x in xs):
        z3 = _z3()
        return z3.And(*[x if is_sym(x) else z3.BoolVal(bool(x)) for x in xs])
    return all(bool(x) for x in xs)

def Or(*xs):
    if any(is_sym(x) for x in xs):
        z3 = _z3()
        return z3.Or(*[x if is_sym(x) else z3.BoolVal(bool(x)) for x in xs])
    return any(bool(x) for x in xs)

def Not(x):
    if is_sym(x):
        return _z3().Not(x)
    return not x

def Implies(a, b):
    if is_sym(a) or is_sym(b):
        z3 = _z3()
        a = a if is_sym(a) else z3.BoolVal(bool(a))
        b = b if is_sym(b) else z3.BoolVal(bool(b))
        return z3.Implies(a, b)
    return (not a) or bool(b)

def If(c, a, b):
    if is_sym(c):
        z3 = _z3()
        if not is_sym(a) and not is_sym(b) and isinstance(a, bool) and isinstance(b, bool):
            a, b = z3.BoolVal(a), z3.BoolVal(b)
        elif not is_sym(a) and not is_sym(b):
            a, b = z3.IntVal(a), z3.IntVal(b)
        return z3.If(c, a, b)
    return a if c else b

def Eq(a, b):
    """value equality usable on both sides (z3 overloads ==, natively it is ==)"""
    return a == b

# --- uninterpreted (symbolic) / exact (native) integer bit operations on mathematical ints
_UF = {}
def _uf(name, arity=2):
    z3 = _z3()
    if name not in _UF:
        _UF[name] = z3.Function(name, *([z3.IntSort()] * (arity + 1)))
    return _UF[name]

def _lift(x):
    z3 = _z3()
    if is_sym(x):
        if z3.is_bool(x):
            return z3.If(x, z3.IntVal(1), z3.IntVal(0))
        return x
    return z3.IntVal(int(x))

def is_pow2m1(m):
    return isinstance(m, int) and not isinstance(m, bool) and m >= 0 and (m & (m + 1)) == 0

def bitop(op, a, b):
    """a op b for op in & | ^ << >> ** on Python ints.
       native: exact.  symbolic: exact encodings where linear (mask 2^k-1, shift by constant),
       otherwise an uninterpreted function shared by code side and spec side (congruence only)."""
    if not is_sym(a) and not is_sym(b):
        if op == '&': return a & b
        if op == '|': return a | b
        if op == '^': return a ^ b
        if op == '<<': return a << b
        if op == '>>': return a >> b
        if op == '**': return a ** b
        raise ValueError(op)
    z3 = _z3()
    if op == '&':
        if is_pow2m1(b): return _lift(a) % (b + 1)
        if is_pow2m1(a): return _lift(b) % (a + 1)
    if op == '<<' and not is_sym(b) and b >= 0:
        return _lift(a) * (1 << b)
    if op == '>>' and not is_sym(b) and b >= 0:
        return _lift(a) / (1 << b)          # z3 Int '/' is floor division for a positive divisor
    if op in '&|^':
        ba, bb = ubound(a), ubound(b)
        if ba is not None and bb is not None and max(ba, bb) < 256:
            # both operands provably in [0, 2^k): exact bitwise encoding by bit decomposition (linear)
            k = max(ba, bb).bit_length()
            a, b = _lift(a), _lift(b)
            tot = None
            for i in range(max(k, 1)):
                x = (a / (1 << i)) % 2
                y = (b / (1 << i)) % 2
                if op == '^': bit = (x + y) % 2
                elif op == '&': bit = x * y if False else z3.If(z3.And(x == 1, y == 1), z3.IntVal(1), z3.IntVal(0))
                else: bit = z3.If(z3.Or(x == 1, y == 1), z3.IntVal(1), z3.IntVal(0))
                term = bit * (1 << i)
                tot = term if tot is None else tot + term
            return tot
        if op == '^' and (is_pow2m1(b) or is_pow2m1(a)):
            # x ^ (2^k - 1) == (2^k - 1) - x for 0 <= x < 2^k (exact); outside that range the uninterpreted function
            m, x = (b, a) if is_pow2m1(b) else (a, b)
            x = _lift(x)
            return z3.If(z3.And(x >= 0, x <= m), m - x, _uf('py_xor')(*( (x, z3.IntVal(m)) if x.sexpr() <= z3.IntVal(m).sexpr() else (z3.IntVal(m), x))))
        a, b = _lift(a), _lift(b)
        if a.sexpr() > b.sexpr():       # & | ^ are commutative: canonical argument order for the UF
            a, b = b, a
    name = {'&': 'py_and', '|': 'py_or', '^': 'py_xor', '<<': 'py_shl', '>>': 'py_shr', '**': 'py_pow'}[op]
    return _uf(name)(_lift(a), _lift(b))

def ubound(t):
    """conservative syntactic upper bound u with 0 <= t <= u for a z3 Int term / Python int, or None"""
    if not is_sym(t):
        if isinstance(t, bool): return int(t)
        return t if isinstance(t, int) and t >= 0 else None
    z3 = _z3()
    if z3.is_bool(t):
        return 1
    if not z3.is_int(t):
        return None
    if z3.is_int_value(t):
        v = t.as_long()
        return v if v >= 0 else None
    k = t.decl().kind()
    ch = t.children()
    if k == z3.Z3_OP_MOD and z3.is_int_value(ch[1]) and ch[1].as_long() > 0:
        return ch[1].as_long() - 1
    if k == z3.Z3_OP_ITE:
        a, b = ubound(ch[1]), ubound(ch[2])
        return None if a is None or b is None else max(a, b)
    if k == z3.Z3_OP_ADD:
        bs = [ubound(c) for c in ch]
        return None if any(x is None for x in bs) else sum(bs)
    if k == z3.Z3_OP_MUL:
        bs = [ubound(c) for c in ch]
        if any(x is None for x in bs): return None
        r = 1
        for x in bs: r *= x
        return r
    if k in (z3.Z3_OP_IDIV, z3.Z3_OP_DIV) and z3.is_int_value(ch[1]) and ch[1].as_long() > 0:
        a = ubound(ch[0])
        return None if a is None else a // ch[1].as_long()
    return None

def pyhash(x):
    if is_sym(x):
        return _uf('py_hash', 1)(_lift(x))
    return hash(x)

def pyabs(x):
    if is_sym(x):
        return _z3().If(x >= 0, x, -x)
    return abs(x)

def isint(x):
    """a plain Python int (not bool, not a repo object)"""
    if is_sym(x):
        z3 = _z3()
        return z3.is_int(x)
    return isinstance(x, int) and not isinstance(x, bool)
