"""Well-formedness of lifted IR (C11), written from the property text; pure Python (usable in native replays).

wf_list(affs) -> list of issues; an issue is (clause, site, message) where `site` is a short stable
description of the place in the IR (assignment destination + operator + operand widths), so that a
finding can be identified independently of register numbers and immediates.
A few clauses need a solver (flag value in {0,1}; memory cells may overlap): they are returned as
`pending` obligations (kind, data) for the caller to discharge with liftvc.
"""

SAMEW = ('+', '-', '*', '&', '|', '^', '==')
COUNT = ('<<', '>>', 'a>>', 'a<<', '<<<', '>>>')

def cname(e):
    return e.__class__.__name__

def width(e):
    """determinate width or None"""
    n = cname(e)
    try:
        if n == 'ExprInt': return e.arg.size
        if n in ('ExprId', 'ExprMem'): return e.size
        if n == 'ExprSlice': return e.stop - e.start
        if n == 'ExprCompose':
            if not e.args: return None
            return max(x[2] for x in e.args) - min(x[1] for x in e.args)
        if n == 'ExprCond': return width(e.src1)
        if n == 'ExprOp':
            if not e.args: return None
            if e.op in ('bsf', 'bsr') and len(e.args) == 2: return width(e.args[1])
            return width(e.args[0])
    except Exception:
        return None
    return None

import re as _re
def dstname(d):
    n = cname(d)
    if n == 'ExprId':
        # register class instead of the register number: findings are identified by the site, not by the operand
        if d.name in ('eax', 'ebx', 'ecx', 'edx', 'esi', 'edi', 'ebp', 'esp'): return 'gpr'
        if _re.match(r'x?mm\d$', d.name): return d.name[:-1]
        if _re.match(r'float_st\d$', d.name): return 'float_st'
        if _re.match(r'[cd]r\d$', d.name): return d.name[:2]
        return d.name
    if n == 'ExprMem': return '@%s' % d.size
    return n

def check_value(e, dst, issues):
    """recursive typing of a value expression"""
    n = cname(e)
    if n == 'ExprAff':
        issues.append(('nested-assignment', '%s' % dst, 'an assignment occurs inside the source of %s' % dst))
        check_value(e.src, dst, issues)
        return
    if n in ('ExprInt', 'ExprId'):
        if n == 'ExprId' and not isinstance(e.size, int):
            issues.append(('width', '%s:id' % dst, 'identifier %s has no integer size' % e.name))
        return
    if n == 'ExprMem':
        check_value(e.arg, dst, issues)
        if e.segm is not None and hasattr(e.segm, 'get_size'):
            check_value(e.segm, dst, issues)
        if not isinstance(e.size, int) or e.size <= 0:
            issues.append(('width', '%s:mem' % dst, 'memory cell of size %r' % (e.size,)))
        return
    if n == 'ExprSlice':
        check_value(e.arg, dst, issues)
        w = width(e.arg)
        if w is None:
            issues.append(('width', '%s:slice' % dst, 'slice of an expression without determinate width'))
        elif not (0 <= e.start < e.stop <= w):
            issues.append(('slice', '%s:[%s:%s]of%s' % (dst, e.start, e.stop, w), 'slice [%s:%s] outside its %s-bit operand' % (e.start, e.stop, w)))
        return
    if n == 'ExprCompose':
        if not e.args:
            issues.append(('compose', '%s:empty' % dst, 'empty concatenation'))
            return
        pos = 0
        layout = []
        for (x, lo, hi) in sorted(e.args, key=lambda t: t[1]):
            check_value(x, dst, issues)
            wx = width(x)
            layout.append('%s@%s:%s' % (wx, lo, hi))
            if lo != pos or hi <= lo:
                issues.append(('compose-tiling', '%s:{%s}' % (dst, ','.join('%s:%s' % (a[1], a[2]) for a in e.args)),
                               'concatenation slots %s do not tile [0,%s)' % ([(a[1], a[2]) for a in e.args], max(a[2] for a in e.args))))
            # (an element wider/narrower than its slot is NOT flagged: the property only demands that the slots tile the
            #  result; S-ir truncates / zero-extends the element to its slot)
            pos = hi
        return
    if n == 'ExprCond':
        for x in (e.cond, e.src1, e.src2):
            check_value(x, dst, issues)
        w1, w2 = width(e.src1), width(e.src2)
        if w1 is None or w2 is None or width(e.cond) is None:
            issues.append(('width', '%s:cond' % dst, 'conditional with an operand of indeterminate width'))
        elif w1 != w2:
            issues.append(('cond-arms', '%s:?(%s,%s)' % (dst, w1, w2), 'conditional arms of %s and %s bits' % (w1, w2)))
        return
    if n == 'ExprOp':
        if not e.args:
            issues.append(('width', '%s:%s()' % (dst, e.op), 'operator %s without operands has no determinate width' % e.op))
            return
        for a in e.args:
            if cname(a) in ('ExprInt', 'ExprId', 'ExprMem', 'ExprSlice', 'ExprCompose', 'ExprCond', 'ExprOp', 'ExprAff'):
                check_value(a, dst, issues)
            else:
                issues.append(('width', '%s:%s' % (dst, e.op), 'operand %r of %s is not an expression' % (a, e.op)))
                return
        ws = [width(a) for a in e.args]
        if any(w is None for w in ws):
            issues.append(('width', '%s:%s' % (dst, e.op), 'operand of %s without determinate width' % e.op))
            return
        if e.op in SAMEW and len(set(ws)) > 1:
            issues.append(('opwidth', '%s:%s(%s)' % (dst, e.op, ','.join(map(str, ws))), 'operands of %s have widths %s' % (e.op, ws)))
        if e.op in COUNT and len(ws) == 2 and ws[1] > ws[0]:
            issues.append(('opwidth', '%s:%s(%s)' % (dst, e.op, ','.join(map(str, ws))), 'count of %s is wider (%s) than the value (%s)' % (e.op, ws[1], ws[0])))
        return
    issues.append(('width', '%s:%s' % (dst, n), 'node %s has no width' % n))

def wf_list(affs):
    """returns (issues, pending): pending = [('flag01', aff), ('memoverlap', aff1, aff2)]"""
    issues, pending = [], []
    dsts = []
    if not isinstance(affs, (list, tuple)):
        return [('shape', 'result', 'lifter returned %s instead of a list' % type(affs).__name__)], []
    for i, a in enumerate(affs):
        if cname(a) != 'ExprAff':
            issues.append(('shape', 'elem:%s' % cname(a), 'element %d is %s, not an assignment' % (i, cname(a))))
            continue
        d, s = a.dst, a.src
        dn = cname(d)
        if dn not in ('ExprId', 'ExprMem'):
            issues.append(('dst', 'dst:%s' % dn, 'destination is %s' % dn))
            continue
        name = dstname(d)
        if dn == 'ExprMem':
            check_value(d.arg, name + '.addr', issues)
        check_value(s, name, issues)
        ws, wd = width(s), width(d)
        if ws is None:
            issues.append(('width', '%s:src' % name, 'source of %s has no determinate width' % name))
        elif ws != wd:
            if dn == 'ExprId' and wd == 1 and ws > 1:
                pending.append(('flag01', a))
            else:
                issues.append(('srcwidth', '%s:%s<-%s' % (name, wd, ws), '%s-bit source assigned to %s-bit %s' % (ws, wd, name)))
        dsts.append((i, a))
    # overlapping destinations
    for (i, a), (j, b) in [(x, y) for k, x in enumerate(dsts) for y in dsts[k + 1:]]:
        da, db = a.dst, b.dst
        if cname(da) == 'ExprId' and cname(db) == 'ExprId':
            if da.name == db.name:
                issues.append(('overlap', '%s,%s' % (dstname(da), dstname(db)), 'assignments %d and %d both write %s' % (i, j, da.name)))
        elif cname(da) == 'ExprMem' and cname(db) == 'ExprMem':
            pending.append(('memoverlap', a, b))
    return issues, pending
