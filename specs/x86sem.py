"""S-x86-sem: IA-32 semantics of the integer core as functions over z3 bit-vectors, written from the SDM pseudo-code
(not from the lifter).  apply(ins_abs, st) -> Outcome: new registers, flags (value | UNDEF | unchanged), memory, eip.

An abstract instruction is (mnemonic, operand list, opsize, adsize, next_eip, prefixes); operands are
   ('reg', n, size) general register n (size 8: 0-3 low bytes, 4-7 high bytes)       ('sreg', n)
   ('mem', base|None, index|None, scale, disp, seg, size)                                 ('imm', value, size)
Nothing here looks at miasmX's IR.
"""
import z3

UNDEF = 'undef'
GPR = ['eax', 'ecx', 'edx', 'ebx', 'esp', 'ebp', 'esi', 'edi']
SREG = ['es', 'cs', 'ss', 'ds', 'fs', 'gs']
FLAGS = ['cf', 'pf', 'af', 'zf', 'nf', 'of', 'df']      # nf is the sign flag in miasmX's naming

class Unsupported(Exception):
    pass

def bv(v, w): return z3.BitVecVal(v & ((1 << w) - 1), w)
def bit(x, i): return z3.Extract(i, i, x)
def msb(x): return bit(x, x.size() - 1)
def zx(x, w): return z3.ZeroExt(w - x.size(), x) if x.size() < w else x
def sx(x, w): return z3.SignExt(w - x.size(), x) if x.size() < w else x
def b2bv(c): return z3.If(c, bv(1, 1), bv(0, 1))
def parity(x):
    b = z3.Extract(7, 0, x)
    p = bit(b, 0)
    for i in range(1, 8): p = p ^ bit(b, i)
    return ~p

class Machine(object):
    """spec-side view of a liftvc.den.State (pre-state) + accumulated writes (post-state)"""
    def __init__(self, st):
        self.st = st
        self.regs = {}          # name -> new BV32 (gpr), BV16 (sreg), BV1 / UNDEF (flag)
        self.mem = st.mem
        self.eip = None         # ('fall',) | ('taken-direct', cond) | BV32 value
        self.assume = []        # architectural preconditions (no #DE etc.)
        self.eip_kind = None
        self.loads = []         # (address term, nbytes) read by the spec
        self.stores = []        # (address term, nbytes) written by the spec
    # ---- reads (always from the pre-state)
    def r32(self, n): return self.st.reg(GPR[n], 32)
    def flag(self, f): return self.st.reg(f, 1)
    def sreg(self, n): return self.st.reg(SREG[n], 16)
    def getreg(self, n, size):
        if size == 32: return self.r32(n)
        if size == 16: return z3.Extract(15, 0, self.r32(n))
        if size == 8:
            if n < 4: return z3.Extract(7, 0, self.r32(n))
            return z3.Extract(15, 8, self.r32(n - 4))
        raise Unsupported('reg size %s' % size)
    def setreg(self, n, size, v):
        if size == 32:
            self.regs[GPR[n]] = v
            return
        base = n if (size == 16 or n < 4) else n - 4
        cur = self.regs.get(GPR[base], self.r32(base))
        if size == 16:
            self.regs[GPR[base]] = z3.Concat(z3.Extract(31, 16, cur), v)
        elif n < 4:
            self.regs[GPR[base]] = z3.Concat(z3.Extract(31, 8, cur), v)
        else:
            self.regs[GPR[base]] = z3.Concat(z3.Extract(31, 16, cur), v, z3.Extract(7, 0, cur))
    def segbase(self, seg):
        if seg is None or SREG[seg] in ('es', 'cs', 'ss', 'ds'):
            return None
        v = self.sreg(seg)
        return self.st.uf('segbase', [16], 32)(v)
    def ea(self, op, esp_override=None):
        """offset part of a memory operand's effective address (BV32), before the segment base"""
        _, base, index, scale, disp, seg, size, adsize = op
        a = bv(disp, 32)
        if base is not None:
            a = a + (esp_override if (esp_override is not None and base == 4) else self.r32(base))
        if index is not None:
            a = a + self.r32(index) * bv(scale, 32)
        if adsize == 16:
            a = zx(z3.Extract(15, 0, a), 32)
        return a
    def linear(self, op, esp_override=None):
        a = self.ea(op, esp_override)
        sb = self.segbase(op[5])
        return a + sb if sb is not None else a
    def load(self, addr, size):
        n = size // 8
        self.loads.append((addr, n))
        bs = [z3.Select(self.st.mem, addr + bv(i, 32)) for i in range(n)]
        return bs[0] if n == 1 else z3.Concat(*reversed(bs))
    def store(self, addr, v):
        self.stores.append((addr, v.size() // 8))
        for i in range(v.size() // 8):
            self.mem = z3.Store(self.mem, addr + bv(i, 32), z3.Extract(8 * i + 7, 8 * i, v))
    def read(self, op, esp_override=None):
        k = op[0]
        if k == 'reg': return self.getreg(op[1], op[2])
        if k == 'sreg': return self.sreg(op[1])
        if k == 'imm': return bv(op[1], op[2])
        if k == 'mem': return self.load(self.linear(op, esp_override), op[6])
        raise Unsupported(k)
    def write(self, op, v, esp_override=None):
        k = op[0]
        if k == 'reg': self.setreg(op[1], op[2], v)
        elif k == 'sreg': self.regs[SREG[op[1]]] = v
        elif k == 'mem': self.store(self.linear(op, esp_override), v)
        else: raise Unsupported('write to ' + k)
    def setflags(self, **kw):
        for f, v in kw.items():
            self.regs[f] = v
    def szp(self, r):
        self.setflags(zf=b2bv(r == 0), nf=msb(r), pf=parity(r))

def opsize(op):
    if op[0] == 'reg': return op[2]
    if op[0] == 'sreg': return 16
    if op[0] == 'imm': return op[2]
    if op[0] == 'mem': return op[6]

def imm_to(op, w):
    """immediates are sign-extended to the operand width by the architecture (imm8 forms)"""
    if op[0] == 'imm' and op[2] < w:
        v = op[1] & ((1 << op[2]) - 1)
        if v >> (op[2] - 1): v -= 1 << op[2]
        return ('imm', v & ((1 << w) - 1), w)
    return op

CC = {'o': 0, 'no': 1, 'b': 2, 'c': 2, 'nae': 2, 'ae': 3, 'nb': 3, 'nc': 3, 'e': 4, 'z': 4, 'ne': 5, 'nz': 5, 'be': 6, 'na': 6, 'a': 7, 'nbe': 7,
      's': 8, 'ns': 9, 'p': 10, 'pe': 10, 'np': 11, 'po': 11, 'l': 12, 'nge': 12, 'ge': 13, 'nl': 13, 'le': 14, 'ng': 14, 'g': 15, 'nle': 15}

def cond(m, cc):
    n = CC[cc]
    cf, zf, sf, of, pf = [m.flag(f) == 1 for f in ('cf', 'zf', 'nf', 'of', 'pf')]
    base = [m.flag('of') == 1, cf, zf, z3.Or(cf, zf), sf, pf, sf != of, z3.Or(zf, sf != of)][n >> 1]
    return z3.Not(base) if n & 1 else base

def add_flags(m, a, b, r, carry_in=None, sub=False):
    w = a.size()
    if not sub:
        wide = zx(a, w + 1) + zx(b, w + 1) + (zx(carry_in, w + 1) if carry_in is not None else bv(0, w + 1))
        cf = bit(wide, w)
        of = msb((a ^ r) & (b ^ r))
    else:
        wide = zx(a, w + 1) - zx(b, w + 1) - (zx(carry_in, w + 1) if carry_in is not None else bv(0, w + 1))
        cf = bit(wide, w)
        of = msb((a ^ b) & (a ^ r))
    af = bit(a ^ b ^ r, 4) if w > 4 else UNDEF
    m.setflags(cf=cf, of=of, af=af)
    m.szp(r)

def push(m, v, opsz, esp=None):
    esp = esp if esp is not None else m.regs.get('esp', m.r32(4))
    new = esp - bv(opsz // 8, 32)
    m.store(new, v)
    m.regs['esp'] = new
    return new

def apply(ins, st):
    """ins = dict(name=, ops=[...], opsize=32|16, adsize=32|16, next_eip=int, prefix=[...])"""
    m = Machine(st)
    name, ops, osz = ins['name'], ins['ops'], ins['opsize']
    nxt = bv(ins['next_eip'], 32)
    m.eip = nxt
    m.eip_kind = 'fall'
    def O(i): return ops[i]
    # ---------------------------------------------------------------- data movement
    if name == 'mov' or name == 'movnti':
        w = opsize(O(0))
        src = O(1)
        if src[0] == 'sreg' and w == 32:
            m.write(O(0), zx(m.read(src), 32))      # upper bits are implementation specific for a 32-bit register destination
            m.assume.append(z3.BoolVal(True))
            raise Unsupported('mov r32, sreg upper half is implementation specific')
        if O(0)[0] == 'sreg' or src[0] == 'sreg':
            v = m.read(src)
            m.write(O(0), z3.Extract(15, 0, v) if v.size() > 16 else v)
        else:
            m.write(O(0), m.read(imm_to(src, w)))
    elif name == 'xchg':
        a, b = m.read(O(0)), m.read(O(1))
        m.write(O(0), b); m.write(O(1), a)
    elif name in ('movzx', 'movsx'):
        w = opsize(O(0))
        v = m.read(O(1))
        m.write(O(0), zx(v, w) if name == 'movzx' else sx(v, w))
    elif name == 'lea':
        if O(1)[0] != 'mem': raise Unsupported('lea with register source is #UD')
        a = m.ea(O(1))
        w = opsize(O(0))
        m.write(O(0), z3.Extract(w - 1, 0, a))
    elif name == 'bswap':
        v = m.read(O(0))
        if v.size() != 32: raise Unsupported('bswap r16 undefined')
        m.write(O(0), z3.Concat(z3.Extract(7, 0, v), z3.Extract(15, 8, v), z3.Extract(23, 16, v), z3.Extract(31, 24, v)))
    elif name in ('cbw', 'cwde'):
        if osz == 16: m.setreg(0, 16, sx(m.getreg(0, 8), 16))
        else: m.setreg(0, 32, sx(m.getreg(0, 16), 32))
    elif name in ('cwd', 'cdq'):
        if osz == 16: m.setreg(2, 16, z3.If(msb(m.getreg(0, 16)) == 1, bv(0xffff, 16), bv(0, 16)))
        else: m.setreg(2, 32, z3.If(msb(m.r32(0)) == 1, bv(0xffffffff, 32), bv(0, 32)))
    elif name == 'xlat':
        a = m.r32(3) + zx(m.getreg(0, 8), 32)
        m.setreg(0, 8, m.load(a, 8))
    elif name in ('setalc', 'salc'):
        m.setreg(0, 8, z3.If(m.flag('cf') == 1, bv(0xff, 8), bv(0, 8)))
    elif name == 'lahf':
        f = m.flag
        m.setreg(4, 8, z3.Concat(f('nf'), f('zf'), bv(0, 1), f('af'), bv(0, 1), f('pf'), bv(1, 1), f('cf')))
    elif name == 'sahf':
        ah = m.getreg(4, 8)
        m.setflags(cf=bit(ah, 0), pf=bit(ah, 2), af=bit(ah, 4), zf=bit(ah, 6), nf=bit(ah, 7))
    # ---------------------------------------------------------------- arithmetic / logic
    elif name in ('add', 'adc', 'sub', 'sbb', 'cmp', 'xadd'):
        w = opsize(O(0))
        a, b = m.read(O(0)), m.read(imm_to(O(1), w))
        cin = m.flag('cf') if name in ('adc', 'sbb') else None
        if name in ('add', 'adc', 'xadd'):
            r = a + b + (zx(cin, w) if cin is not None else bv(0, w))
            add_flags(m, a, b, r, cin, sub=False)
        else:
            r = a - b - (zx(cin, w) if cin is not None else bv(0, w))
            add_flags(m, a, b, r, cin, sub=True)
        if name == 'xadd':
            m.write(O(1), a)
        if name != 'cmp':
            m.write(O(0), r)
    elif name in ('inc', 'dec'):
        a = m.read(O(0)); w = a.size()
        one = bv(1, w)
        r = a + one if name == 'inc' else a - one
        cf_keep = m.flag('cf')
        add_flags(m, a, one, r, None, sub=(name == 'dec'))
        del m.regs['cf']
        m.write(O(0), r)
    elif name == 'neg':
        a = m.read(O(0)); w = a.size()
        r = -a
        add_flags(m, bv(0, w), a, r, None, sub=True)
        m.write(O(0), r)
    elif name == 'not':
        m.write(O(0), ~m.read(O(0)))
    elif name in ('and', 'or', 'xor', 'test'):
        w = opsize(O(0))
        a, b = m.read(O(0)), m.read(imm_to(O(1), w))
        r = {'and': a & b, 'test': a & b, 'or': a | b, 'xor': a ^ b}[name]
        m.setflags(cf=bv(0, 1), of=bv(0, 1), af=UNDEF)
        m.szp(r)
        if name != 'test': m.write(O(0), r)
    elif name in ('shl', 'sal', 'shr', 'sar', 'rol', 'ror', 'rcl', 'rcr'):
        a = m.read(O(0)); w = a.size()
        cnt8 = m.read(O(1)) if len(ops) > 1 else bv(1, 8)
        cnt8 = z3.Extract(7, 0, cnt8) if cnt8.size() > 8 else zx(cnt8, 8)
        c = cnt8 & bv(31, 8)                      # masked count
        cw = zx(c, w) if w >= 8 else None
        nz = c != 0
        old = dict((f, m.flag(f)) for f in ('cf', 'of', 'zf', 'nf', 'pf', 'af'))
        def keep(f, v):
            """flag f = v when the masked count is non-zero, unchanged otherwise"""
            if isinstance(v, str): return ('cond-undef', nz, old[f])
            return z3.If(nz, v, old[f])
        if name in ('shl', 'sal', 'shr', 'sar'):
            W = w + 32 + 1
            if name in ('shl', 'sal'):
                wide = zx(a, W) << zx(c, W)
                r = z3.Extract(w - 1, 0, wide)
                cf = bit(wide, w)                   # last bit shifted out (0 when count > w; architecturally undefined then)
                cf_def = z3.ULE(c, bv(w, 8))
                of1 = msb(r) ^ cf
            elif name == 'shr':
                wide = z3.LShR(z3.Concat(a, bv(0, 32)), zx(c, w + 32))
                r = z3.Extract(w + 31, 32, wide)
                cf = bit(wide, 31)
                cf_def = z3.ULE(c, bv(w, 8))
                of1 = msb(a)
            else:
                wide = z3.Concat(a, bv(0, 32)) >> zx(c, w + 32)
                r = z3.Extract(w + 31, 32, wide)
                cf = bit(wide, 31)
                cf_def = z3.BoolVal(True)
                of1 = bv(0, 1)
            m.regs['cf'] = ('cond', nz, cf_def, cf, old['cf'])
            m.regs['of'] = ('cond', nz, c == 1, of1, old['of'])
            for f, v in (('zf', b2bv(r == 0)), ('nf', msb(r)), ('pf', parity(r))):
                m.regs[f] = z3.If(nz, v, old[f])
            m.regs['af'] = ('cond', nz, z3.BoolVal(False), bv(0, 1), old['af'])
            m.write(O(0), z3.If(nz, r, a))
        elif name in ('rol', 'ror'):
            cm = z3.URem(zx(c, max(w, 8)), bv(w, max(w, 8)))
            cm = z3.Extract(w - 1, 0, cm) if cm.size() > w else zx(cm, w)
            r = z3.RotateLeft(a, cm) if name == 'rol' else z3.RotateRight(a, cm)
            if name == 'rol':
                cf = bit(r, 0); of1 = msb(r) ^ cf
            else:
                cf = msb(r); of1 = msb(r) ^ bit(r, w - 2)
            m.regs['cf'] = z3.If(nz, cf, old['cf'])
            m.regs['of'] = ('cond', nz, c == 1, of1, old['of'])
            m.write(O(0), r)
        else:
            big = z3.Concat(m.flag('cf'), a)
            W = w + 1
            cm = z3.URem(zx(c, max(W, 8)), bv(W, max(W, 8)))
            cm = z3.Extract(W - 1, 0, cm) if cm.size() > W else zx(cm, W)
            rr = z3.RotateLeft(big, cm) if name == 'rcl' else z3.RotateRight(big, cm)
            r = z3.Extract(w - 1, 0, rr)
            cf = bit(rr, w)
            of1 = (msb(r) ^ cf) if name == 'rcl' else (msb(r) ^ bit(r, w - 2))
            m.regs['cf'] = z3.If(nz, cf, old['cf'])
            m.regs['of'] = ('cond', nz, c == 1, of1, old['of'])
            m.write(O(0), r)
    elif name in ('shld', 'shrd'):
        a, b = m.read(O(0)), m.read(O(1)); w = a.size()
        cnt8 = m.read(O(2)) if len(ops) > 2 else m.getreg(1, 8)
        cnt8 = z3.Extract(7, 0, cnt8) if cnt8.size() > 8 else zx(cnt8, 8)
        c = cnt8 & bv(31, 8)
        nz = c != 0
        defined = z3.ULE(c, bv(w, 8))
        old = dict((f, m.flag(f)) for f in ('cf', 'of', 'zf', 'nf', 'pf', 'af'))
        if name == 'shld':
            wide = z3.Concat(a, b) << zx(c, 2 * w)
            r = z3.Extract(2 * w - 1, w, wide)
            wide2 = zx(a, 2 * w) << zx(c, 2 * w)
            cf = bit(wide2, w)
        else:
            wide = z3.LShR(z3.Concat(b, a), zx(c, 2 * w))
            r = z3.Extract(w - 1, 0, wide)
            wide2 = z3.LShR(z3.Concat(a, bv(0, w)), zx(c, 2 * w))
            cf = bit(wide2, w - 1)
        of1 = msb(a) ^ msb(r)
        m.regs['cf'] = ('cond', nz, defined, cf, old['cf'])
        m.regs['of'] = ('cond', nz, c == 1, of1, old['of'])
        for f, v in (('zf', b2bv(r == 0)), ('nf', msb(r)), ('pf', parity(r))):
            m.regs[f] = ('cond', nz, defined, v, old[f])
        m.regs['af'] = ('cond', nz, z3.BoolVal(False), bv(0, 1), old['af'])
        m.regs['__dst_defined'] = z3.Or(z3.Not(nz), defined)
        m.write(O(0), z3.If(nz, r, a))
    elif name == 'mul':
        s = m.read(O(0)); w = s.size()
        acc = m.getreg(0, w)
        p = zx(acc, 2 * w) * zx(s, 2 * w)
        hi, lo = z3.Extract(2 * w - 1, w, p), z3.Extract(w - 1, 0, p)
        if w == 8: m.setreg(0, 16, p)
        else:
            m.setreg(0, w, lo); m.setreg(2, w, hi)
        c = b2bv(hi != 0)
        m.setflags(cf=c, of=c, zf=UNDEF, nf=UNDEF, pf=UNDEF, af=UNDEF)
    elif name == 'imul':
        if len(ops) == 1:
            s = m.read(O(0)); w = s.size()
            acc = m.getreg(0, w)
            p = sx(acc, 2 * w) * sx(s, 2 * w)
            hi, lo = z3.Extract(2 * w - 1, w, p), z3.Extract(w - 1, 0, p)
            if w == 8: m.setreg(0, 16, p)
            else:
                m.setreg(0, w, lo); m.setreg(2, w, hi)
            c = b2bv(sx(lo, 2 * w) != p)
        else:
            w = opsize(O(0))
            a = m.read(O(1)) if len(ops) == 3 else m.read(O(0))
            b = m.read(imm_to(O(2), w)) if len(ops) == 3 else m.read(imm_to(O(1), w))
            p = sx(a, 2 * w) * sx(b, 2 * w)
            lo = z3.Extract(w - 1, 0, p)
            m.write(O(0), lo)
            c = b2bv(sx(lo, 2 * w) != p)
        m.setflags(cf=c, of=c, zf=UNDEF, nf=UNDEF, pf=UNDEF, af=UNDEF)
    elif name in ('div', 'idiv'):
        d = m.read(O(0)); w = d.size()
        if w == 8: big = m.getreg(0, 16)
        else: big = z3.Concat(m.getreg(2, w), m.getreg(0, w))
        if name == 'div':
            dd = zx(d, 2 * w)
            q, r = z3.UDiv(big, dd), z3.URem(big, dd)
            ok = z3.And(d != 0, z3.Extract(2 * w - 1, w, q) == 0)
        else:
            dd = sx(d, 2 * w)
            q, r = big / dd, z3.SRem(big, dd)
            ok = z3.And(d != 0, sx(z3.Extract(w - 1, 0, q), 2 * w) == q)
        m.assume.append(ok)         # #DE otherwise: outside the comparison
        if w == 8:
            m.setreg(0, 16, z3.Concat(z3.Extract(7, 0, r), z3.Extract(7, 0, q)))
        else:
            m.setreg(0, w, z3.Extract(w - 1, 0, q)); m.setreg(2, w, z3.Extract(w - 1, 0, r))
        m.setflags(cf=UNDEF, of=UNDEF, zf=UNDEF, nf=UNDEF, pf=UNDEF, af=UNDEF)
    elif name in ('bt', 'bts', 'btr', 'btc'):
        base, off = O(0), O(1)
        w = opsize(base)
        if base[0] == 'reg':
            v = m.read(base)
            idx = m.read(off)
            idx = z3.URem(zx(z3.Extract(min(idx.size(), w) - 1, 0, idx), w), bv(w, w)) if idx.size() >= 1 else idx
            sel = z3.LShR(v, idx)
            cfv = bit(sel, 0)
            mask = bv(1, w) << idx
            addr = None
        else:
            if off[0] == 'imm':
                idx = bv(off[1] % w, w)
                addr = m.linear(base)
            else:
                o = m.read(off)                       # signed bit offset
                idx = z3.URem(o, bv(w, w)) if False else (o & bv(w - 1, w))
                addr = m.linear(base) + sx((o >> bv({16: 4, 32: 5}[w], w)), 32) * bv(w // 8, 32)
            v = m.load(addr, w)
            cfv = bit(z3.LShR(v, idx), 0)
            mask = bv(1, w) << idx
        m.setflags(cf=cfv, of=UNDEF, nf=UNDEF, af=UNDEF, pf=UNDEF)
        if name != 'bt':
            nv = {'bts': v | mask, 'btr': v & ~mask, 'btc': v ^ mask}[name]
            if addr is None: m.write(base, nv)
            else: m.store(addr, nv)
    elif name in ('bsf', 'bsr'):
        s = m.read(O(1)); w = s.size()
        r = st.uf('spec_' + name + '_zero', [w], w)(s)
        rng = range(w - 1, -1, -1) if name == 'bsf' else range(w)
        for i in rng:
            r = z3.If(bit(s, i) == 1, bv(i, w), r)
        m.regs['__dst_defined'] = s != 0
        m.write(O(0), r)
        m.setflags(zf=b2bv(s == 0), cf=UNDEF, of=UNDEF, nf=UNDEF, af=UNDEF, pf=UNDEF)
    # ---------------------------------------------------------------- flags
    elif name == 'clc': m.setflags(cf=bv(0, 1))
    elif name == 'stc': m.setflags(cf=bv(1, 1))
    elif name == 'cmc': m.setflags(cf=~m.flag('cf'))
    elif name == 'cld': m.setflags(df=bv(0, 1))
    elif name == 'std': m.setflags(df=bv(1, 1))
    elif name.startswith('set') and name[3:] in CC:
        m.write(O(0), z3.If(cond(m, name[3:]), bv(1, 8), bv(0, 8)))
    elif name.startswith('cmov') and name[4:] in CC:
        w = opsize(O(0))
        m.write(O(0), z3.If(cond(m, name[4:]), m.read(O(1)), m.read(O(0))))
    # ---------------------------------------------------------------- stack
    elif name == 'push':
        src = O(0)
        if src[0] == 'sreg':
            v = zx(m.read(src), osz) if osz == 32 else m.read(src)
            if osz == 32:
                raise Unsupported('push sreg: upper half of the slot is implementation specific')
        else:
            w = osz if src[0] == 'imm' else opsize(src)
            v = m.read(imm_to(src, w))
        push(m, v, v.size(), m.r32(4))
    elif name == 'pop':
        dst = O(0)
        w = osz if dst[0] == 'sreg' else opsize(dst)
        esp = m.r32(4)
        v = m.load(esp, w)
        new = esp + bv(w // 8, 32)
        m.regs['esp'] = new
        if dst[0] == 'sreg':
            m.write(dst, z3.Extract(15, 0, v))
        else:
            m.write(dst, v, esp_override=new)     # a memory destination based on esp uses the incremented esp; pop esp overrides
    elif name in ('pushfd', 'pushfw', 'pushf'):
        f = m.flag
        def x(n, w=1): return st.reg(n, w)
        low = z3.Concat(bv(0, 1), x('nt'), x('iopl_f', 2), f('of'), f('df'), x('i_f'), x('tf'), f('nf'), f('zf'), bv(0, 1), f('af'), bv(0, 1), f('pf'), bv(1, 1), f('cf'))
        if name == 'pushfd' and osz == 32:
            v = z3.Concat(bv(0, 10), x('i_d'), x('vip'), x('vif'), x('ac'), bv(0, 1), bv(0, 1), low)   # VM and RF are cleared in the pushed image
            m.regs['__pushfd_mask'] = True
        else:
            v = low
        push(m, v, v.size(), m.r32(4))
    elif name in ('popfd', 'popfw', 'popf'):
        w = 32 if (name == 'popfd' and osz == 32) else 16
        esp = m.r32(4)
        v = m.load(esp, w)
        m.regs['esp'] = esp + bv(w // 8, 32)
        m.setflags(cf=bit(v, 0), pf=bit(v, 2), af=bit(v, 4), zf=bit(v, 6), nf=bit(v, 7), df=bit(v, 10), of=bit(v, 11))
    elif name in ('pushad', 'pusha', 'pushaw'):
        esp = m.r32(4)
        cur = esp
        for n in range(8):
            v = m.getreg(n, osz)
            cur = cur - bv(osz // 8, 32)
            m.store(cur, v)
        m.regs['esp'] = cur
    elif name in ('popad', 'popa', 'popaw'):
        esp = m.r32(4)
        cur = esp
        for n in range(7, -1, -1):
            if n != 4:                          # the slot of (e)sp is skipped, not loaded (SDM: "skip next 4 bytes of stack")
                v = m.load(cur, osz)
                m.setreg(n, osz, v)
            cur = cur + bv(osz // 8, 32)
        m.regs['esp'] = cur
    elif name == 'leave':
        ebp = m.r32(5)
        v = m.load(ebp, osz)
        m.regs['esp'] = ebp + bv(osz // 8, 32)
        m.setreg(5, osz, v)
    elif name == 'enter':
        if O(1)[1] != 0: raise Unsupported('enter with nesting level')
        esp = m.r32(4)
        new = esp - bv(osz // 8, 32)
        m.store(new, m.getreg(5, osz))
        m.setreg(5, osz, z3.Extract(osz - 1, 0, new))
        m.regs['esp'] = new - bv(O(0)[1] & 0xffff, 32)
    # ---------------------------------------------------------------- control transfer
    elif name == 'jmp':
        t = O(0)
        if t[0] == 'imm': m.eip_kind = 'taken-direct'; m.eip = z3.BoolVal(True)
        else:
            v = m.read(t)
            m.eip = zx(v, 32); m.eip_kind = 'indirect'
    elif name == 'call':
        t = O(0)
        tgt = None if t[0] == 'imm' else zx(m.read(t), 32)
        push(m, nxt if osz == 32 else z3.Extract(15, 0, nxt), osz, m.r32(4))
        if tgt is None: m.eip_kind = 'taken-direct'; m.eip = z3.BoolVal(True)
        else: m.eip = tgt; m.eip_kind = 'indirect'
    elif name == 'ret':
        esp = m.r32(4)
        v = m.load(esp, osz)
        extra = bv(O(0)[1] & 0xffff, 32) if ops else bv(0, 32)
        m.regs['esp'] = esp + bv(osz // 8, 32) + extra
        m.eip = zx(v, 32); m.eip_kind = 'indirect'
    elif name.startswith('j') and name[1:] in CC:
        m.eip_kind = 'taken-direct'; m.eip = cond(m, name[1:])
    elif name in ('jecxz', 'jcxz'):
        m.eip_kind = 'taken-direct'
        m.eip = (m.r32(1) == 0) if ins['adsize'] == 32 else (m.getreg(1, 16) == 0)
    elif name in ('loop', 'loope', 'loopz', 'loopne', 'loopnz'):
        if ins['adsize'] != 32: raise Unsupported('16-bit loop')
        c = m.r32(1) - bv(1, 32)
        m.regs['ecx'] = c
        t = c != 0
        if name in ('loope', 'loopz'): t = z3.And(t, m.flag('zf') == 1)
        if name in ('loopne', 'loopnz'): t = z3.And(t, m.flag('zf') == 0)
        m.eip_kind = 'taken-direct'; m.eip = t
    # ---------------------------------------------------------------- strings (one step)
    elif name[:4] in ('movs', 'stos', 'lods', 'cmps', 'scas') and name[4:] in ('b', 'w', 'd'):
        w = {'b': 8, 'w': 16, 'd': 32}[name[4]]
        if ins['adsize'] != 32: raise Unsupported('16-bit string addressing')
        step = z3.If(m.flag('df') == 1, bv(-(w // 8), 32), bv(w // 8, 32))
        esi, edi = m.r32(6), m.r32(7)
        seg = ins.get('seg')
        srcaddr = esi + (m.segbase(seg) if (seg is not None and m.segbase(seg) is not None) else bv(0, 32))
        k = name[:4]
        if k == 'movs':
            m.store(edi, m.load(srcaddr, w)); m.regs['esi'] = esi + step; m.regs['edi'] = edi + step
        elif k == 'stos':
            m.store(edi, m.getreg(0, w)); m.regs['edi'] = edi + step
        elif k == 'lods':
            m.setreg(0, w, m.load(srcaddr, w)); m.regs['esi'] = esi + step
        elif k == 'cmps':
            a, b = m.load(srcaddr, w), m.load(edi, w)
            add_flags(m, a, b, a - b, None, sub=True)
            m.regs['esi'] = esi + step; m.regs['edi'] = edi + step
        elif k == 'scas':
            a, b = m.getreg(0, w), m.load(edi, w)
            add_flags(m, a, b, a - b, None, sub=True)
            m.regs['edi'] = edi + step
    elif name == 'cmpxchg':
        d, s = m.read(O(0)), m.read(O(1)); w = d.size()
        acc = m.getreg(0, w)
        add_flags(m, acc, d, acc - d, None, sub=True)
        eq = acc == d
        m.setreg(0, w, z3.If(eq, acc, d))
        m.write(O(0), z3.If(eq, s, d))        # the destination write wins when the destination is the accumulator itself
    elif name in ('nop', 'pause', 'sfence', 'lfence', 'mfence', 'wait', 'fwait', 'endbr32', 'endbr64'):
        pass
    else:
        raise Unsupported('no spec for %s' % name)
    return m
