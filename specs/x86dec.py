"""S-x86-dec: IA-32 (32-bit protected mode) instruction decoding as data + function, written from the SDM opcode maps
(Appendix A notation) and tables 2-1..2-3 (ModRM/SIB).  Covers: the complete one-byte map, the integer/system part of the
two-byte 0F map, the x87 escape map.  MMX/SSE/3-byte maps are NOT covered: decode() returns None for them and such strings are
outside the compared domain.

decode(bytes) -> None | dict(length, mnem, ops, opsize, adsize, prefixes, seg, lock, rep)
operands:  ('reg', n, size) ('sreg', n) ('creg', n) ('dreg', n) ('st', n) ('imm', value, size) ('rel', value, size)
           ('mem', base|None, index|None, scale, disp, seg|None, size_bits|None, adsize) ('far', seg16, off, size)  ('moffs' is a mem with disp only)
"""

GRP1 = ['add', 'or', 'adc', 'sbb', 'and', 'sub', 'xor', 'cmp']
GRP2 = ['rol', 'ror', 'rcl', 'rcr', 'shl', 'shr', 'sal', 'sar']
CC = ['o', 'no', 'b', 'ae', 'e', 'ne', 'be', 'a', 's', 'ns', 'p', 'np', 'l', 'ge', 'le', 'g']
SEGPFX = {0x26: 0, 0x2E: 1, 0x36: 2, 0x3E: 3, 0x64: 4, 0x65: 5}

ONE = {}
def _o(op, mnem, *tpl):
    ONE[op] = (mnem, tpl)
for i, n in enumerate(GRP1):
    b = i * 8
    _o(b, n, 'Eb', 'Gb'); _o(b + 1, n, 'Ev', 'Gv'); _o(b + 2, n, 'Gb', 'Eb'); _o(b + 3, n, 'Gv', 'Ev'); _o(b + 4, n, 'AL', 'Ib'); _o(b + 5, n, 'eAX', 'Iz')
for op, m, t in [(0x06, 'push', 'ES'), (0x07, 'pop', 'ES'), (0x0E, 'push', 'CS'), (0x16, 'push', 'SS'), (0x17, 'pop', 'SS'), (0x1E, 'push', 'DS'), (0x1F, 'pop', 'DS')]:
    _o(op, m, t)
_o(0x27, 'daa'); _o(0x2F, 'das'); _o(0x37, 'aaa'); _o(0x3F, 'aas')
for r in range(8):
    _o(0x40 + r, 'inc', 'Zv'); _o(0x48 + r, 'dec', 'Zv'); _o(0x50 + r, 'push', 'Zv'); _o(0x58 + r, 'pop', 'Zv')
    _o(0xB0 + r, 'mov', 'Zb', 'Ib'); _o(0xB8 + r, 'mov', 'Zv', 'Iv')
    if r: _o(0x90 + r, 'xchg', 'eAX', 'Zv')
_o(0x60, 'pusha'); _o(0x61, 'popa'); _o(0x62, 'bound', 'Gv', 'Ma'); _o(0x63, 'arpl', 'Ew', 'Gw')
_o(0x68, 'push', 'Iz'); _o(0x69, 'imul', 'Gv', 'Ev', 'Iz'); _o(0x6A, 'push', 'Ibs'); _o(0x6B, 'imul', 'Gv', 'Ev', 'Ibs')
_o(0x6C, 'insb'); _o(0x6D, 'insv'); _o(0x6E, 'outsb'); _o(0x6F, 'outsv')
for i, c in enumerate(CC):
    _o(0x70 + i, 'j' + c, 'Jb')
_o(0x84, 'test', 'Eb', 'Gb'); _o(0x85, 'test', 'Ev', 'Gv'); _o(0x86, 'xchg', 'Eb', 'Gb'); _o(0x87, 'xchg', 'Ev', 'Gv')
_o(0x88, 'mov', 'Eb', 'Gb'); _o(0x89, 'mov', 'Ev', 'Gv'); _o(0x8A, 'mov', 'Gb', 'Eb'); _o(0x8B, 'mov', 'Gv', 'Ev')
_o(0x8C, 'mov', 'Evw', 'Sw'); _o(0x8D, 'lea', 'Gv', 'M'); _o(0x8E, 'mov', 'Sw', 'Ew')
_o(0x90, 'nop'); _o(0x98, 'cbw'); _o(0x99, 'cwd'); _o(0x9A, 'callf', 'Ap'); _o(0x9B, 'wait'); _o(0x9C, 'pushf'); _o(0x9D, 'popf'); _o(0x9E, 'sahf'); _o(0x9F, 'lahf')
_o(0xA0, 'mov', 'AL', 'Ob'); _o(0xA1, 'mov', 'eAX', 'Ov'); _o(0xA2, 'mov', 'Ob', 'AL'); _o(0xA3, 'mov', 'Ov', 'eAX')
_o(0xA4, 'movsb'); _o(0xA5, 'movsv'); _o(0xA6, 'cmpsb'); _o(0xA7, 'cmpsv'); _o(0xA8, 'test', 'AL', 'Ib'); _o(0xA9, 'test', 'eAX', 'Iz')
_o(0xAA, 'stosb'); _o(0xAB, 'stosv'); _o(0xAC, 'lodsb'); _o(0xAD, 'lodsv'); _o(0xAE, 'scasb'); _o(0xAF, 'scasv')
_o(0xC2, 'ret', 'Iw'); _o(0xC3, 'ret'); _o(0xC4, 'les', 'Gv', 'Mp'); _o(0xC5, 'lds', 'Gv', 'Mp'); _o(0xC8, 'enter', 'Iw', 'Ib'); _o(0xC9, 'leave')
_o(0xCA, 'retf', 'Iw'); _o(0xCB, 'retf'); _o(0xCC, 'int3'); _o(0xCD, 'int', 'Ib'); _o(0xCE, 'into'); _o(0xCF, 'iret')
_o(0xD4, 'aam', 'Ib'); _o(0xD5, 'aad', 'Ib'); _o(0xD6, 'salc'); _o(0xD7, 'xlat')
_o(0xE0, 'loopne', 'Jb'); _o(0xE1, 'loope', 'Jb'); _o(0xE2, 'loop', 'Jb'); _o(0xE3, 'jecxz', 'Jb')
_o(0xE4, 'in', 'AL', 'Ib'); _o(0xE5, 'in', 'eAX', 'Ib'); _o(0xE6, 'out', 'Ib', 'AL'); _o(0xE7, 'out', 'Ib', 'eAX')
_o(0xE8, 'call', 'Jz'); _o(0xE9, 'jmp', 'Jz'); _o(0xEA, 'jmpf', 'Ap'); _o(0xEB, 'jmp', 'Jb')
_o(0xEC, 'in', 'AL', 'DX'); _o(0xED, 'in', 'eAX', 'DX'); _o(0xEE, 'out', 'DX', 'AL'); _o(0xEF, 'out', 'DX', 'eAX')
_o(0xF1, 'int1'); _o(0xF4, 'hlt'); _o(0xF5, 'cmc'); _o(0xF8, 'clc'); _o(0xF9, 'stc'); _o(0xFA, 'cli'); _o(0xFB, 'sti'); _o(0xFC, 'cld'); _o(0xFD, 'std')

# opcodes with a /digit group: opcode -> [ (mnem, templates) | None ] * 8
GROUPS = {
    0x80: [(n, ('Eb', 'Ib')) for n in GRP1], 0x81: [(n, ('Ev', 'Iz')) for n in GRP1], 0x82: [(n, ('Eb', 'Ib')) for n in GRP1], 0x83: [(n, ('Ev', 'Ibs')) for n in GRP1],
    0x8F: [('pop', ('Ev',))] + [None] * 7,
    0xC0: [(n, ('Eb', 'Ib')) for n in GRP2], 0xC1: [(n, ('Ev', 'Ib')) for n in GRP2],
    0xD0: [(n, ('Eb', '1')) for n in GRP2], 0xD1: [(n, ('Ev', '1')) for n in GRP2], 0xD2: [(n, ('Eb', 'CL')) for n in GRP2], 0xD3: [(n, ('Ev', 'CL')) for n in GRP2],
    0xC6: [('mov', ('Eb', 'Ib'))] + [None] * 7, 0xC7: [('mov', ('Ev', 'Iz'))] + [None] * 7,
    0xF6: [('test', ('Eb', 'Ib')), ('test', ('Eb', 'Ib')), ('not', ('Eb',)), ('neg', ('Eb',)), ('mul', ('Eb',)), ('imul', ('Eb',)), ('div', ('Eb',)), ('idiv', ('Eb',))],
    0xF7: [('test', ('Ev', 'Iz')), ('test', ('Ev', 'Iz')), ('not', ('Ev',)), ('neg', ('Ev',)), ('mul', ('Ev',)), ('imul', ('Ev',)), ('div', ('Ev',)), ('idiv', ('Ev',))],
    0xFE: [('inc', ('Eb',)), ('dec', ('Eb',))] + [None] * 6,
    0xFF: [('inc', ('Ev',)), ('dec', ('Ev',)), ('call', ('Ev',)), ('callf', ('Mp',)), ('jmp', ('Ev',)), ('jmpf', ('Mp',)), ('push', ('Ev',)), None],
}

TWO = {}
def _t(op, mnem, *tpl):
    TWO[op] = (mnem, tpl)
_t(0x02, 'lar', 'Gv', 'Ew'); _t(0x03, 'lsl', 'Gv', 'Ew'); _t(0x06, 'clts'); _t(0x08, 'invd'); _t(0x09, 'wbinvd'); _t(0x0B, 'ud2')
_t(0x20, 'mov', 'Rd', 'Cd'); _t(0x21, 'mov', 'Rd', 'Dd'); _t(0x22, 'mov', 'Cd', 'Rd'); _t(0x23, 'mov', 'Dd', 'Rd')
_t(0x30, 'wrmsr'); _t(0x31, 'rdtsc'); _t(0x32, 'rdmsr'); _t(0x33, 'rdpmc'); _t(0x34, 'sysenter'); _t(0x35, 'sysexit')
for i, c in enumerate(CC):
    _t(0x40 + i, 'cmov' + c, 'Gv', 'Ev'); _t(0x80 + i, 'j' + c, 'Jz'); _t(0x90 + i, 'set' + c, 'Eb')
_t(0xA0, 'push', 'FS'); _t(0xA1, 'pop', 'FS'); _t(0xA2, 'cpuid'); _t(0xA3, 'bt', 'Ev', 'Gv'); _t(0xA4, 'shld', 'Ev', 'Gv', 'Ib'); _t(0xA5, 'shld', 'Ev', 'Gv', 'CL')
_t(0xA8, 'push', 'GS'); _t(0xA9, 'pop', 'GS'); _t(0xAA, 'rsm'); _t(0xAB, 'bts', 'Ev', 'Gv'); _t(0xAC, 'shrd', 'Ev', 'Gv', 'Ib'); _t(0xAD, 'shrd', 'Ev', 'Gv', 'CL')
_t(0xAF, 'imul', 'Gv', 'Ev'); _t(0xB0, 'cmpxchg', 'Eb', 'Gb'); _t(0xB1, 'cmpxchg', 'Ev', 'Gv'); _t(0xB2, 'lss', 'Gv', 'Mp'); _t(0xB3, 'btr', 'Ev', 'Gv')
_t(0xB4, 'lfs', 'Gv', 'Mp'); _t(0xB5, 'lgs', 'Gv', 'Mp'); _t(0xB6, 'movzx', 'Gv', 'Eb'); _t(0xB7, 'movzx', 'Gv', 'Ew'); _t(0xBB, 'btc', 'Ev', 'Gv')
_t(0xBC, 'bsf', 'Gv', 'Ev'); _t(0xBD, 'bsr', 'Gv', 'Ev'); _t(0xBE, 'movsx', 'Gv', 'Eb'); _t(0xBF, 'movsx', 'Gv', 'Ew'); _t(0xC0, 'xadd', 'Eb', 'Gb'); _t(0xC1, 'xadd', 'Ev', 'Gv')
for r in range(8):
    _t(0xC8 + r, 'bswap', 'Zd')
GROUPS2 = {
    0x00: [('sldt', ('Evw',)), ('str', ('Evw',)), ('lldt', ('Ew',)), ('ltr', ('Ew',)), ('verr', ('Ew',)), ('verw', ('Ew',)), None, None],
    0x01: [('sgdt', ('Ms',)), ('sidt', ('Ms',)), ('lgdt', ('Ms',)), ('lidt', ('Ms',)), ('smsw', ('Evw',)), None, ('lmsw', ('Ew',)), ('invlpg', ('M',))],
    0xBA: [None, None, None, None, ('bt', ('Ev', 'Ib')), ('bts', ('Ev', 'Ib')), ('btr', ('Ev', 'Ib')), ('btc', ('Ev', 'Ib'))],
    0xC7: [None, ('cmpxchg8b', ('Mq',)), None, None, None, None, None, None],
    0x1F: [('nop', ('Ev',))] + [None] * 7,
}

# x87: memory forms [escape][reg] -> (mnem, memsize bits or None), register forms [escape][modrm] -> (mnem, operand pattern)
FA = ['fadd', 'fmul', 'fcom', 'fcomp', 'fsub', 'fsubr', 'fdiv', 'fdivr']
FI = ['fiadd', 'fimul', 'ficom', 'ficomp', 'fisub', 'fisubr', 'fidiv', 'fidivr']
X87M = {
    0xD8: [(n, 32) for n in FA],
    0xD9: [('fld', 32), None, ('fst', 32), ('fstp', 32), ('fldenv', None), ('fldcw', 16), ('fnstenv', None), ('fnstcw', 16)],
    0xDA: [(n, 32) for n in FI],
    0xDB: [('fild', 32), ('fisttp', 32), ('fist', 32), ('fistp', 32), None, ('fld', 80), None, ('fstp', 80)],
    0xDC: [(n, 64) for n in FA],
    0xDD: [('fld', 64), ('fisttp', 64), ('fst', 64), ('fstp', 64), ('frstor', None), None, ('fnsave', None), ('fnstsw', 16)],
    0xDE: [(n, 16) for n in FI],
    0xDF: [('fild', 16), ('fisttp', 16), ('fist', 16), ('fistp', 16), ('fbld', 80), ('fild', 64), ('fbstp', 80), ('fistp', 64)],
}
X87R = {}
def _f(esc, lo, mnem, pat, n=8):
    for i in range(n):
        X87R[(esc, lo + i)] = (mnem, pat, i)
for i, n in enumerate(FA):
    _f(0xD8, 0xC0 + 8 * i, n, 'sti' if n in ('fcom', 'fcomp') else 'st0,sti')
_f(0xD9, 0xC0, 'fld', 'sti'); _f(0xD9, 0xC8, 'fxch', 'sti')
for b, n in [(0xD0, 'fnop'), (0xE0, 'fchs'), (0xE1, 'fabs'), (0xE4, 'ftst'), (0xE5, 'fxam'), (0xE8, 'fld1'), (0xE9, 'fldl2t'), (0xEA, 'fldl2e'), (0xEB, 'fldpi'), (0xEC, 'fldlg2'),
             (0xED, 'fldln2'), (0xEE, 'fldz'), (0xF0, 'f2xm1'), (0xF1, 'fyl2x'), (0xF2, 'fptan'), (0xF3, 'fpatan'), (0xF4, 'fxtract'), (0xF5, 'fprem1'), (0xF6, 'fdecstp'),
             (0xF7, 'fincstp'), (0xF8, 'fprem'), (0xF9, 'fyl2xp1'), (0xFA, 'fsqrt'), (0xFB, 'fsincos'), (0xFC, 'frndint'), (0xFD, 'fscale'), (0xFE, 'fsin'), (0xFF, 'fcos')]:
    _f(0xD9, b, n, '', 1)
_f(0xDA, 0xC0, 'fcmovb', 'st0,sti'); _f(0xDA, 0xC8, 'fcmove', 'st0,sti'); _f(0xDA, 0xD0, 'fcmovbe', 'st0,sti'); _f(0xDA, 0xD8, 'fcmovu', 'st0,sti'); _f(0xDA, 0xE9, 'fucompp', '', 1)
_f(0xDB, 0xC0, 'fcmovnb', 'st0,sti'); _f(0xDB, 0xC8, 'fcmovne', 'st0,sti'); _f(0xDB, 0xD0, 'fcmovnbe', 'st0,sti'); _f(0xDB, 0xD8, 'fcmovnu', 'st0,sti')
_f(0xDB, 0xE2, 'fnclex', '', 1); _f(0xDB, 0xE3, 'fninit', '', 1); _f(0xDB, 0xE8, 'fucomi', 'st0,sti'); _f(0xDB, 0xF0, 'fcomi', 'st0,sti')
_f(0xDC, 0xC0, 'fadd', 'sti,st0'); _f(0xDC, 0xC8, 'fmul', 'sti,st0'); _f(0xDC, 0xE0, 'fsubr', 'sti,st0'); _f(0xDC, 0xE8, 'fsub', 'sti,st0'); _f(0xDC, 0xF0, 'fdivr', 'sti,st0'); _f(0xDC, 0xF8, 'fdiv', 'sti,st0')
_f(0xDD, 0xC0, 'ffree', 'sti'); _f(0xDD, 0xD0, 'fst', 'sti'); _f(0xDD, 0xD8, 'fstp', 'sti'); _f(0xDD, 0xE0, 'fucom', 'sti'); _f(0xDD, 0xE8, 'fucomp', 'sti')
_f(0xDE, 0xC0, 'faddp', 'sti,st0'); _f(0xDE, 0xC8, 'fmulp', 'sti,st0'); _f(0xDE, 0xD9, 'fcompp', '', 1); _f(0xDE, 0xE0, 'fsubrp', 'sti,st0'); _f(0xDE, 0xE8, 'fsubp', 'sti,st0')
_f(0xDE, 0xF0, 'fdivrp', 'sti,st0'); _f(0xDE, 0xF8, 'fdivp', 'sti,st0')
_f(0xDF, 0xE0, 'fnstsw', 'ax', 1); _f(0xDF, 0xE8, 'fucomip', 'st0,sti'); _f(0xDF, 0xF0, 'fcomip', 'st0,sti')

class Need(Exception):
    pass

class Rd(object):
    def __init__(self, bs, pos=0):
        self.bs, self.pos = bs, pos
    def u8(self):
        if self.pos >= len(self.bs): raise Need()
        v = self.bs[self.pos]; self.pos += 1
        return v
    def le(self, n, signed=False):
        if self.pos + n > len(self.bs): raise Need()
        v = int.from_bytes(self.bs[self.pos:self.pos + n], 'little', signed=signed)
        self.pos += n
        return v

def modrm_mem(rd, modrm, adsize, seg):
    """memory operand of a ModRM byte (mod != 3) -> (base, index, scale, disp, default seg is left to the caller)"""
    mod, rm = modrm >> 6, modrm & 7
    if adsize == 32:
        base = index = None; scale = 1; disp = 0
        if rm == 4:
            sib = rd.u8()
            ss, idx, b = sib >> 6, (sib >> 3) & 7, sib & 7
            if idx != 4:
                index, scale = idx, 1 << ss
            if b == 5 and mod == 0:
                disp = rd.le(4)
            else:
                base = b
        elif rm == 5 and mod == 0:
            disp = rd.le(4)
        else:
            base = rm
        if mod == 1: disp = rd.le(1, True) & 0xffffffff
        elif mod == 2: disp = rd.le(4)
        return base, index, scale, disp
    # 16-bit addressing (table 2-1): registers are reported by their 32-bit number, the effective address is taken mod 2^16
    T = [(3, 6), (3, 7), (5, 6), (5, 7), (6, None), (7, None), (5, None), (3, None)]
    base, index = T[rm]
    disp = 0
    if mod == 0 and rm == 6:
        base = None
        disp = rd.le(2)
    elif mod == 1: disp = rd.le(1, True) & 0xffff
    elif mod == 2: disp = rd.le(2)
    return base, index, 1, disp

def decode(bs, mode=32):
    try:
        return _decode(bytes(bs), mode)
    except Need:
        return None

def _decode(bs, mode):
    rd = Rd(bs)
    prefixes = []
    seg = None
    opsize = adsize = mode
    lock = False
    rep = None
    while True:
        b = rd.u8()
        if b in SEGPFX: seg = SEGPFX[b]
        elif b == 0x66: opsize = 16 if mode == 32 else 32
        elif b == 0x67: adsize = 16 if mode == 32 else 32
        elif b == 0xF0: lock = True
        elif b in (0xF2, 0xF3): rep = b
        else: break
        prefixes.append(b)
        if len(prefixes) > 14: return None
    op = b
    modrm = None
    ent = None
    two = False
    if op == 0x0F:
        op = rd.u8()
        two = True
        if op in GROUPS2:
            modrm = rd.u8()
            ent = GROUPS2[op][(modrm >> 3) & 7]
        else:
            ent = TWO.get(op)
    elif 0xD8 <= op <= 0xDF:
        modrm = rd.u8()
        if modrm < 0xC0:
            e = X87M[op][(modrm >> 3) & 7]
            if e is None: return None
            base, index, scale, disp = modrm_mem(rd, modrm, adsize, seg)
            return dict(length=rd.pos, mnem=e[0], ops=[('mem', base, index, scale, disp, seg, e[1], adsize)], opsize=opsize, adsize=adsize, prefixes=prefixes, seg=seg, lock=lock, rep=rep)
        e = X87R.get((op, modrm))
        if e is None: return None
        mnem, pat, i = e
        ops = {'': [], 'sti': [('st', i)], 'st0,sti': [('st', 0), ('st', i)], 'sti,st0': [('st', i), ('st', 0)], 'ax': [('reg', 0, 16)]}[pat]
        return dict(length=rd.pos, mnem=mnem, ops=ops, opsize=opsize, adsize=adsize, prefixes=prefixes, seg=seg, lock=lock, rep=rep)
    elif op in GROUPS:
        modrm = rd.u8()
        ent = GROUPS[op][(modrm >> 3) & 7]
    else:
        ent = ONE.get(op)
    if ent is None:
        return None
    mnem, tpl = ent
    needs_modrm = any(t[0] in 'EGMSCDR' and t not in ('ES', 'CS', 'SS', 'DS', 'FS', 'GS', 'DX', 'CL') for t in tpl)
    if needs_modrm and modrm is None:
        modrm = rd.u8()
    ops = []
    memop = None
    def vsz(): return opsize
    def E(size):
        if modrm >> 6 == 3:
            return ('reg', modrm & 7, size)
        nonlocal memop
        if memop is None:
            memop = modrm_mem(rd, modrm, adsize, seg)
        base, index, scale, disp = memop
        return ('mem', base, index, scale, disp, seg, size, adsize)
    # memory/ModRM operands must be parsed before immediates (they precede them in the byte stream): two passes
    parsed = {}
    for k, t in enumerate(tpl):
        if t == 'Eb': parsed[k] = E(8)
        elif t == 'Ev': parsed[k] = E(vsz())
        elif t == 'Ew': parsed[k] = E(16)
        elif t == 'Evw':
            parsed[k] = E(vsz()) if modrm >> 6 == 3 else E(16)
        elif t in ('M', 'Ma', 'Mp', 'Ms', 'Mb', 'Mq'):
            if modrm >> 6 == 3: return None
            size = {'M': None, 'Ma': None, 'Mp': None, 'Ms': None, 'Mb': 8, 'Mq': 64}[t]
            parsed[k] = E(size)
    for k, t in enumerate(tpl):
        if k in parsed:
            ops.append(parsed[k]); continue
        r = (modrm >> 3) & 7 if modrm is not None else None
        if t == 'Gb': ops.append(('reg', r, 8))
        elif t == 'Gv': ops.append(('reg', r, vsz()))
        elif t == 'Gw': ops.append(('reg', r, 16))
        elif t == 'Sw':
            if r > 5: return None
            ops.append(('sreg', r))
        elif t == 'Cd':
            ops.append(('creg', r))
        elif t == 'Dd':
            ops.append(('dreg', r))
        elif t == 'Rd':
            ops.append(('reg', modrm & 7, 32))
        elif t == 'Zv': ops.append(('reg', op & 7, vsz()))
        elif t == 'Zd': ops.append(('reg', op & 7, 32))
        elif t == 'Zb': ops.append(('reg', op & 7, 8))
        elif t == 'AL': ops.append(('reg', 0, 8))
        elif t == 'CL': ops.append(('reg', 1, 8))
        elif t == 'DX': ops.append(('reg', 2, 16))
        elif t == 'eAX': ops.append(('reg', 0, vsz()))
        elif t in ('ES', 'CS', 'SS', 'DS', 'FS', 'GS'): ops.append(('sreg', ['ES', 'CS', 'SS', 'DS', 'FS', 'GS'].index(t)))
        elif t == '1': ops.append(('imm', 1, 8))
        elif t == 'Ib': ops.append(('imm', rd.le(1), 8))
        elif t == 'Ibs':
            v = rd.le(1, True)
            ops.append(('imm', v & ((1 << vsz()) - 1), vsz()))
        elif t == 'Iw': ops.append(('imm', rd.le(2), 16))
        elif t in ('Iz', 'Iv'): ops.append(('imm', rd.le(vsz() // 8), vsz()))
        elif t == 'Jb': ops.append(('rel', rd.le(1, True), 8))
        elif t == 'Jz': ops.append(('rel', rd.le(vsz() // 8, True), vsz()))
        elif t in ('Ob', 'Ov'):
            d = rd.le(adsize // 8)
            ops.append(('mem', None, None, 1, d, seg, 8 if t == 'Ob' else vsz(), adsize))
        elif t == 'Ap':
            off = rd.le(vsz() // 8); s = rd.le(2)
            ops.append(('far', s, off, vsz()))
        else:
            raise ValueError('template ' + t)
    if two and op == 0x1F and False:
        pass
    # operand-size dependent mnemonics
    if mnem in ('movsv', 'cmpsv', 'stosv', 'lodsv', 'scasv', 'insv', 'outsv'):
        mnem = mnem[:-1] + ('d' if opsize == 32 else 'w')
    elif mnem == 'cbw': mnem = 'cwde' if opsize == 32 else 'cbw'
    elif mnem == 'cwd': mnem = 'cdq' if opsize == 32 else 'cwd'
    elif mnem == 'pusha': mnem = 'pushad' if opsize == 32 else 'pusha'
    elif mnem == 'popa': mnem = 'popad' if opsize == 32 else 'popa'
    elif mnem == 'pushf': mnem = 'pushfd' if opsize == 32 else 'pushf'
    elif mnem == 'popf': mnem = 'popfd' if opsize == 32 else 'popf'
    elif mnem == 'iret': mnem = 'iretd' if opsize == 32 else 'iret'
    elif mnem == 'jecxz': mnem = 'jecxz' if adsize == 32 else 'jcxz'
    return dict(length=rd.pos, mnem=mnem, ops=ops, opsize=opsize, adsize=adsize, prefixes=prefixes, seg=seg, lock=lock, rep=rep)

# flow classification (S-x86-flow)
NO_FALLTHROUGH = set(['jmp', 'jmpf', 'ret', 'retf', 'iret', 'iretd', 'hlt', 'ud2'])
COND_OR_CALL = set(['j' + c for c in CC] + ['loop', 'loope', 'loopne', 'jecxz', 'jcxz', 'call', 'callf'])
EXCLUDED = set(['sysenter', 'sysexit', 'syscall', 'sysret'])
