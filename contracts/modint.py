"""Sidecar contracts for miasmx/tools/modint.py (property C14).

Spec (S-mod, DESIGN 4.1), written from the property text:
  norm(cls, v)  = v mod 2^n (unsigned) | ((v + 2^(n-1)) mod 2^n) - 2^(n-1) (signed)
  wider(c1, c2) = the operand classes whose width is max(n1, n2)  (ties unconstrained further)
Signedness is read off the class *name* (uintN / intN), width off the name's digits: the spec does
not consult the repo's `size`/`limit` attributes.
"""
import re
from pyvc.contract import Contract, SObj, cls_of
from specs.duck import And, Or, Not, Implies, If, bitop, pyhash, pyabs, isint, is_sym

CM = 'contracts.modint'
M = 'miasmx.tools.modint'
NAMES = ['uint1', 'uint8', 'uint16', 'uint32', 'uint64', 'uint128', 'int8', 'int16', 'int32', 'int64', 'int128']

def width(cls):
    return int(re.match(r'u?int(\d+)$', cls.__name__).group(1))
def signed(cls):
    return cls.__name__.startswith('int')
def lo(cls):
    return -(1 << (width(cls) - 1)) if signed(cls) else 0
def hi(cls):
    return (1 << (width(cls) - 1)) if signed(cls) else (1 << width(cls))

def norm(cls, v):
    n = width(cls)
    if signed(cls):
        return ((v + (1 << (n - 1))) % (1 << n)) - (1 << (n - 1))
    return v % (1 << n)

def is_fixed(x):
    """x is a fixed-width integer object (symbolic record or real instance)"""
    if isinstance(x, SObj):
        return re.match(r'u?int(\d+)$', x.cls.__name__) is not None
    if is_sym(x):
        return False
    return re.match(r'u?int(\d+)$', type(x).__name__) is not None and hasattr(x, 'arg')

def inv(x):
    c = cls_of(x)
    return And(x.arg >= lo(c), x.arg < hi(c))

def val(y):
    return y.arg if is_fixed(y) else y

def operand_ok(y):
    return inv(y) if is_fixed(y) else isint(y)

def wider(c1, y):
    """allowed result classes of c1-object op y"""
    if not is_fixed(y):
        return [c1]
    c2 = cls_of(y)
    m = max(width(c1), width(c2))
    out = []
    for c in (c1, c2):
        if width(c) == m and c not in out:
            out.append(c)
    return out

def OP(sym):
    if sym == '+': return lambda a, b: a + b
    if sym == '-': return lambda a, b: a - b
    if sym == '*': return lambda a, b: a * b
    if sym == '%': return lambda a, b: pymod(a, b)
    return lambda a, b: bitop(sym, a, b)

def pymod(a, b):
    if not is_sym(a) and not is_sym(b):
        return a % b
    import z3
    from specs.duck import _lift
    a, b = _lift(a), _lift(b)
    return z3.If(b > 0, a % b, -((-a) % (-b)))

# ------------------------------------------------------------------------------------------
CONTRACTS = {}
def C(name, **kw):
    q = '%s:%s' % (M, name)
    CONTRACTS[q] = Contract(q, **kw)
    return CONTRACTS[q]

# constructors --------------------------------------------------------------------------------
def _init_pre(ctx, self, arg):
    return operand_ok(arg)
def _init_result(ctx, self, arg):
    v = val(arg)
    if not is_sym(v) and isinstance(v, int) and not isinstance(v, bool):
        # constructor applied to a literal: the stored value is the literal reduced (keeps shift counts such as uint64(op_size) concrete)
        self.fields['arg'] = norm(cls_of(self), v)
    else:
        self.fields['arg'] = ctx.fresh_int('arg')
def _init_post(ctx, res, self, arg):
    return And(is_fixed(res), res.arg == norm(cls_of(res), val(arg)), inv(res))
C('moduint.__init__', pre=_init_pre, post=_init_post, result=_init_result, frame=['self.arg'])
C('modint.__init__', pre=_init_pre, post=_init_post, result=_init_result, frame=['self.arg'])

# maxcast ------------------------------------------------------------------------------------
def _mc_pre(ctx, c1, c2):
    return is_fixed(c2)
def _mc_result(ctx, c1, c2):
    return ctx.choose(wider(c1, c2))
def _mc_post(ctx, res, c1, c2):
    return isinstance(res, type) and res in wider(c1, c2)
C('moduint.maxcast', pre=_mc_pre, post=_mc_post, result=_mc_result)

def _concrete(v):
    return isinstance(v, int) and not isinstance(v, bool) and not is_sym(v)

# binary operators -----------------------------------------------------------------------------
def _bin(sym, reflected=False, extra_pre=None):
    f = OP(sym)
    def pre(ctx, self, y):
        p = And(inv(self), operand_ok(y))
        if extra_pre is not None:
            p = And(p, extra_pre(self, y))
        return p
    def result(ctx, self, y):
        k = ctx.choose(wider(cls_of(self), y))
        a, b = self.arg, val(y)
        if _concrete(a) and _concrete(b):
            # both operands are concrete integers: exactly one value satisfies the postcondition; keep it concrete (an enumerated
            # rotate count stays a number through `r %= op_size`, `op_size - r`)
            try:
                return ctx.new(k, arg=norm(k, f(b, a) if reflected else f(a, b)))
            except Exception:
                pass
        return ctx.new(k, arg=ctx.fresh_int('res'))
    def post(ctx, res, self, y):
        if not is_fixed(res):
            return False
        k = cls_of(res)
        if k not in wider(cls_of(self), y):
            return False
        a, b = self.arg, val(y)
        exact = f(b, a) if reflected else f(a, b)
        return And(res.arg == norm(k, exact), inv(res))
    return dict(pre=pre, post=post, result=result)

_nonneg_y = lambda self, y: val(y) >= 0
_nonzero_y = lambda self, y: Not(val(y) == 0)
_nonneg_self = lambda self, y: self.arg >= 0
_nonzero_self = lambda self, y: Not(self.arg == 0)

for nm, sym in [('add', '+'), ('sub', '-'), ('mul', '*'), ('and', '&'), ('or', '|'), ('xor', '^')]:
    C('moduint.__%s__' % nm, **_bin(sym))
    C('moduint.__r%s__' % nm, **_bin(sym, reflected=True))
C('moduint.__lshift__', **_bin('<<', extra_pre=_nonneg_y))
C('moduint.__rshift__', **_bin('>>', extra_pre=_nonneg_y))
C('moduint.__rlshift__', **_bin('<<', reflected=True, extra_pre=_nonneg_self))
C('moduint.__rrshift__', **_bin('>>', reflected=True, extra_pre=_nonneg_self))
C('moduint.__mod__', **_bin('%', extra_pre=_nonzero_y))
C('moduint.__rmod__', **_bin('%', reflected=True, extra_pre=_nonzero_self))
C('moduint.__pow__', **_bin('**', extra_pre=_nonneg_y))
C('moduint.__rpow__', **_bin('**', reflected=True, extra_pre=lambda self, y: And(self.arg >= 0, isint(y))))

# unary operators ------------------------------------------------------------------------------
def _un(f):
    def pre(ctx, self):
        return inv(self)
    def result(ctx, self):
        return ctx.new(cls_of(self), arg=ctx.fresh_int('res'))
    def post(ctx, res, self):
        if not is_fixed(res) or cls_of(res) is not cls_of(self):
            return False
        return And(res.arg == norm(cls_of(res), f(self.arg)), inv(res))
    return dict(pre=pre, post=post, result=result)
C('moduint.__neg__', **_un(lambda a: -a))
C('moduint.__invert__', **_un(lambda a: -a - 1))
C('moduint.__abs__', **_un(pyabs))

# int / hash -----------------------------------------------------------------------------------
def _int_post(ctx, res, self):
    return And(isint(res), res == self.arg)
def _int_result(ctx, self):
    # a concrete stored value has exactly one result satisfying the postcondition: keep it concrete (enumerated shift counts stay exact)
    if not is_sym(self.arg) and isinstance(self.arg, int) and not isinstance(self.arg, bool):
        return self.arg
    return ctx.fresh_int('i')
C('moduint.__int__', pre=lambda ctx, self: inv(self), post=_int_post, result=_int_result)
def _hash_post(ctx, res, self):
    return And(isint(res), res == pyhash(self.arg))
C('moduint.__hash__', pre=lambda ctx, self: inv(self), post=_hash_post, result=lambda ctx, self: ctx.fresh_int('h'))

# comparisons ------------------------------------------------------------------------------------
def _isbool(res):
    if is_sym(res):
        import z3
        return z3.is_bool(res)
    return isinstance(res, bool)
def _cmp(f):
    def pre(ctx, self, y):
        return And(inv(self), operand_ok(y))
    def result(ctx, self, y):
        return ctx.fresh_bool('c')
    def post(ctx, res, self, y):
        if not _isbool(res):
            return False
        return res == f(self.arg, val(y))
    return dict(pre=pre, post=post, result=result)
C('moduint.__eq__', **_cmp(lambda a, b: a == b))
C('moduint.__ne__', **_cmp(lambda a, b: Not(a == b)))
C('moduint.__lt__', **_cmp(lambda a, b: a < b))
C('moduint.__le__', **_cmp(lambda a, b: a <= b))
C('moduint.__gt__', **_cmp(lambda a, b: a > b))
C('moduint.__ge__', **_cmp(lambda a, b: a >= b))

BINARY = ['add', 'sub', 'mul', 'and', 'or', 'xor', 'lshift', 'rshift', 'mod', 'pow',
          'radd', 'rsub', 'rmul', 'rand', 'ror', 'rxor', 'rlshift', 'rrshift', 'rmod', 'rpow']
UNARY = ['neg', 'invert', 'abs', 'int', 'hash']
COMPARE = ['eq', 'ne', 'lt', 'le', 'gt', 'ge']

def boundary(cls):
    n = width(cls)
    vs = {0, 1, (1 << (n - 1)) - 1, (1 << (n - 1)), (1 << n) - 1, 2, 3, (1 << n) - 2}
    out = set()
    for v in vs:
        out.add(norm(cls, v))
    return sorted(out)

def int_boundary():
    return [0, 1, -1, 2, 7, 8, 127, 128, 255, 256, -128, -129, 0x7fffffff, 0x80000000, 0xffffffff, 1 << 64, -(1 << 127), (1 << 128) + 5]
