"""Sidecar contracts for miasmx/core/bin_stream.py (property C10: the decoder never reads beyond the input).

bin_stream_str.readbs(l):  requires 0 <= offset <= self.l == len(bin), l >= 0
                           raises IOError  <=>  offset + l > self.l      (state unchanged: checked by the frame of the raising path)
                           otherwise result == bin[offset : offset+l]  and  offset' == offset + l   (slice inside the sequence: side obligation)
"""
from pyvc.contract import Contract, SObj, SSeq, SSlice
from specs.duck import And, Or, Not, Implies, is_sym

M = 'miasmx.core.bin_stream'
CONTRACTS = {}

def _pre(ctx, self, l=1):
    return And(self.offset >= 0, self.offset <= self.l, self.l == (self.bin.length if isinstance(self.bin, SSeq) else len(self.bin)), l >= 0)

def _post(ctx, res, self, l=1):
    old = ctx.old_offset if hasattr(ctx, 'old_offset') else None
    if isinstance(res, SSlice):
        # symbolic: the slice record names its bounds
        return And(res.seq is self.bin, res.hi == self.offset, res.lo == self.offset - l, res.hi - res.lo == l)
    # native: compare with the real slice
    return res == self.bin[self.offset - l:self.offset] and len(res) == l

def _raises_ioerror(ctx, self, l=1):
    off = getattr(ctx, 'entry_offset', self.offset)
    return off + l > self.l

CONTRACTS['%s:bin_stream_str.readbs' % M] = Contract('%s:bin_stream_str.readbs' % M, pre=_pre, post=_post,
                                                     raises={'IOError': _raises_ioerror, 'OSError': _raises_ioerror}, raises_iff=['IOError'], frame=['self.offset'])
