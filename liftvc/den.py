"""S-ir: the standard bit-vector meaning of the miasmX IR as z3 terms (DESIGN 4.2).

den(e, st) -> z3 BitVec of width width(e).   st is a State (register file by (name,size) + byte memory).
Ill-typed constructs do not abort: they are coerced (zero-extension / truncation) and recorded in
st.issues so that C11 can report them while C04..C08 still get a meaning.
"""
import z3

class IllTyped(Exception):
    pass

def _name_of(e):
    return e.__class__.__name__

class State(object):
    """symbolic machine state: registers by ExprId name, memory BV32 -> BV8"""
    def __init__(self, prefix='', mem=None):
        self.prefix = prefix
        self.regs = {}          # (name, size) -> z3 BV
        self.mem = mem if mem is not None else z3.Array(prefix + 'MEM', z3.BitVecSort(32), z3.BitVecSort(8))
        self.issues = []
        self.ufs = {}
        self.reads = []         # (addr term, nbytes) of memory reads performed by den
        self.defined = []       # conditions under which architecturally/IR-undefined results do not occur (bsf/bsr of 0, division by 0)
    def reg(self, name, size):
        k = (name, size)
        if k not in self.regs:
            self.regs[k] = z3.BitVec('%s%s' % (self.prefix, name), size)
        return self.regs[k]
    def setreg(self, name, size, v):
        self.regs[(name, size)] = v
    def uf(self, name, argw, resw):
        k = (name, tuple(argw), resw)
        if k not in self.ufs:
            self.ufs[k] = z3.Function('op_%s_%s_%d' % (''.join(c if c.isalnum() else '_' for c in name), '_'.join(map(str, argw)), resw),
                                      *([z3.BitVecSort(w) for w in argw] + [z3.BitVecSort(resw)]))
        return self.ufs[k]
    def copy(self):
        s = State(self.prefix, self.mem)
        s.regs = dict(self.regs)
        s.ufs = self.ufs
        s.defined = self.defined
        s.reads = self.reads
        s.issues = self.issues
        return s

def fit(v, w):
    """coerce BV v to width w (truncate / zero-extend)"""
    n = v.size()
    if n == w: return v
    if n > w: return z3.Extract(w - 1, 0, v)
    return z3.ZeroExt(w - n, v)

def sfit(v, w):
    n = v.size()
    if n == w: return v
    if n > w: return z3.Extract(w - 1, 0, v)
    return z3.SignExt(w - n, v)

def width(e):
    """static width of an expression under S-ir (None if indeterminate)"""
    n = _name_of(e)
    if n == 'ExprInt': return e.arg.size
    if n == 'ExprId': return e.size
    if n == 'ExprMem': return e.size
    if n == 'ExprSlice': return e.stop - e.start
    if n == 'ExprCompose':
        if not e.args: return None
        return max(x[2] for x in e.args) - min(x[1] for x in e.args)
    if n == 'ExprCond': return width(e.src1)
    if n == 'ExprOp':
        if not e.args: return None
        if e.op in ('bsf', 'bsr') and len(e.args) == 2:
            return width(e.args[1])
        return width(e.args[0])
    if n == 'ExprAff': return width(e.dst)
    return None

SEG_FLAT = ('es', 'cs', 'ss', 'ds')

def segbase(segm, st):
    if segm is None:
        return None
    if _name_of(segm) == 'ExprId' and segm.name in SEG_FLAT:
        return None
    v = den(segm, st)
    return st.uf('segbase', [v.size()], 32)(v)

def mem_read(st, addr, nbytes):
    addr = fit(addr, 32)
    st.reads.append((addr, nbytes))
    bs = [z3.Select(st.mem, addr + z3.BitVecVal(i, 32)) for i in range(nbytes)]
    if nbytes == 1:
        return bs[0]
    return z3.Concat(*reversed(bs))

def mem_write(mem, addr, val, nbytes):
    addr = fit(addr, 32)
    for i in range(nbytes):
        mem = z3.Store(mem, addr + z3.BitVecVal(i, 32), z3.Extract(8 * i + 7, 8 * i, val))
    return mem

def address(e, st):
    """effective (linear) address of an ExprMem under the flat model"""
    a = fit(den(e.arg, st), 32)
    sb = segbase(e.segm, st)
    if sb is not None:
        a = a + sb
    return a

def shift_common(a, c):
    w = max(a.size(), c.size()) + 1
    return w

def den(e, st):
    n = _name_of(e)
    if n == 'ExprInt':
        return z3.BitVecVal(int(e.arg) % (1 << e.arg.size), e.arg.size)
    if n == 'ExprId':
        return st.reg(e.name, e.size)
    if n == 'ExprMem':
        if e.size % 8 != 0:
            st.issues.append('memory access of %d bits' % e.size)
            nb = (e.size + 7) // 8
            return fit(mem_read(st, address(e, st), nb), e.size)
        return mem_read(st, address(e, st), e.size // 8)
    if n == 'ExprSlice':
        a = den(e.arg, st)
        if not (0 <= e.start < e.stop):
            raise IllTyped('empty/negative slice [%s:%s]' % (e.start, e.stop))
        if e.stop > a.size():
            st.issues.append('slice [%d:%d] outside its %d-bit operand' % (e.start, e.stop, a.size()))
            a = fit(a, e.stop)
        return z3.Extract(e.stop - 1, e.start, a)
    if n == 'ExprCompose':
        if not e.args:
            raise IllTyped('empty compose')
        lo0 = min(x[1] for x in e.args)
        hi0 = max(x[2] for x in e.args)
        w = hi0 - lo0
        slots = sorted(e.args, key=lambda x: x[1])
        pos = lo0
        tiled = True
        for (x, lo, hi) in slots:
            if lo != pos or hi <= lo:
                tiled = False
            pos = hi
        if not tiled or lo0 != 0:
            st.issues.append('compose slots do not tile [0,%d): %s' % (w, [(x[1], x[2]) for x in e.args]))
        res = z3.BitVecVal(0, w)
        if tiled:
            parts = []
            for (x, lo, hi) in slots:
                v = den(x, st)
                if v.size() != hi - lo:
                    st.issues.append('compose element of %d bits in a %d-bit slot' % (v.size(), hi - lo))
                parts.append(fit(v, hi - lo))
            return parts[0] if len(parts) == 1 else z3.Concat(*reversed(parts))
        for (x, lo, hi) in slots:
            if hi <= lo:
                continue            # empty slot (already recorded as an issue)
            v = fit(fit(den(x, st), hi - lo), w)
            res = res | (v << (lo - lo0))
        return res
    if n == 'ExprCond':
        c = den(e.cond, st)
        a = den(e.src1, st)
        b = den(e.src2, st)
        if a.size() != b.size():
            st.issues.append('conditional arms of %d and %d bits' % (a.size(), b.size()))
            b = fit(b, a.size())
        return z3.If(c != 0, a, b)
    if n == 'ExprOp':
        return den_op(e, st)
    if n == 'ExprAff':
        raise IllTyped('assignment used as a value')
    raise IllTyped('no denotation for %s' % n)

ARITH = ('+', '*', '^', '&', '|')

def _same(vs, st, op):
    w = vs[0].size()
    out = [vs[0]]
    for v in vs[1:]:
        if v.size() != w:
            st.issues.append('operands of %s have widths %s' % (op, [x.size() for x in vs]))
            v = fit(v, w)
        out.append(v)
    return out

def den_op(e, st):
    op = e.op
    if not e.args:
        st.issues.append('operator %s without operands has no determinate width' % op)
        return st.uf(op, [], 32)()
    vs = [den(a, st) for a in e.args]
    w = vs[0].size()
    if op in ARITH:
        vs = _same(vs, st, op)
        r = vs[0]
        for v in vs[1:]:
            if op == '+': r = r + v
            elif op == '*': r = r * v
            elif op == '^': r = r ^ v
            elif op == '&': r = r & v
            elif op == '|': r = r | v
        return r
    if op == '-':
        if len(vs) == 1: return -vs[0]
        if len(vs) == 2:
            vs = _same(vs, st, op)
            return vs[0] - vs[1]
        raise IllTyped('n-ary -')
    if op in ('<<', '>>', 'a>>', 'a<<') and len(vs) == 2:
        a, c = vs
        W = max(a.size(), c.size()) + 1
        cc = z3.ZeroExt(W - c.size(), c)
        if op in ('<<', 'a<<'):
            return z3.Extract(w - 1, 0, z3.ZeroExt(W - w, a) << cc)
        if op == '>>':
            return z3.Extract(w - 1, 0, z3.LShR(z3.ZeroExt(W - w, a), cc))
        return z3.Extract(w - 1, 0, z3.SignExt(W - w, a) >> cc)
    if op in ('<<<', '>>>') and len(vs) == 2:
        a, c = vs
        W = max(a.size(), c.size())
        cm = z3.URem(z3.ZeroExt(W - c.size(), c), z3.BitVecVal(w, W))
        cm = fit(cm, w)
        return z3.RotateLeft(a, cm) if op == '<<<' else z3.RotateRight(a, cm)
    if op == '==' and len(vs) == 2:
        vs = _same(vs, st, op)
        return z3.If(vs[0] == vs[1], z3.BitVecVal(1, w), z3.BitVecVal(0, w))
    if op == '<' and len(vs) == 2:
        vs = _same(vs, st, op)
        return z3.If(z3.ULT(vs[0], vs[1]), z3.BitVecVal(1, w), z3.BitVecVal(0, w))
    if op == 'parity' and len(vs) == 1:
        b = z3.Extract(7, 0, fit(vs[0], max(w, 8)))
        x = z3.Extract(0, 0, b)
        for i in range(1, 8):
            x = x ^ z3.Extract(i, i, b)
        return z3.ZeroExt(w - 1, ~x) if w > 1 else ~x
    if op == '!' and len(vs) == 1:
        return ~vs[0]
    # ---- x86 named operators (one-line mathematical definitions)
    if op in ('umul32_hi', 'umul32_lo', 'umul16_hi', 'umul16_lo', '*hi', '*lo') and len(vs) == 2:
        vs = _same(vs, st, op)
        p = z3.ZeroExt(w, vs[0]) * z3.ZeroExt(w, vs[1])
        return z3.Extract(2 * w - 1, w, p) if op.endswith('hi') else z3.Extract(w - 1, 0, p)
    if op in ('imul32_hi', 'imul32_lo', 'imul16_hi', 'imul16_lo') and len(vs) == 2:
        vs = _same(vs, st, op)
        p = z3.SignExt(w, vs[0]) * z3.SignExt(w, vs[1])
        return z3.Extract(2 * w - 1, w, p) if op.endswith('hi') else z3.Extract(w - 1, 0, p)
    if op == 'umul08' and len(vs) == 2:
        p = z3.ZeroExt(8, z3.Extract(7, 0, fit(vs[0], max(8, w)))) * z3.ZeroExt(8, z3.Extract(7, 0, fit(vs[1], max(8, vs[1].size()))))
        return fit(p, w)
    if op == 'imul08' and len(vs) == 2:
        p = z3.SignExt(8, z3.Extract(7, 0, fit(vs[0], max(8, w)))) * z3.SignExt(8, z3.Extract(7, 0, fit(vs[1], max(8, vs[1].size()))))
        return sfit(p, w) if w > 16 else fit(p, w)
    for pre, signed, rem in (('div', False, False), ('rem', False, True), ('idiv', True, False), ('irem', True, True)):
        if op in (pre + '8', pre + '16', pre + '32') and len(vs) == 3:
            n = int(op[len(pre):])
            hi, lo, d = fit(vs[0], n), fit(vs[1], n), fit(vs[2], n)
            big = z3.Concat(hi, lo)
            if signed:
                dd = z3.SignExt(n, d)
                q = big / dd            # z3 bvsdiv: truncation toward zero
                r = z3.SRem(big, dd)
            else:
                dd = z3.ZeroExt(n, d)
                q = z3.UDiv(big, dd)
                r = z3.URem(big, dd)
            undef = st.uf(op + '_divzero', [n, n], n)(hi, lo)
            st.defined.append(d != 0)
            # a quotient that does not fit the operand size is a divide error as well (#DE): no result
            if signed:
                st.defined.append(z3.Or(d == 0, z3.And(q >= z3.BitVecVal(-(1 << (n - 1)), 2 * n), q <= z3.BitVecVal((1 << (n - 1)) - 1, 2 * n))))
            else:
                st.defined.append(z3.Or(d == 0, z3.ULE(q, z3.BitVecVal((1 << n) - 1, 2 * n))))
            return fit(z3.If(d == 0, undef, z3.Extract(n - 1, 0, r if rem else q)), w)
    if op in ('<<<c_rez', '<<<c_cf', '>>>c_rez', '>>>c_cf') and len(vs) == 3:
        a, c, cf = vs
        cfb = z3.Extract(0, 0, cf)
        big = z3.Concat(cfb, a)                 # cf is bit w
        W = w + 1
        cnt = z3.ZeroExt(max(0, W - c.size()), c) if c.size() <= W else c
        cw = cnt.size()
        cnt = z3.URem(cnt & z3.BitVecVal(0x1f, cw), z3.BitVecVal(W, cw))
        cnt = fit(cnt, W)
        r = z3.RotateLeft(big, cnt) if op.startswith('<<<') else z3.RotateRight(big, cnt)
        if op.endswith('rez'):
            return z3.Extract(w - 1, 0, r)
        return fit(z3.Extract(w, w, r), w)
    if op in ('bsf', 'bsr'):
        x = vs[-1]
        n = x.size()
        undef = st.uf(op + '_zero', [n], n)(x) if len(vs) == 1 else fit(vs[0], n)
        if len(vs) == 1:
            st.defined.append(x != 0)
        r = undef
        rng = range(n - 1, -1, -1) if op == 'bsf' else range(n)
        for i in rng:
            r = z3.If(z3.Extract(i, i, x) == 1, z3.BitVecVal(i, n), r)
        return r
    # ---- uninterpreted operators (x87, MMX/SSE, system)
    return st.uf(op, [v.size() for v in vs], w)(*vs)

# ---------------------------------------------------------------------------------------------
def apply_affs(affs, st):
    """parallel assignment: all sources and destination addresses read the pre-state `st`.
       returns (post State, writes) where writes = list of ('reg', name, size, value) / ('mem', addr, nbytes, value)"""
    post = st.copy()
    writes = []
    mem = st.mem
    for a in affs:
        if _name_of(a) != 'ExprAff':
            raise IllTyped('list element is not an assignment: %s' % a)
        dst, src = a.dst, a.src
        if _name_of(src) == 'ExprAff':
            raise IllTyped('source is an assignment')
        v = den(src, st)
        dn = _name_of(dst)
        if dn == 'ExprId':
            if v.size() != dst.size:
                st.issues.append('assignment of %d bits to %d-bit %s' % (v.size(), dst.size, dst.name))
            v = fit(v, dst.size)
            post.regs[(dst.name, dst.size)] = v
            writes.append(('reg', dst.name, dst.size, v))
        elif dn == 'ExprMem':
            if v.size() != dst.size:
                st.issues.append('assignment of %d bits to %d-bit memory cell' % (v.size(), dst.size))
            nb = (dst.size + 7) // 8
            v = fit(v, nb * 8)
            ad = address(dst, st)
            mem = mem_write(mem, ad, v, nb)
            writes.append(('mem', ad, nb, v))
        else:
            raise IllTyped('destination is %s' % dn)
    post.mem = mem
    return post, writes
