"""Equivalence of two IR expressions for ALL valuations (shape-bounded SMT: one query per tree pair)."""
import time, random
import z3
from liftvc import den as D
from specs import irsem

def prove_equal(e1, e2, timeout_ms=10000, st=None):
    """returns (verdict, info): verdict in 'equal', 'different', 'unknown', 'width', 'illtyped'
       info: for 'different' a dict name->value (registers) + memory bytes read"""
    st = st or D.State()
    try:
        d1 = D.den(e1, st)
        d2 = D.den(e2, st)
    except D.IllTyped as ex:
        return 'illtyped', str(ex), st
    if d1.size() != d2.size():
        return 'width', '%d vs %d' % (d1.size(), d2.size()), st
    if d1.eq(d2):
        return 'equal', 'syntactic', st
    g = z3.simplify(d1 != d2)
    if z3.is_false(g):
        return 'equal', 'simplifier', st
    s = z3.SolverFor('QF_AUFBV')
    s.set('timeout', timeout_ms)
    s.add(g)
    for c in st.defined:        # results the IR leaves undefined (bsf/bsr of 0, division by 0) are not constrained
        s.add(c)
    r = s.check()
    if r == z3.unsat:
        return 'equal', 'z3', st
    if r == z3.sat:
        return 'different', model_to_valuation(s.model(), st), st
    return 'unknown', s.reason_unknown(), st

def model_to_valuation(m, st):
    regs = {}
    for (name, size), v in st.regs.items():
        try:
            regs[name] = m.eval(v, model_completion=True).as_long()
        except Exception:
            regs[name] = 0
    mem = {}
    for (addr, nb) in st.reads:
        try:
            a = m.eval(addr, model_completion=True).as_long()
            for i in range(nb):
                aa = (a + i) & 0xffffffff
                mem[aa] = m.eval(z3.Select(st.mem, z3.BitVecVal(aa, 32)), model_completion=True).as_long()
        except Exception:
            pass
    return {'regs': regs, 'mem': mem}

def concrete_state(val):
    st = irsem.CState(val['regs'], dict((int(k), v) for k, v in val['mem'].items()), memdefault=lambda a: 0)
    return st

def concrete_differs(e1, e2, val):
    """replay a valuation with the independent concrete interpreter"""
    st = concrete_state(val)
    v1 = irsem.ev(e1, st)
    v2 = irsem.ev(e2, st)
    return v1 != v2, v1, v2

def random_valuation(rng, names_sizes):
    regs = {}
    for (n, s) in names_sizes:
        regs[n] = rng.choice([0, 1, (1 << s) - 1, 1 << (s - 1), rng.getrandbits(s)]) & ((1 << s) - 1)
    memseed = rng.getrandbits(32)
    return regs, memseed
