#!/usr/bin/env python3
"""helper run BY HAND after `./vcheck C10` in BOTH tiers on the unchanged tree (replay/ cleaned before): rewrites the KF-C10-* records of
known_findings.jsonl from the failing obligations found in /verif/replay (union of the runs), one record per clause"""
import sys, json, re, glob, collections
WHAT = {
 'asm-crash': 'asm() raises an internal error (not ValueError) on malformed text; class = exception@function:message|line shape (M/X = valid mnemonic first or not, token count)',
 'asm_att-crash': 'asm_att() raises an internal error (not ValueError) on malformed text; class as for asm-crash',
 'dis-crash': 'dis() raises instead of reporting that no instruction is present',
 'render-att': 'the AT&T rendering of a decoded instruction raises (mostly ValueError "Mnemonic ... unknown": the AT&T mnemonic tables are a whitelist)',
 'render-intel': 'the Intel rendering of a decoded instruction raises',
 'length': 'the decoder consumes another number of bytes than the instruction has (reference: specs/x86dec.py): rel16 branches under 0x66 read as rel32, mov cr/dr with mod != 3',
 'truncated': 'a truncated instruction is not reported absent (internal error or an instruction longer than the buffer)',
 'offset': 'decoding at a stream offset differs from decoding the suffix',
}
groups = collections.defaultdict(dict)
for f in sorted(glob.glob('/verif/replay/C10_*.py')):
    try: d = json.loads(open(f).read().split('\n')[2][2:])
    except Exception: continue
    m = re.match(r'C10:([a-z_-]+)\[', d['obligation'])
    if m: groups[m.group(1)][d['obligation']] = (d.get('detail') or '')[:120]
p = '/verif/known_findings.jsonl'
keep = []
old = {}
for l in open(p).read().split('\n'):
    if not l.strip(): continue
    d = json.loads(l)
    if d.get('property') == 'C10' and 'obligations' in d:
        old[d['id']] = d; continue
    keep.append(l)
for clause, obs in sorted(groups.items()):
    rid = 'KF-C10-' + clause
    keep.append(json.dumps({'id': rid, 'property': 'C10', 'obligations': sorted(obs), 'what': '%s; %d classes. Witnesses: %s' % (WHAT.get(clause, clause), len(obs), '; '.join(list(obs.values())[:6]))}))
    print(rid, len(obs), '(was %d)' % len(old.get(rid, {}).get('obligations', [])))
open(p, 'w').write('\n'.join(keep) + '\n')
