#!/bin/bash
# usage: confirm_seed.sh <agent out dir e.g. /tmp/out_C05/1> <seed id e.g. C05-1>
# confirms in a fresh scratch worktree: patch applies, 278 tests pass with it, demo exits 1 with it and 0 without; then stores it
src="$1"; id="$2"
wt=/tmp/confirm_$id
git -C /repo worktree remove --force $wt 2>/dev/null
git -C /repo worktree add -q $wt HEAD || exit 3
export TMPDIR=/tmp/confirm_tmp_$id; mkdir -p $TMPDIR
res=0
cd $wt
MIASMX_ROOT=$wt /venv/bin/python $src/demo.py >/dev/null 2>&1; d0=$?
if git apply --check $src/patch.diff 2>/dev/null; then git apply $src/patch.diff; else git apply --3way $src/patch.diff 2>/dev/null || { echo "$id: patch does not apply"; res=4; }; fi
if [ $res = 0 ]; then
  t=$(/venv/bin/python -m pytest -q -p no:cacheprovider -p no:hypothesispytest 2>&1 | grep -E "passed|failed" | tail -1)
  MIASMX_ROOT=$wt /venv/bin/python $src/demo.py >/dev/null 2>&1; d1=$?
  git diff HEAD > /tmp/confirm_$id.diff
  echo "$id: tests: $t | demo without patch rc=$d0, with patch rc=$d1"
  if echo "$t" | grep -q "278 passed" && [ "$d0" = 0 ] && [ "$d1" = 1 ]; then
    mkdir -p /verif/seeded/$id
    cp /tmp/confirm_$id.diff /verif/seeded/$id/patch.diff
    cp $src/demo.py /verif/seeded/$id/demo.py
    python3 - "$src/meta.json" "/verif/seeded/$id/meta.json" "$t" "$d0" "$d1" <<'PY'
import json,sys
m=json.load(open(sys.argv[1]))
m['confirmed_by_me']={'scratch_worktree':'git worktree of /repo HEAD under /tmp (removed)','tests_with_patch':sys.argv[3],'demo_rc_without_patch':int(sys.argv[4]),'demo_rc_with_patch':int(sys.argv[5])}
json.dump(m,open(sys.argv[2],'w'),indent=1)
PY
    echo "$id: CONFIRMED and stored"
  else
    echo "$id: NOT confirmed"; res=5
  fi
fi
cd /; git -C /repo worktree remove --force $wt; rm -rf $TMPDIR /tmp/confirm_$id.diff
exit $res
