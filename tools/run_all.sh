#!/bin/bash
# runs every registered check once (tier from $1, default quick) and prints one line per check; exit 1 if any check does not exit 0
cd /verif || exit 3
tier=${1:-quick}; bad=0
for c in C01 C02 C03 C04 C05 C06 C07 C08 C09 C10 C11 C12 C13 C14 C15 C16 C17 C18 C19; do
  out=$(./vcheck $c --tier $tier 2>&1); rc=$?
  echo "$c rc=$rc $(echo "$out" | tail -n 1 | cut -c1-170)"
  [ $rc -ne 0 ] && { bad=1; echo "$out" | grep -E "^VIOLATION|^UNDECIDED|^CHECKER" | head -5 | cut -c1-300; }
done
exit $bad
