#!/bin/bash
# runs every stored seeded change against the quick check of its own property (and, with ALSO="Cxx Cyy", further checks) and writes
# seeded/RESULTS.md.  /repo must be clean; every patch is applied and reset in turn.  Not registered in MANIFEST.json (it edits /repo's tree).
cd /verif || exit 3
out=seeded/RESULTS.md
[ -z "$APPEND" ] && {
echo "# seeded changes vs checks (quick tier)"
echo
echo "/repo HEAD: $(git -C /repo rev-parse --short HEAD)   /verif HEAD: $(git rev-parse --short HEAD)"
echo
echo "| change | what it breaks (from meta.json) | check | exit | violation lines | first failed obligation |"
echo "|---|---|---|---|---|---|"
} > $out
for d in seeded/C*-*; do
  id=$(basename $d); prop=${id%-*}
  [ -n "$ONLY" ] && [[ ! " $ONLY " == *" $prop "* ]] && continue
  what=$(python3 -c "import json,sys; print(json.load(open('$d/meta.json'))['summary'][:160].replace('|','/').replace('\n',' '))")
  for c in $prop $ALSO; do
    res=$(tools/try_mutant.sh /verif/$d/patch.diff $c 2>&1)
    rc=$(echo "$res" | sed -n 's/^== '$c' rc=\([0-9]*\) .*/\1/p')
    nv=$(echo "$res" | sed -n 's/^== '$c' rc=[0-9]* \([0-9]*\) violation.*/\1/p')
    first=$(echo "$res" | grep -m1 '^  obligation' | sed 's/^  obligation //' | cut -c1-110 | tr '|' '/')
    [ -z "$rc" ] && rc="n/a ($(echo "$res" | head -1 | cut -c1-60))"
    echo "| $id | $what | $c | $rc | $nv | $first |" >> $out
    echo "$id $c rc=$rc nv=$nv"
  done
done
git -C /repo status --short | head -3
