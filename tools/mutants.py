#!/usr/bin/env python3
"""Runs stored seeded changes against checks WITHOUT touching /repo or /verif/evidence: every change gets its own scratch clone of /repo under
/tmp (removed afterwards), the check runs with VERIF_REPO=<clone> VERIF_OUT=<scratch>.  Writes seeded/RESULTS.md.
usage: tools/mutants.py [-j N] [--only C01,C02] [--also Cxx,Cyy] [--tier quick]
Not registered in MANIFEST.json (it decides no property)."""
import sys, os, json, subprocess, shutil, tempfile, concurrent.futures, re, time
VERIF = os.path.dirname(os.path.dirname(os.path.abspath(__file__)))

def run_one(job):
    sid, checks, tier = job
    d = os.path.join(VERIF, 'seeded', sid)
    base = tempfile.mkdtemp(prefix='mx_%s_' % sid, dir='/tmp')
    rows = []
    try:
        clone = os.path.join(base, 'repo')
        subprocess.run(['git', 'clone', '-q', '/repo', clone], check=True)
        p = subprocess.run(['git', '-C', clone, 'apply', os.path.join(d, 'patch.diff')], capture_output=True, text=True)
        if p.returncode != 0:
            p = subprocess.run(['git', '-C', clone, 'apply', '--3way', os.path.join(d, 'patch.diff')], capture_output=True, text=True)
        if p.returncode != 0:
            return [(sid, c, 'patch does not apply', 0, '') for c in checks]
        for c in checks:
            env = dict(os.environ)
            env.update({'VERIF_REPO': clone, 'VERIF_OUT': os.path.join(base, 'out_' + c), 'VERIF_TIER': tier})
            t0 = time.time()
            r = subprocess.run([os.path.join(VERIF, 'vcheck'), c, '--tier', tier], capture_output=True, text=True, env=env, cwd=VERIF)
            out = r.stdout + r.stderr
            nv = len(re.findall(r'^VIOLATION', out, re.M))
            m = re.search(r'^  obligation (.*)$', out, re.M)
            rows.append((sid, c, r.returncode, nv, (m.group(1)[:110] if m else '').replace('|', '/'), round(time.time() - t0)))
    finally:
        shutil.rmtree(base, ignore_errors=True)
    return rows

def main():
    a = sys.argv[1:]
    j, only, also, tier, ids = 3, None, [], 'quick', None
    while a:
        x = a.pop(0)
        if x == '-j': j = int(a.pop(0))
        elif x == '--only': only = a.pop(0).split(',')
        elif x == '--also': also = a.pop(0).split(',')
        elif x == '--tier': tier = a.pop(0)
        elif x == '--ids': ids = a.pop(0).split(',')       # e.g. 7,8,9: only the changes <Cxx>-7..9
    sids = sorted(x for x in os.listdir(os.path.join(VERIF, 'seeded')) if re.match(r'^C\d\d-\d+$', x))
    jobs = [(s, [s.split('-')[0]] + also, tier) for s in sids if (only is None or s.split('-')[0] in only) and (ids is None or s.split('-')[1] in ids)]
    rows = []
    with concurrent.futures.ThreadPoolExecutor(j) as ex:
        for r in ex.map(run_one, jobs):
            for row in r:
                print(row, flush=True)
            rows.extend(r)
    head = subprocess.run(['git', '-C', '/repo', 'rev-parse', '--short', 'HEAD'], capture_output=True, text=True).stdout.strip()
    vh = subprocess.run(['git', '-C', VERIF, 'rev-parse', '--short', 'HEAD'], capture_output=True, text=True).stdout.strip()
    path = os.path.join(VERIF, 'seeded', 'RESULTS.md')
    notes = ''
    if os.path.exists(path):
        old = open(path).read()
        if '\nNotes\n' in old: notes = old[old.index('\nNotes\n'):]
        if only is not None:
            # keep the rows of the properties that were not rerun
            keep = [l for l in old.split('\n') if l.startswith('| C') and l.split('|')[1].strip().split('-')[0] not in only]
        elif ids is not None:
            keep = [l for l in old.split('\n') if l.startswith('| C') and l.split('|')[1].strip().split('-')[1] not in ids]
        else:
            keep = []
    else:
        keep = []
    with open(path, 'w') as f:
        f.write('# seeded changes vs checks (%s tier)\n\n/repo HEAD: %s   /verif HEAD: %s (each change applied to its own scratch clone of /repo; tools/mutants.py)\n\n' % (tier, head, vh))
        f.write('| change | what it breaks (from meta.json) | check | exit | violation lines | first failed obligation | s |\n|---|---|---|---|---|---|---|\n')
        lines = list(keep)
        for (sid, c, rc, nv, first, *rest) in rows:
            what = json.load(open(os.path.join(VERIF, 'seeded', sid, 'meta.json')))['summary'][:160].replace('|', '/').replace('\n', ' ')
            lines.append('| %s | %s | %s | %s | %s | %s | %s |' % (sid, what, c, rc, nv, first, rest[0] if rest else ''))
        f.write('\n'.join(sorted(lines)) + '\n' + notes)
    missed = [(s, c, rc) for (s, c, rc, *_) in rows if rc != 1 and c == s.split('-')[0]]
    print('not caught by the own check:', missed)

if __name__ == '__main__':
    main()
