#!/usr/bin/env python3
"""helper run BY HAND: lists (and with --apply removes) obligation ids of known_findings.jsonl that no recorded run reaches any more.
Needs .tmp/kfhits/<Cxx>_quick_*.json AND <Cxx>_thorough_*.json (written by every run on /repo); pattern records are left alone.
A stale id would hide the return of a repaired defect."""
import sys, os, json, glob
V = os.path.dirname(os.path.dirname(os.path.abspath(__file__)))
apply = '--apply' in sys.argv
hits = {}
tiers = {}
for f in glob.glob(os.path.join(V, '.tmp', 'kfhits', '*.json')):
    pid, tier, seed = os.path.basename(f)[:-5].split('_')
    hits.setdefault(pid, set()).update(json.load(open(f)))
    tiers.setdefault(pid, set()).add(tier)
out = []
for l in open(os.path.join(V, 'known_findings.jsonl')).read().split('\n'):
    if not l.strip(): continue
    d = json.loads(l)
    pid = d.get('property')
    if 'obligations' in d and not d.get('pattern'):
        if tiers.get(pid, set()) >= {'quick', 'thorough'}:
            stale = [o for o in d['obligations'] if o not in hits[pid]]
            if stale:
                print('%s: %d of %d ids not reached by any run: %s' % (d['id'], len(stale), len(d['obligations']), stale[:4]))
                if apply:
                    d['obligations'] = [o for o in d['obligations'] if o in hits[pid]]
                    if not d['obligations']:
                        print('   record %s removed' % d['id']); continue
                    l = json.dumps(d)
        else:
            print('%s: runs of both tiers not recorded yet (have %s)' % (d['id'], sorted(tiers.get(pid, []))))
    out.append(l)
if apply:
    open(os.path.join(V, 'known_findings.jsonl'), 'w').write('\n'.join(out) + '\n')
