#!/usr/bin/env python3
"""helper run BY HAND (never by a check): failing obligations of the last run of an assembler-family check (C02/C03/C09/C19) -> candidate
known-findings records, one per clause, for review before they are appended to known_findings.jsonl"""
import sys, json, re, glob, collections
prop = sys.argv[1]
WHAT = {
 'C03:canonical': 'a canonically encoded instruction (GNU as reproduces it from the reference rendering) whose miasmX rendering does not assemble back to it',
 'C03:fixpoint': 'a candidate returned by the assembler whose rendering does not assemble back to a set containing it',
 'C03:dis': 'a candidate returned by the assembler that the disassembler rejects or reads with another length',
 'C09:att-parse': 'the AT&T rendering of a decoded instruction is rejected by asm_att or assembles to a set without the original encoding',
 'C09:intel-parse': 'the Intel rendering of a decoded instruction is rejected by asm or assembles to a set without the original encoding',
 'C09:gas-att-rejects': 'GNU as --32 (AT&T mode) rejects the AT&T rendering',
 'C09:gas-intel-rejects': 'GNU as --32 (.intel_syntax noprefix) rejects the Intel rendering',
 'C09:gas-att-differs': 'GNU as assembles the AT&T rendering to another instruction',
 'C09:gas-intel-differs': 'GNU as assembles the Intel rendering to another instruction',
 'C19:att-rejected': 'the Intel line assembles, none of its AT&T transliterations is accepted by asm_att (the AT&T mnemonic tables are a whitelist)',
 'C19:att-differs': 'the Intel line and its AT&T transliteration assemble to different candidate sets',
 'C19:signed-differs': 'a 16-bit immediate written unsigned (65408) and signed (-128) gives different candidate sets (the sign-extended imm8 form is only found for the signed spelling)',
}
groups = collections.defaultdict(list)
for f in sorted(glob.glob('/verif/replay/%s_*.py' % prop)):
    l = open(f).read().split('\n')[2]
    try: d = json.loads(l[2:])
    except Exception: continue
    oid = d['obligation']
    m = re.match(r'(%s:[a-z0-9-]+)\[' % prop, oid)
    if not m: continue
    groups[m.group(1)].append((oid, d['detail']))
for clause, items in sorted(groups.items()):
    rec = {'id': 'KF-%s' % clause.replace(':', '-'), 'property': prop, 'obligations': sorted(o for o, _ in items),
           'what': '%s; %d instruction classes. Witnesses: %s' % (WHAT.get(clause, clause), len(items), '; '.join(d[:160] for o, d in items[:8]))}
    print(json.dumps(rec))
