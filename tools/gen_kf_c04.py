#!/usr/bin/env python3
"""helper run BY HAND: candidate known-findings records for C04 from the replay files of the last run, grouped by root-cause class"""
import sys, json, re, glob, collections
groups = collections.defaultdict(list)
def klass(name, sig, out, case):
    if out == 'af': return 'af', 'AF is computed from bit 4 of the result instead of the carry out of bit 3 (update_flag_af); the formula is pinned by tests/test_emul.py'
    if name in ('shl', 'sal', 'shr', 'sar', 'rol', 'ror', 'rcl', 'rcr') : return 'shift-rotate-flags', 'shifts/rotates: flags are updated when the masked count is 0, OF/CF formulas only valid for some counts'
    if name in ('shld', 'shrd'): return 'double-shift', 'shld/shrd: count not masked / flags updated for count 0 / result wrong for the immediate form of shrd'
    if name in ('mul', 'imul', 'div', 'idiv'): return 'muldiv', 'mul/imul/idiv: CF/OF formulas (imul tests c[16:], 8-bit mul reads the old ah), 8-bit idiv writes al and ah as two whole-register assignments'
    if name in ('bt', 'bts', 'btr', 'btc'): return 'bittest', 'bt*: memory form drops the segment and uses a logical shift for the (signed) bit offset'
    if sig.startswith('o16:') or 'a16:' in sig: return 'opsize16', '16-bit operand size forms: stack pointer taken as sp, eip/arms mixed 16/32 bits, cbw/cwd wrong'
    if name.startswith('j') or name in ('loop', 'loope', 'loopne', 'call', 'ret', 'jmp'): return 'control', 'control transfer'
    if name[:4] in ('movs', 'lods', 'cmps', 'stos', 'scas'): return 'string-segment', 'string instructions ignore a segment-override prefix on the source operand'
    if name in ('cmpxchg', 'xadd', 'xchg'): return 'xchg-family', 'cmpxchg only sets ZF (the other flags of the comparison are missing); xchg/xadd on two byte parts of one register emit two whole-register assignments'
    if name == 'pushfd': return 'pushfd', 'pushfd pushes VM and RF as they are (the architecture clears them in the pushed image)'
    return 'other', 'other'
for f in sorted(glob.glob('/verif/replay/C04_*')):
    try:
        d = json.loads(open(f).read().split('\n')[2][2:]) if f.endswith('.py') else json.load(open(f))
    except Exception: continue
    oid = d['obligation']
    m = re.match(r'C04:sem\[(.*?)\]:(.*):([a-z0-9]+)(\|.*)?$', oid)
    if not m: continue
    k, what = klass(m.group(1), m.group(2), m.group(3), m.group(4))
    groups[(k, what)].append((oid, d.get('detail', '')))
for (k, what), items in sorted(groups.items()):
    mn = sorted(set(re.match(r'C04:sem\[(.*?)\]', o).group(1) for o, _ in items))
    ex = []
    for o, d in items[:6]:
        mm = re.search(r'bytes ([0-9a-f]+)', d) or re.search(r'e\.g\. ([0-9a-f]+)', d)
        ex.append('%s -> %s' % (o.split(':', 2)[2], mm.group(1) if mm else '?'))
    print(json.dumps({'id': 'KF-C04-%s' % k, 'property': 'C04', 'obligations': [o for o, _ in items],
                      'what': '%s; %d obligations over: %s. Witnesses (instruction bytes; the counterexample state is in the replay file): %s' % (what, len(items), ', '.join(mn), '; '.join(ex))}))
