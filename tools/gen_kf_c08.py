#!/usr/bin/env python3
"""helper run BY HAND: candidate known-findings records for C08 from the replay files of the last run"""
import sys, json, re, glob, collections
groups = collections.defaultdict(list)
FL = ('cf', 'pf', 'af', 'zf', 'nf', 'of', 'df')
def klass(name, sig, clause, loc):
    if clause == 'write' and loc in FL: return 'undefined-flags', 'flags the processor leaves undefined (or sets) are missing from the write set: the semantics simply do not assign them'
    if clause == 'read' and loc in FL: return 'flags-passthrough', 'shift/rotate semantics overwrite flags unconditionally although a zero count preserves them: the old flag value is a dependency missing from the read set'
    if loc == 'mem': return 'memory-cells', 'the memory cell reported does not cover the bytes the processor accesses (bt* bit-string addressing, 16-bit stack forms using sp, maskmov store)'
    if sig == 'simd': return 'system-simd', 'fxsave/fxrstor/xsave/xrstor/ldmxcsr/stmxcsr/ficom/arpl are lifted as no-ops or stubs: their memory operand and its address registers are in neither set; blendv omits implicit xmm0, maskmov omits edi'
    return 'other', 'other'
for f in sorted(glob.glob('/verif/replay/C08_*')):
    try: d = json.loads(open(f).read().split('\n')[2][2:]) if f.endswith('.py') else json.load(open(f))
    except Exception: continue
    oid = d['obligation']
    m = re.match(r'C08:rw\[(.*?)\]:(.*):(read|write|operand):(.*)$', oid)
    if not m: continue
    k, what = klass(*m.groups())
    groups[(k, what)].append((oid, d.get('detail', '')))
for (k, what), items in sorted(groups.items()):
    mn = sorted(set(re.match(r'C08:rw\[(.*?)\]', o).group(1) for o, _ in items))
    ex = ['%s -> %s' % (o.split(':', 1)[1], (re.search(r'e\.g\. ([0-9a-f]+)', d) or [None, '?'])[1]) for o, d in items[:6]]
    print(json.dumps({'id': 'KF-C08-%s' % k, 'property': 'C08', 'obligations': [o for o, _ in items],
                      'what': '%s; %d obligations over: %s. Witnesses (instruction bytes): %s' % (what, len(items), ', '.join(mn), '; '.join(ex))}))
