#!/usr/bin/env python3
"""writes /verif/MANIFEST.json from the table below (kept as code so that it stays consistent)"""
import json, os
HERE = os.path.dirname(os.path.dirname(os.path.abspath(__file__)))
BASE_OFF = "cd /repo && /venv/bin/python -m pytest -ra -q -p no:cacheprovider --timeout=900 --continue-on-collection-errors"
CHECKS = {
 'C12': dict(cat='other', tech='frame contracts (modifies = documented outputs only) stated per call and checked as run-time contracts over bounded call histories in forked processes (probe repetition, fresh-copy comparison, table digest, parser-table cache scenarios); static frame obligations generated from the AST of the IR layer (store targets allocated in the same call are discharged, the rest is left to the dynamic frame clause)',
   text='Bounded stand-in for a whole-history property: 2000 (quick) / 50000 (thorough) seeded histories of up to 50 API calls (dis, both renderings, asm, asm_att, lift, expr_simp, get_r/get_w, eval_expr on five machines, eval_instr, calls that raise) over shared objects, each history in a process forked from one pristine parent; every argument must be structurally unchanged after every call, the probe call repeated after every step must return an equal result, and must return the same on fresh structurally equal objects; shared decode tables are digested before/after; the assembler must give identical results with an empty, warm, stale (4 grammar variants with the same rule names) and garbage parser-table cache directory. Static: 102 of 122 store sites of the IR layer are discharged syntactically (target allocated in the same call).',
   note='Not a proof: history independence has no contract-shaped statement without ghost state. A failing repetition is attributed to the memo flag that explains it (is_eval / simp on a node of the probe argument), so that the known finding (flag on shared register objects) does not hide a new leak on another node class.',
   ref='5 C12'),
 'C02': dict(cat='other', tech='bounded run-time contract on x86_mn.asm / asm_att ("every candidate decodes, with its full length, to exactly the requested instruction") over generated abstract instructions; reference = independent IA-32 spec decoder specs/x86dec.py; immediate and displacement boundary values; the immediate-fitting helper check_imm_size (+ imm_to_generic) and the displacement classifier ad_to_generic verified from their AST by VC generation (pyvc, z3; callee contracts of C14) for all immediates',
   text='Bounded, structurally complete over the operand-shape space: one abstract instruction per (mnemonic, operand kinds/sizes, register class, prefix set, addressing shape) from the spec decoding of the enumerated decoder trie (~3.5k quick / all register numbers and SIB bytes thorough), each rendered in Intel and AT&T syntax with the boundary immediates (-129..2^32-1) and displacements (-129..128); every returned candidate is decoded by the spec decoder and compared structurally (mnemonic class, operands modulo width, prefixes). Proved (493 obligations): ad_to_generic keeps every key, tags the displacement u08/s08/u32 only where the value fits and never loses the disp8 or disp32 form; check_imm_size returns None or a field whose zero-/sign-extension is congruent to the immediate modulo the width the form stands for - a value that does not fit excludes the form. Not a proof of the whole: the assembler search (asm_candidates, 400 lines of table matching) is outside the VC generator.',
   note='Trusted: specs/x86dec.py, the printer bounded/asmgen.py (forms it cannot print unambiguously are skipped: 16-bit addressing, relative/far operands, x87 in AT&T, string ops in AT&T). MMX/SSE: 5 operand forms per table row and mandatory prefix, reference GNU objdump (checks/asmsse.py).',
   ref='5 C02'),
 'C03': dict(cat='other', tech='bounded run-time contract on the composition dis . asm and asm . str . dis over generated instructions; canonical byte strings supplied by the real GNU assembler (as --32, executed as an external function)',
   text='Bounded: for every generated line and every candidate c: dis accepts c, consumes len(c), and asm(str(dis(c))) contains c. Converse: for every byte string of the corpus (and the boundary immediate/displacement variants assembled by GNU as) that GNU as reproduces from the reference rendering, asm(str(dis(b))) contains b. ~235k obligations quick.',
   note='Trusted: GNU as 2.40 as the reference assembler; specs/x86dec.py + bounded/asmgen.py for the reference rendering. MMX/SSE: 5 operand forms per table row and mandatory prefix, reference GNU objdump / GNU as (checks/asmsse.py).',
   ref='5 C03'),
 'C09': dict(cat='other', tech='bounded run-time contract on x86_mn.__str__ in both syntaxes: re-parse by the matching miasmX parser must contain the original bytes; for compiler-emittable instructions the real GNU assembler (both syntax modes, executed) must accept the text and produce an encoding of the same instruction (compared by the spec decoder)',
   text='Bounded over the same corpus as C03 (canonical encodings incl. boundary variants): Intel and AT&T renderings fed back to asm / asm_att; renderings without relative/far/absolute operands are assembled by GNU as in the matching mode and the output decoded by specs/x86dec.py must denote the same instruction. ~230k obligations quick.',
   note='Trusted: GNU as, specs/x86dec.py. The att_syntax objdump format is given to GNU as for every instruction and to asm_att where it keeps the mnemonic of the binutils format (asm_att has no size inference from registers); the intel objdump format is not exercised. MMX/SSE: 5 operand forms per table row and mandatory prefix, both renderings through GNU as and objdump (checks/asmsse.py).',
   ref='5 C09'),
 'C19': dict(cat='other', tech='bounded metamorphic run-time contract on asm / asm_att: set equality of candidates across generated presentation-only rewrites of each accepted line (no oracle beyond the rewrite rules); the term algebra of the operand parser (dict_add/dict_sub/dict_mul) verified from its AST by VC generation (pyvc, z3) against the linear-form view for all integer coefficients over every key shape',
   text='Bounded: for every generated accepted Intel line, 14 rewrites (upper-case registers incl. segment and ST(i), lower-case size keywords, spacing, tabs, hexadecimal 0x/0X immediates and displacements, signed/unsigned immediates at the operand width, index-first, displacement-first, displacement outside brackets, displacement split in two constants, scale-first, st vs st(0)) and the AT&T transliterations GNU as accepts (suffix written or implied, AT&T or Intel mnemonic) must give the same candidate set. 51k lines quick, 1.2M thorough. Proved (5807 obligations): dict_add/dict_sub/dict_mul compute the sum/difference/product of the linear forms their operands denote, keep the no-zero-coefficient invariant, for all coefficients (key sets bounded to eax, ebx, imm, one or two symbols).',
   note='Trusted: the rewrite rules in checks/asmfam.py + bounded/asmgen.py. An AT&T line without suffix that miasmX rejects is not counted when the suffixed line is accepted.',
   ref='5 C19'),
 'C14': dict(cat='proof', tech='contract-based deductive verification: VCs generated from the AST of every modint method (pyvc), discharged by z3; bounded native twins as cross-check',
   text='Every operator method of the 11 fixed-width classes is verified against the contract "exact result reduced mod 2^n into the wider operand type" for ALL operand values (one obligation per method x class pair x clause). Call sites use callee contracts (maxcast, constructors, __eq__/__lt__).',
   note='Trusted: z3 unsat answers; pyvc encoding of Python int semantics (floor div/mod, exact float constants); & | ^ << >> ** on unbounded ints as uninterpreted functions shared by code and spec; spec functions norm/wider. Shift counts/exponents >= 0, divisor != 0 are preconditions.',
   ref='5 C14'),
 'C05': dict(cat='other', tech='contracts on expr_simp checked per tree shape: real expr_simp on enumerated fresh trees, den(e) = den(simp e) proved for ALL valuations by z3 (shape-bounded SMT); helper parity() proved by VC generation (pyvc)',
   text='Shape-bounded, valuation-unbounded: for ~70k (quick) / ~300k (thorough) enumerated well-typed trees (every rewrite rule x boundary constants, all depth-1 trees, two-level operator trees, seeded random depth<=4) the real simplifier result is proved equal to the input for all valuations of identifiers and memory, same width, well-typed, argument nodes unmodified (frame), also with shared sub-term objects. Termination is a bounded observation (5 s per tree). _expr_simp/merge_sliceto_slice are not proved inductively.',
   note='Trusted: z3; the IR denotation liftvc/den.py (S-ir) cross-checked by the independent interpreter specs/irsem.py; flat memory. Bounded in tree shape and constants.',
   ref='5 C05'),
 'C06': dict(cat='other', tech='contract on eval_abs.eval_expr checked per (tree, state): real evaluator on fresh objects, den(result) = den(e) o S proved for ALL valuations of the free symbols by z3 (shape/state-bounded SMT); the linear constant evaluators eval_op_plus/mult/minus/and/or/xor/not/eq/inf/mullo/mulhi verified from their AST by VC generation (pyvc, z3; callee contracts of C14) for all operand values',
   text='For ~47k (quick) / ~600k (thorough) enumerated (expression, machine state) pairs - lifter operators incl. n-ary forms, depth-1 trees, rule templates, random trees; states binding each leaf to nothing / constants / a symbol / a compound - the evaluation result is proved equal to the substituted expression for all valuations, same width, and constant when every input is constant. eval_ExprOp/eval_ExprMem are not proved inductively.',
   note='Trusted: z3; IR denotation liftvc/den.py; independent interpreter specs/irsem.py for replays. Memory cells are bound at a free address symbol (overlap is C07). Known finding: named mul/div operators missing from the evaluator.',
   ref='5 C06'),
 'C13': dict(cat='other', tech='bounded run-time contracts on expr_simp (idempotence on fresh copies, permutation/re-association invariance), closed check of key_expr order laws, and sub-process runs under several PYTHONHASHSEED values',
   text='Bounded: every permutation x re-association of operand multisets (size 2,3 complete over a pool incl. segmented memory, conditionals sharing arms, slices, composes; seeded 4-subsets) must simplify to the identical expression; every corpus tree simplified twice (second time on a fresh copy) must be a fixpoint; rendered simplifications, lifted semantics and dump_id/dump_mem must be byte-identical across 5 hash seeds. Seed independence is a property of processes, not expressible as a per-call contract.',
   note='Bounded in operand pool, arity <= 4, shapes and seeds. key_expr order laws are decided completely on the pool (COMP).',
   ref='5 C13'),
 'C15': dict(cat='other', tech='run-time twins of the contracts of __eq__/__hash__/copy/visit/replace_expr/canonize over enumerated trees; value clauses (equal => same value, replace_expr = substitution, canonize preserves value) proved per tree for ALL valuations by z3',
   text='Bounded in shape: ~9k trees (quick) incl. segmented memory and ExprAff; per tree reflexivity, hash, deep-copy equality and freshness by identity walk, visit(identity), frames, canonize value and replace_expr-as-substitution (up to 7 maps, incl. a map that hits only a segment selector) discharged by z3 for all valuations; per pool symmetry, !=, eq=>hash, eq=>same value, transitivity. The per-class inductive proofs sketched in DESIGN are not claimed.',
   note='Trusted: z3, liftvc/den.py, the structural read-back undesc (independent of the repo __eq__). replace_expr maps restricted to identifier keys and to a memory key only when it is the only cell of the tree (aliasing).',
   ref='5 C15'),
 'C16': dict(cat='other', tech='run-time twins of the contracts of get_r/get_w/get_expr_ids/MatchExpr; every identifier or memory cell missing from a read set must be proved non-interfering by z3 for all valuations; matching compared with an independent reference matcher on instances built by substitution and on single-point mutations',
   text='Bounded in shape: read sets of ~9k trees (incl. nested memory reads, segmented cells, assignments with slice destinations) under mem_read=True/False; omissions are only accepted with a z3 proof of independence for all valuations. MatchExpr: 60+ patterns per width x bindings x mutations, soundness, completeness on instances, rejection of non-instances, repeated wildcards, and history independence between calls.',
   note='Trusted: z3, liftvc/den.py (a segment selector other than es/cs/ss/ds influences the address), the reference matcher is_instance.',
   ref='5 C16'),
 'C11': dict(cat='other', tech='contract "raises nothing, returns well-formed IR" on get_instr_expr / every semantic function, decided by computation on the returned tree for every operand shape of the structurally enumerated decoder space; value clauses (flag in {0,1}, overlapping cells) by z3',
   text='Complete over the enumerated operand-shape space: every opcode path of the decoder trie x prefix sets x all ModRM x SIB grid gives ~270k instances (one per mnemonic/size/prefix/operand-shape), each lifted by the real code and checked against the well-formedness rules written from the property text. Failures are grouped by (mnemonic, clause, site in the IR); the 315 sites failing on the pinned tree are listed as known findings, anything else is a violation.',
   note='Trusted: specs/irwf.py, z3. Register numbers inside memory operands and immediates are not varied (the IR shape does not depend on them except where the lifter inspects them). An element wider than its concatenation slot is not flagged (the property only demands tiling).',
   ref='5 C11'),
 'C04': dict(cat='proof', tech='contract-based: the real semantic functions and dict_to_Expr are executed on decoder instances, the returned IR is translated by the IR denotation and each output is proved equal to a hand-written IA-32 spec for ALL machine states by z3 (SMT-B)',
   text='One obligation per (mnemonic, operand signature, output, case): 8 general registers, segment registers, CF PF AF ZF SF OF DF, memory as a whole and the control-flow outcome, for 135 integer-core mnemonics over ~37k decoder instances (register classes, addressing structures, 8/16/32 bit, 66/64 prefixes). Each is a z3 validity query over a fully symbolic state (registers, flags, memory array). Architecturally undefined flags generate no obligation; "count = 0 leaves flags unchanged" does. 868 obligations fail on the pinned tree and are listed as known findings (AF formula, shift/rotate flags, 16-bit stack forms, ...); everything else is proved.',
   note='Trusted: z3; liftvc/den.py (S-ir); specs/x86sem.py (IA-32 spec written from the SDM); flat es/cs/ss/ds, no faults (#DE excluded), single step of string instructions; register numbers sampled by class, immediates from enumeration paddings (uniformity of the lifter in immediates is assumed, not proved).',
   ref='5 C04'),
 'C08': dict(cat='other', tech='read/write sets read off the real lifted assignments are checked against non-interference of a hand-written IA-32 spec: for every location missing from a set, z3 proves for ALL states that the spec does not depend on / does not modify it; SIMD/x87 by an architectural operand table',
   text='Integer core: per decoder instance (as C04) and per architectural location (8 registers, 7 flags, 6 segment registers) one z3 query; loaded/stored bytes must lie inside reported memory cells for all states. x87/MMX/SSE: explicit operands, address registers and the implicit operands of maskmov/blendv/comis must be reported. 1283 obligations fail on the pinned tree (undefined flags not in the write set, shift flags pass-through, stub semantics of fxsave & co.) and are known findings.',
   note='Trusted: z3; specs/x86sem.py; the SIMD exception list. Flags the architecture leaves undefined count as modified. prefetch*/clflush operands are hints and not required.',
   ref='5 C08'),
 'C07': dict(cat='other', tech='eval_abs.rest_slice (gap finder of overlapping reads) verified from its AST by VC generation (pyvc, z3) for all bounds, 1..4 cells; history-bounded SMT: the real symbolic machine (eval_instr / eval_ExprMem / emul_lines) executes store/load histories and instruction sequences; every register expression and memory read-back is proved equal to a byte-addressed sequential reference for ALL valuations of the initial symbols by z3',
   text='Bounded in histories, unbounded in values: ~2000 store/load histories (widths 8/16/32, offsets, constant and symbolic base, overlapping reads), ~600 instruction sequences of length 1..12 compared with the sequential composition of the lifted semantics (each instruction reading its pre-state), rep/repe/repne with concrete counts incl. 0 and the 0x1000 cap. Cross-base aliasing is a fixed obligation family listed as a known finding; sequences are compared under a disjoint-bases premise.',
   note='Trusted: z3, liftvc/den.py. The alias decisions of get_mem_overlapping go through expr_simp and are not proved inductively. Termination is a bounded observation (20 s per history).',
   ref='5 C07'),
 'C18': dict(cat='proof', tech='the real mask/decode/encode methods of ppc_arch are executed on a symbolic 32-bit word (proxy that forks on every truth test); uniqueness of the claiming class (3321 pairs) and decode/re-encode identity (82 classes) are z3 validity queries over all 2^32 words; opcode map by closed computation against a hand-written PowerPC table; text round trip bounded',
   text='Proved for all 2^32 words: no two instruction classes claim the same word; for every class, check(w) implies bin(decode(w)) == w. Complete over 64 primary x 1024 extended opcodes x Rc/LK x field patterns: claiming class and mnemonic vs the PowerPC UISA table, str() total. Bounded over the same enumeration: asm(str(ppc_mn(w))) == w. 48 obligations (wrong/missing names, renderer crashes, conditional-branch text) are known findings.',
   note='Trusted: z3; the SymWord proxy (CPython runs the real methods identically on it); the S-ppc table in checks/C18.py (words outside it are outside the compared domain).',
   ref='5 C18'),
 'C01': dict(cat='other', tech='contract "accepted => equal to the IA-32 decoding" on x86_mn._dis checked on a structurally exhaustive enumeration against an independent spec decoder written from the SDM opcode maps; for the MMX/SSE maps the reference decoder is the real GNU objdump (executed on the enumerated strings in NOP-padded slots; length, mnemonic and normalised operand text compared); ModRM/SIB table builders checked completely by computation',
   text='6.8M byte strings (every opcode path of the decoder trie x prefix sets x every ModRM x SIB grid x data paddings); the 1.6M that lie in the spec domain (one-byte map, integer/system 0F map, x87; no superfluous prefix) are compared field by field: length, raw bytes, mnemonic, operand kinds, registers, base/index/scale, displacement, segment, immediate value, operand size. init_pre_modrm is compared with SDM tables 2-1..2-3 on all 65 792 + 256 entries and the reverse table fd_afs entry by entry. 65 disagreement groups are known findings.',
   note='Trusted: specs/x86dec.py; GNU objdump 2.40 and the text normalisation of checks/C01sse.py for the MMX/SSE maps (693k strings compared; strings objdump rejects or reads with a superfluous prefix are outside the domain, as the quantifier says). _dis itself is not proved.',
   ref='5 C01'),
 'C10': dict(cat='other', tech='readbs contract proved by VC generation from its AST (pyvc, z3) + static frame obligation on the AST of _dis/get_afs (stream used only through readbs/offset); totality of dis/asm/asm_att as bounded run-time contracts over structured and random inputs',
   text='Proved for all offsets/lengths: readbs raises IOError iff the request exceeds the buffer, otherwise returns exactly bin[offset:offset+l] and advances the offset; the slice never leaves the sequence. Static: _dis/get_afs touch the stream only via readbs()/offset. Bounded: 1.4M byte strings (structured + random, stream offsets, all truncations) never crash dis, accepted instructions render in both syntaxes; 170k token sequences make asm/asm_att return a list or raise ValueError. 238 crash/rendering classes are known findings.',
   note='Trusted: z3, pyvc and its opaque-sequence model of bytes; the fuzz populations use fixed internal seeds so that the known-findings list stays exact.',
   ref='5 C10'),
 'C17': dict(cat='other', tech='getnextflow/getdstflow verified from their AST by VC generation (pyvc, z3; callee contracts of the modint operators proved in C14); flow attribute table decided completely by computation against the architectural classification; displacement decoding end to end bounded',
   text='Proved for all offsets < 2^32, lengths and displacement values: getnextflow() == offset + l and getdstflow() == [(offset + l + imm) mod 2^opsize] for the three operand-type shapes the decoder produces. Complete: all 769 table rows have the architectural (breakflow, splitflow, dstflow). Bounded: 21k (branch encoding, prefix, displacement boundary, offset incl. 2^32-1) cases against the spec decoder. 17 obligations (0x66-prefixed jcc/call decoded with rel32) are a known finding.',
   note='Trusted: z3, pyvc, contracts.modint, specs/x86dec.py. sysenter/sysexit/syscall/sysret excluded as the property says.',
   ref='5 C17'),
}
NOT_YET = {}
ALL = ['C%02d' % i for i in range(1, 20)]
def main():
    checks = []
    for pid in ALL:
        if pid not in CHECKS: continue
        c = CHECKS[pid]
        checks.append({
            'property_id': pid,
            'quick_cmd': './vcheck %s --tier quick' % pid,
            'thorough_cmd': './vcheck %s --tier thorough' % pid,
            'evidence_file': 'evidence/%s.json' % pid,
            'replay_cmd_template': '/venv/bin/python {path}',
            'engine': c.get('engine', 'vcheck'),
            'level_claimed': {'category': c['cat'], 'text': c['text'], 'design_ref': 'DESIGN.md section ' + c['ref']},
            'level_note': c['note'],
            'technique': c['tech'],
        })
    na = [{'property_id': p, 'reason': NOT_YET.get(p, 'check not built yet (work in progress; see DESIGN.md section 10 for the order of work)')}
          for p in ALL if p not in CHECKS]
    m = {
        'version': 1,
        'setup_cmd': './vcheck setup',
        'hooks': {'guard': 'LRGH_MIASMX_VERIF', 'enable': 'unused: contracts are sidecar files under /verif/contracts, /repo is not instrumented',
                  'baseline_off_cmd': BASE_OFF, 'source_commits': [], 'add_only': True},
        'engines': [
            {'name': 'liftvc', 'path': 'liftvc/', 'serves_properties': ['C04', 'C07', 'C08', 'C18', 'C05', 'C06', 'C15', 'C16', 'C11'], 'kind_free_text': 'Engine B: IR denotation den() as z3 bit-vectors; equivalence / refinement queries over all machine states'},
            {'name': 'pyvc', 'path': 'pyvc/', 'serves_properties': ['C14', 'C05', 'C10', 'C17'], 'kind_free_text': 'Engine A: AST -> verification conditions (symbolic execution with callee contracts), z3'},
        ],
        'checks': checks,
        'notes': 'single entry point ./vcheck; known findings in known_findings.jsonl; see DESIGN.md',
        'not_applicable': na,
    }
    json.dump(m, open(os.path.join(HERE, 'MANIFEST.json'), 'w'), indent=1)
    print('wrote MANIFEST.json with', len(checks), 'checks')
if __name__ == '__main__':
    main()
