#!/bin/bash
# usage: try_mutant.sh <patch.diff> <Cxx> [<Cxx>...]   -- applies the patch to /repo, runs the quick checks, reverts
patch="$1"; shift
cd /repo || exit 3
if ! git diff --quiet; then echo "/repo is dirty"; exit 3; fi
if ! git apply --check "$patch" 2>/dev/null; then
  if ! git apply --3way "$patch" 2>/dev/null; then echo "PATCH DOES NOT APPLY: $patch"; git reset -q --hard HEAD; exit 4; fi
  git reset -q
else
  git apply "$patch"
fi
for c in "$@"; do
  out=$(cd /verif && ./vcheck "$c" --tier ${TIER:-quick} 2>&1); rc=$?
  echo "== $c rc=$rc $(echo "$out" | grep -c '^VIOLATION') violation lines"
  echo "$out" | grep -E "^VIOLATION|^  obligation|CHECKER|UNDECIDED" | head -${SHOW:-4} | cut -c1-400
  echo "$out" | tail -1
done
git -C /repo reset -q --hard HEAD
git -C /verif checkout -- evidence 2>/dev/null
