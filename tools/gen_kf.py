#!/usr/bin/env python3
"""helper run BY HAND (never by a check): turns the failing obligations of the last run of a check into candidate
known-findings records, grouped by clause, for review before they are appended to known_findings.jsonl"""
import sys, json, re, glob, collections
prop = sys.argv[1]
WHAT = {
 'noraise': 'lifting raises an exception for a decodable instruction',
 'opwidth': 'operands of a + - * & | ^ == (or a shift count wider than its value) have different widths in the lifted IR',
 'srcwidth': 'the source of an assignment is not as wide as its destination (and the destination is not a 1-bit flag)',
 'cond-arms': 'the two arms of a conditional have different widths (no determinate width)',
 'overlap': 'two assignments of one instruction write the same register / overlapping storage',
 'flag01': 'a 1-bit flag receives a wider expression whose value is not always 0 or 1',
 'width': 'a sub-expression has no determinate width',
 'slice': 'a slice lies outside its operand',
 'compose-tiling': 'concatenation slots do not tile the result',
 'nested-assignment': 'an assignment occurs inside a source expression',
}
groups = collections.defaultdict(list)
for f in sorted(glob.glob('/verif/replay/%s_*.py' % prop)):
    l = open(f).read().split('\n')[2]
    try: d = json.loads(l[2:])
    except Exception: continue
    oid = d['obligation']
    m = re.match(r'%s:lift\[(.*?)\]:([^:]+):(.*)$' % prop, oid)
    if not m: continue
    groups[m.group(2)].append((oid, d['detail']))
for clause, items in sorted(groups.items()):
    mn = sorted(set(re.match(r'%s:lift\[(.*?)\]' % prop, o).group(1) for o, _ in items))
    rec = {'id': 'KF-%s-%s' % (prop, clause), 'property': prop, 'obligations': [o for o, _ in items],
           'what': '%s; %d sites in the semantics of: %s. Witnesses (instruction bytes): %s' % (
               WHAT.get(clause, clause), len(items), ', '.join(mn), '; '.join('%s -> %s' % (o.split(':', 2)[2], re.search(r'e\.g\. ([0-9a-f]+)', d).group(1)) for o, d in items[:12]))}
    print(json.dumps(rec))
