#!/usr/bin/env python3
"""helper run BY HAND: candidate known-findings records for C18 from the replay files of the last runs"""
import sys, json, re, glob, collections
WHAT = {
 'map': 'the mnemonic differs from the one the PowerPC architecture assigns to the opcode (LFDS for lfs, FMABS for fnabs, ECIW/ECOW/LHBR without the X, STFDUX for all of stfdx/stfsx/stfsux/stfiwx, extended opcode 371 mftb decoded as MFSPR)',
 'map-reserved': 'a word with no architected instruction at its primary/extended opcode is decoded (EXTSW at 31/986, MCRFS at 19/64)',
 'name': 'name2str() raises for words the class claims (index into a one-element name list with an opcode field, missing name2str on ppc_rlwnm, opcode missing from a name dictionary)',
 'render': 'str() raises for a decodable word',
 'text': 'assembling the rendered text does not give back the word (conditional-branch renderings: BO/BI hint bits and the AA/LK suffix order are lost or not parsable)',
}
groups = collections.defaultdict(list)
for f in sorted(glob.glob('/verif/replay/C18_*.py')):
    try: d = json.loads(open(f).read().split('\n')[2][2:])
    except Exception: continue
    oid = d['obligation']
    clause = oid.split(':')[1].split('[')[0]
    groups[clause].append((oid, d))
for clause, items in sorted(groups.items()):
    print(json.dumps({'id': 'KF-C18-%s' % clause, 'property': 'C18', 'obligations': sorted(set(o for o, _ in items)),
                      'what': '%s; %d obligations. Witness words: %s' % (WHAT.get(clause, clause), len(items), '; '.join('%s -> %s' % (o.split(':', 1)[1], d.get('word')) for o, d in items[:10]))}))
