"""C11 - every decodable instruction lifts to well-typed IR.

Contract on emul_helper.get_instr_expr (and thereby on every semantic function and dict_to_Expr): raises nothing;
ensures wf_list(result) (specs/irwf.py, written from the property text).  wf is a decidable predicate of the returned
tree, so each instance is decided by computation (COMP); the two clauses that speak about values (a 1-bit flag receives
a wider expression only if it is always 0/1; two written memory cells never overlap) are discharged by z3 for all states.
Instances: structural enumeration of the decoder's input space (bounded/x86enum.py), one instance per operand shape.
"""
import sys, os, time, random, itertools, multiprocessing, traceback, binascii, collections
from vlib import common
from vlib.common import Run, DISCHARGED, FAILED, BOUNDED_OK, UNDECIDED, DOWNGRADED, ENGINE_ERR, Ob

REPLAY = '''
import sys, os
sys.path.insert(0, %(verif)r); sys.path.insert(0, %(repo)r)
sys.dont_write_bytecode = True
from checks import C11
sys.exit(C11.replay(%(hexbytes)r, %(clause)r, %(site)r))
'''

def lift(ins, next_eip=None):
    from miasmx.tools import emul_helper
    from miasmx.tools.modint import uint32
    from miasmx.expression.expression import ExprInt
    if next_eip is None:
        next_eip = ExprInt(uint32((ins.offset + ins.l) & 0xffffffff))
    import contextlib, io
    with contextlib.redirect_stdout(io.StringIO()):     # sidt() prints
        return emul_helper.get_instr_expr(ins, next_eip, [])

def has_semantics(ins):
    from miasmx.arch.ia32_sem import mnemo_func
    return ins.m.name in mnemo_func or '#' in ins.m.name

def exc_site(ex):
    import re
    msg = str(ex)
    msg = re.sub(r'0x[0-9a-fA-F]+|\d+', 'N', msg)[:60]
    tb = traceback.extract_tb(ex.__traceback__)
    where = ''
    for fr in reversed(tb):
        if '/miasmx/' in fr.filename:
            where = '%s' % (fr.name,)
            break
    return '%s@%s:%s' % (type(ex).__name__, where, msg)

def default_args_issue(ins, affs):
    """the documented observation point get_instr_expr(instr, next_eip) (operand list left to its default) gives, call after call, the
       assignments of the explicit three-argument form"""
    from miasmx.tools import emul_helper
    from miasmx.tools.modint import uint32
    from miasmx.expression.expression import ExprInt
    import contextlib, io
    nxt = ExprInt(uint32((ins.offset + ins.l) & 0xffffffff))
    want = [str(a) for a in affs]
    try:
        with contextlib.redirect_stdout(io.StringIO()):
            for k in (1, 2):
                got = [str(a) for a in emul_helper.get_instr_expr(ins, nxt)]
                if got != want:
                    return [('default-args', 'differs', 'call %d of get_instr_expr(instr, next_eip) returns %s, the explicit operand list form %s' % (k, got[:3], want[:3]))]
    except Exception as ex:
        return [('default-args', exc_site(ex), 'get_instr_expr(instr, next_eip) raised %s: %s' % (type(ex).__name__, str(ex)[:150]))]
    return []

def check_instance(ins, solver=True):
    """returns list of (clause, site, message)"""
    from specs import irwf
    try:
        affs = lift(ins)
    except Exception as ex:
        return [('noraise', exc_site(ex), 'get_instr_expr raised %s: %s' % (type(ex).__name__, str(ex)[:200]))]
    issues, pending = irwf.wf_list(affs)
    issues = list(issues) + default_args_issue(ins, affs)
    if pending and solver:
        import z3
        from liftvc import den as D
        for p in pending:
            try:
                if p[0] == 'flag01':
                    a = p[1]
                    st = D.State()
                    v = D.den(a.src, st)
                    s = z3.SolverFor('QF_AUFBV'); s.set('timeout', 10000)
                    s.add(z3.UGT(v, z3.BitVecVal(1, v.size())))
                    r = s.check()
                    if r == z3.sat:
                        issues.append(('flag01', '%s:%s' % (a.dst.name, irwf.width(a.src)), 'flag %s receives a %d-bit expression that is not always 0/1: %s' % (
                            a.dst.name, irwf.width(a.src), a.src)))
                    elif r != z3.unsat:
                        issues.append(('flag01?', a.dst.name, None))
                elif p[0] == 'memoverlap':
                    a, b = p[1], p[2]
                    st = D.State()
                    aa, ab = D.address(a.dst, st), D.address(b.dst, st)
                    na, nb = (a.dst.size + 7) // 8, (b.dst.size + 7) // 8
                    # ranges [aa, aa+na) and [ab, ab+nb) intersect for some state (mod 2^32)
                    s = z3.SolverFor('QF_AUFBV'); s.set('timeout', 10000)
                    s.add(z3.Or(z3.ULT(ab - aa, z3.BitVecVal(na, 32)), z3.ULT(aa - ab, z3.BitVecVal(nb, 32))))
                    # the lifter's own aliasing: identical address expressions are the blatant case; otherwise only report
                    # when the cells overlap for EVERY state (a may-alias between independent operands is not a defect of the IR)
                    s2 = z3.SolverFor('QF_AUFBV'); s2.set('timeout', 10000)
                    s2.add(z3.Not(z3.Or(z3.ULT(ab - aa, z3.BitVecVal(na, 32)), z3.ULT(aa - ab, z3.BitVecVal(nb, 32)))))
                    r2 = s2.check()
                    if r2 == z3.unsat:
                        issues.append(('overlap', '@%s,@%s' % (a.dst.size, b.dst.size), 'two assignments write overlapping memory cells in every state: %s and %s' % (a.dst, b.dst)))
            except D.IllTyped:
                pass
            except Exception as ex:
                issues.append(('engine', 'pending', 'solver step failed: %r' % (ex,)))
    return issues

def replay(hexbytes, clause, site):
    from miasmx.arch.ia32_arch import x86mnemo
    from bounded import x86enum
    x86enum.quiet()
    ins = x86mnemo.dis(binascii.unhexlify(hexbytes))
    print('instruction:', safe_str(ins), '(opmode %s, admode %s)' % (ins.opmode, ins.admode))
    try:
        affs = lift(ins)
        for a in affs:
            print('   ', a)
    except Exception as ex:
        print('lifting raised %s: %s' % (type(ex).__name__, ex))
    try:
        issues = check_instance(ins, solver=False)
    except Exception as ex:
        print('checker failed', ex); return 3
    for i in issues:
        print('issue:', i)
    if clause in ('flag01', 'overlap') and not any(i[0] == clause for i in issues):
        # solver-decided clauses: replay with the solver when it is importable, else accept the recorded verdict
        try:
            issues = check_instance(ins, solver=True)
        except ImportError:
            print('(z3 not importable in this interpreter: the clause was decided by the check itself)')
            return 1
    return 1 if any(i[0] == clause and i[1] == site for i in issues) else 0

def safe_str(ins):
    try:
        return str(ins)
    except Exception as ex:
        return '<%s: rendering raises %s>' % (ins.m.name, type(ex).__name__)

def _work(job):
    idx, nparts, tier = job
    common.use_repo()
    from bounded import x86enum
    x86enum.quiet()
    L = x86enum.leaves()
    sub = L[idx::nparts]
    prefixes = [(), (0x66,), (0x67,), (0xF3,)] if tier == 'quick' else x86enum.PREFIX_SETS
    out = {'n': 0, 'lifted': 0, 'ok': 0, 'groups': {}, 'nolift': 0, 'decexc': 0, 'mnemos': set(), 'engine': []}
    for b, ins in x86enum.instances(sub, prefixes=prefixes, smart=(tier == 'quick'), full_sib=(tier != 'quick')):
        if isinstance(ins, Exception):
            out['decexc'] += 1       # decoder crashes are C10's business
            continue
        out['n'] += 1
        if not has_semantics(ins):
            out['nolift'] += 1
            continue
        out['lifted'] += 1
        out['mnemos'].add(ins.m.name)
        try:
            issues = check_instance(ins)
        except Exception:
            out['engine'].append((binascii.hexlify(b).decode(), traceback.format_exc()[-500:]))
            continue
        real = [i for i in issues if i[2] is not None and i[0] != 'engine']
        for i in issues:
            if i[0] == 'engine':
                out['engine'].append((binascii.hexlify(b).decode(), i[2]))
        if not real:
            out['ok'] += 1
        for (clause, site, msg) in real:
            k = (ins.m.name, clause, site)
            g = out['groups'].setdefault(k, [0, binascii.hexlify(b).decode(), msg, safe_str(ins)])
            g[0] += 1
            if len(b) < len(g[1]) // 2:
                g[1], g[2], g[3] = binascii.hexlify(b).decode(), msg, safe_str(ins)
    return out

def main(argv):
    tier, seed, rest = common.parse_args(argv)
    common.use_repo()
    run = Run('C11', tier, seed, 'other', 'cd /verif && ./vcheck C11 --tier %s' % tier)
    nparts = 64
    with multiprocessing.get_context('fork').Pool(min(16, os.cpu_count() or 4)) as pool:
        results = pool.map(_work, [(i, nparts, tier) for i in range(nparts)], chunksize=1)
    groups = {}
    for r in results:
        for k, g in r['groups'].items():
            G = groups.setdefault(k, [0, g[1], g[2], g[3]])
            G[0] += g[0]
            if len(g[1]) < len(G[1]):
                G[1], G[2], G[3] = g[1], g[2], g[3]
    n = sum(r['n'] for r in results)
    lifted = sum(r['lifted'] for r in results)
    ok = sum(r['ok'] for r in results)
    for r in results:
        for hx, msg in r['engine'][:3]:
            run.ob('C11:engine[%s]' % hx, ENGINE_ERR, 'COMP', 'cpython', detail=msg)
    run.bulk('instances whose lifted IR is well-formed', ok, 'COMP', 'cpython+z3', 0.0, DISCHARGED)
    nrep = 0
    for (mn, clause, site), (cnt, hx, msg, txt) in sorted(groups.items()):
        oid = 'C11:lift[%s]:%s:%s' % (mn, clause, site)
        detail = '%d instances, e.g. %s (%s): %s' % (cnt, hx, txt.strip(), msg)
        nrep += 1
        script = REPLAY % dict(verif=common.VERIF, repo=common.REPO, hexbytes=hx, clause=clause, site=site)
        rp = run.write_replay(oid, {'obligation': oid, 'detail': detail}, script)
        if nrep <= 40:
            rc, outp = common.native_run(rp, timeout=60)
            if rc != 1:
                run.ob(oid, ENGINE_ERR, 'COMP', 'cpython', detail='native replay does not confirm (rc=%s): %s | %s' % (rc, detail, outp[-300:]))
                continue
        run.ob(oid, FAILED, 'COMP', 'cpython+z3', detail=detail, witness=rp, confirmed=True, func=mn)
    # the slice-destination rewrite of ExprAff and slice_rest, from their ASTs (Engine A)
    try:
        from checks import C11smt
        C11smt.ob_smt(run)
    except Exception as ex:
        import traceback
        run.ob('C11:smt:driver', ENGINE_ERR, 'SMT-A', 'pyvc', detail='%s: %s | %s' % (type(ex).__name__, ex, traceback.format_exc()[-400:]))
    run.evaluations = n
    run.distinct = lifted
    mn = set()
    for r in results: mn |= r['mnemos']
    run.extra['instances_decoded'] = n
    run.extra['instances_with_lifted_semantics'] = lifted
    run.extra['instances_without_semantics'] = sum(r['nolift'] for r in results)
    run.extra['mnemonics_lifted'] = len(mn)
    run.extra['failure_groups'] = len(groups)
    run.rule = ('every opcode path of the decoder trie (%s leaves) x prefix sets %s x every ModRM byte x SIB grid x padding; one instance per operand shape '
                '(mnemonic, operand/address size, prefixes, per operand: kind, size, register number for register operands, base/index/scale structure for memory operands); '
                'each instance with lifted semantics is lifted by the real get_instr_expr and the returned tree is checked against wf (specs/irwf.py); failures are grouped by '
                '(mnemonic, clause, site in the IR)' % (6769, '{none,66,67,F3}' if tier == 'quick' else 'all 10'))
    run.explanation = ('complete over the enumerated operand-shape space (well-formedness is decidable on the returned tree; value clauses by z3 for all states); '
                       'immediates/displacements are drawn from boundary paddings and the shape of the IR does not depend on them except where the lifter inspects them')
    run.samples = ['%s:%s:%s (%d instances, e.g. %s)' % (k[0], k[1], k[2], v[0], v[1]) for k, v in list(sorted(groups.items()))[:6]] or ['all instances well-formed']
    run.trust('specs/irwf.py (well-formedness rules from the property text)'); run.trust('z3 for the flag-value and overlap clauses')
    run.assume('one instance per operand shape: register numbers inside memory operands are not varied in the quick tier')
    return run.finish()

if __name__ == '__main__':
    sys.exit(main(sys.argv[1:]))
