"""SMT-A part of C11: the slice-destination rewrite of ExprAff (two anchors of the property: "ExprAff slice-destination rewrite", "no width checks in
constructors"), verified from the ASTs of slice_rest and ExprAff.__init__.

  slice_rest(size, start, stop)    raises ValueError iff start >= size or stop > size; otherwise (0 <= start <= stop) the returned intervals are
                                   non-empty, ascending, inside [0, size), disjoint from [start, stop) and cover the rest of [0, size).
  ExprAff(X[start:stop], src)      for 0 <= start < stop <= size(X): the node's destination is X and its source is a composition whose parts, in
                                   ascending order, tile [0, size(X)) exactly: `src` at [start, stop), and X[lo:hi] at every other [lo, hi)
                                   (so the assignment to the whole register leaves the bits outside the slice unchanged).  slice_rest is used
                                   through its contract (modular), the constructors of ExprSlice / ExprCompose run inline, sorted() forks on the keys.
  ExprAff(dst, src), dst no slice  destination and source stored unchanged.
"""
import sys, os
from vlib import common
from vlib.common import DISCHARGED, FAILED, DOWNGRADED, ENGINE_ERR, BOUNDED_OK

REPLAY = '''
import sys, os
sys.path.insert(0, %(verif)r); sys.path.insert(0, %(repo)r)
sys.dont_write_bytecode = True
from checks import C11smt
sys.exit(C11smt.replay(%(data)r))
'''
XM = 'miasmx.expression.expression'
QR = XM + ':slice_rest'
QA = XM + ':ExprAff.__init__'

def rest_ok(size, start, stop, res):
    if not isinstance(res, list): return False
    tot = 0; last = 0
    for it in res:
        if not (isinstance(it, tuple) and len(it) == 2): return False
        lo, hi = it
        if not (last <= lo < hi <= size) or not (hi <= start or lo >= stop or start == stop): return False
        tot += hi - lo; last = hi
    return tot == size - (stop - start)

def native_rest(size, start, stop):
    from miasmx.expression.expression import slice_rest
    bad = start >= size or stop > size
    try:
        res = slice_rest(size, start, stop)
    except ValueError:
        return None if bad else 'slice_rest(%d, %d, %d) raised ValueError' % (size, start, stop)
    except Exception as ex:
        return 'slice_rest(%d, %d, %d) raised %s: %s' % (size, start, stop, type(ex).__name__, ex)
    if bad: return 'slice_rest(%d, %d, %d) = %s instead of ValueError' % (size, start, stop, res)
    if not rest_ok(size, start, stop, res): return 'slice_rest(%d, %d, %d) = %s: not the rest of the range' % (size, start, stop, res)
    return None

def native_aff(size, start, stop):
    from miasmx.expression.expression import ExprId, ExprAff, ExprSlice, ExprCompose
    X = ExprId('X', size); S = ExprId('S', stop - start)
    try:
        a = ExprAff(ExprSlice(X, start, stop), S)
    except Exception as ex:
        return 'ExprAff(X[%d:%d], S) raised %s: %s' % (start, stop, type(ex).__name__, ex)
    if a.dst is not X: return 'destination of ExprAff(X[%d:%d], S) is %s' % (start, stop, a.dst)
    if not isinstance(a.src, ExprCompose): return 'source of ExprAff(X[%d:%d], S) is %s' % (start, stop, a.src)
    last = 0; seen = False
    for (e, lo, hi) in a.src.args:
        if lo != last or hi <= lo: return 'parts of %s do not tile [0,%d)' % (a.src, size)
        if (lo, hi) == (start, stop) and e is S: seen = True
        elif not (isinstance(e, ExprSlice) and e.arg is X and (e.start, e.stop) == (lo, hi)): return 'part %s at [%d,%d) of %s is not the old content of these bits' % (e, lo, hi, a.src)
        last = hi
    if last != size or not seen: return 'parts of %s do not tile [0,%d) with the source at [%d,%d)' % (a.src, size, start, stop)
    return None

def replay(data):
    common.use_repo()
    msg = (native_rest if data['fn'] == 'rest' else native_aff)(data['size'], data['start'], data['stop'])
    print(msg or 'contract holds on this input')
    return 1 if msg else 0

def ob_smt(run):
    import z3
    from pyvc import engine
    from pyvc.engine import is_sym
    from pyvc.runner import resolve
    from pyvc.contract import Contract, SObj
    from specs.duck import And, Or, Not
    import miasmx.expression.expression as X
    n = [0]
    def emit(base, V, QN, fn, ins_default=None):
        if V.unsupported:
            run.ob(base + ':generate', DOWNGRADED, 'SMT-A', 'pyvc', detail=V.unsupported, func=QN); return
        if not V.cover or (V.returns == 0 and not V.raises):
            run.ob(base + ':cover', ENGINE_ERR, 'SMT-A', 'z3', detail='no feasible path', func=QN); return
        for cl, d in sorted(V.clauses.items()):
            n[0] += 1
            oid = base + ':' + cl
            if d['status'] == 'unsat':
                run.ob(oid, DISCHARGED, 'SMT-A', 'z3', d['secs'], func=QN)
            elif d['status'] == 'sat':
                w = d['witness'] or {}
                try:
                    data = {'fn': fn, 'size': int(w['size']), 'start': int(w['start']), 'stop': int(w['stop'])}
                    msg = (native_rest if fn == 'rest' else native_aff)(data['size'], data['start'], data['stop'])
                except Exception as ex:
                    data, msg = {'fn': fn, 'size': 32, 'start': 0, 'stop': 8}, None
                rp = run.write_replay(oid, {'obligation': oid, 'inputs': w, 'verifier': d['detail']}, REPLAY % dict(verif=common.VERIF, repo=common.REPO, data=data))
                if msg is None:
                    run.ob(oid, DOWNGRADED, 'SMT-A', 'z3', d['secs'], detail='counter-model %s (%s) does not replay on the real function; bounded twin below' % (w, d['detail']), func=QN)
                else:
                    run.ob(oid, FAILED, 'SMT-A', 'z3', d['secs'], detail='%s; counterexample %s; native: %s' % (d['detail'], w, msg), witness=rp, confirmed=True, func=QN)
            else:
                run.ob(oid, DOWNGRADED, 'SMT-A', 'z3', d['secs'], detail='solver unknown', func=QN)
    # ---- slice_rest
    mod, node, seg, path = resolve(QR)
    run.function(QR, seg, path, node.lineno)
    def rest_post(ctx, res, size, start, stop):
        if not isinstance(res, list): return False
        cl = []; tot = 0; last = 0
        for it in res:
            if not (isinstance(it, tuple) and len(it) == 2): return False
            lo, hi = it
            cl += [last <= lo, lo < hi, hi <= size, Or(hi <= start, lo >= stop, start == stop)]
            tot = tot + (hi - lo); last = hi
        cl.append(tot == size - (stop - start))
        return And(*cl)
    bad = lambda ctx, size, start, stop: Or(start >= size, stop > size)
    def rest_result(ctx, size, start, stop):
        k = ctx.choose([0, 1, 2])
        return [(ctx.fresh_int('lo'), ctx.fresh_int('hi')) for _ in range(k)]
    rest_c = Contract(QR, pre=lambda ctx, size, start, stop: And(0 <= start, start <= stop), post=rest_post, raises={'ValueError': bad}, raises_iff=['ValueError'], result=rest_result)
    def mk_rest(ctx):
        ins = dict((k, z3.Int(k)) for k in ('size', 'start', 'stop'))
        return [ins['size'], ins['start'], ins['stop']], ins
    V = engine.verify_function(QR, node, vars(mod), rest_c, {}, mk_rest)
    emit('C11:slice_rest', V, QR, 'rest')
    # ---- ExprAff.__init__
    mod, node, seg, path = resolve(QA)
    run.function(QA, seg, path, node.lineno)
    C = {QR: rest_c}
    for k in ('ExprSlice', 'ExprCompose'):
        C['%s:%s.__init__' % (XM, k)] = Contract('%s.__init__' % k, inline=True)
    st = {}
    def mk_aff(ctx):
        ins = dict((k, z3.Int(k)) for k in ('size', 'start', 'stop'))
        Xr = SObj(X.ExprId, {'size': ins['size']}, fresh=False)
        dst = SObj(X.ExprSlice, {'arg': Xr, 'start': ins['start'], 'stop': ins['stop']}, fresh=False)
        src = SObj(X.ExprId, {}, fresh=False)
        st.update(X=Xr, src=src, **ins)
        return [SObj(X.ExprAff, {}, fresh=True), dst, src], ins
    def aff_pre(ctx, me, dst, src):
        return And(0 <= st['start'], st['start'] < st['stop'], st['stop'] <= st['size'])
    def aff_post(ctx, me, me2, dst, src):
        if me.fields.get('dst') is not st['X']: return False
        c = me.fields.get('src')
        if not (isinstance(c, SObj) and c.cls is X.ExprCompose and isinstance(c.fields.get('args'), list) and c.fields['args']): return False
        cl = []; last = 0; seen = 0
        for it in c.fields['args']:
            if not (isinstance(it, tuple) and len(it) == 3): return False
            e, lo, hi = it
            cl += [lo == last, lo < hi]
            if e is st['src']:
                seen += 1; cl += [lo == st['start'], hi == st['stop']]
            elif isinstance(e, SObj) and e.cls is X.ExprSlice and e.fields['arg'] is st['X']:
                cl += [e.fields['start'] == lo, e.fields['stop'] == hi]
            else:
                return False
            last = hi
        if seen != 1: return False
        cl.append(last == st['size'])
        return And(*cl)
    top = Contract(QA, pre=aff_pre, post=aff_post, result=lambda *a: None, frame=['self.dst', 'self.src'])
    V = engine.verify_function(QA, node, vars(mod), top, C, mk_aff)
    emit('C11:ExprAff.__init__[slice destination]', V, QA, 'aff')
    # destination that is no slice: stored unchanged
    for K in ('ExprId', 'ExprMem'):
        def mk_plain(ctx, K=K):
            d = SObj(getattr(X, K), {}, fresh=False); s_ = SObj(X.ExprId, {}, fresh=False)
            st.update(d=d, s=s_)
            return [SObj(X.ExprAff, {}, fresh=True), d, s_], {}
        top2 = Contract(QA, post=lambda ctx, me, me2, d, s_: me.fields.get('dst') is d and me.fields.get('src') is s_, result=lambda *a: None, frame=['self.dst', 'self.src'])
        V = engine.verify_function(QA, node, vars(mod), top2, C, mk_plain)
        emit('C11:ExprAff.__init__[%s destination]' % K, V, QA, 'aff')
    # ---- twins
    cnt = bad_n = 0
    for size in (1, 8, 16, 32, 64):
        for start in range(0, size + 2):
            for stop in range(start, size + 2):
                for (fn, f) in (('rest', native_rest), ('aff', native_aff)):
                    if fn == 'aff' and not (start < stop <= size): continue
                    cnt += 1
                    msg = f(size, start, stop)
                    if msg:
                        bad_n += 1
                        if bad_n <= 3:
                            oid = 'C11:%s:twin[%d,%d,%d]' % ('slice_rest' if fn == 'rest' else 'ExprAff.__init__', size, start, stop)
                            rp = run.write_replay(oid, {'obligation': oid}, REPLAY % dict(verif=common.VERIF, repo=common.REPO, data={'fn': fn, 'size': size, 'start': start, 'stop': stop}))
                            run.ob(oid, FAILED, 'BND', 'cpython-enum', detail=msg, witness=rp, confirmed=True, func=QR if fn == 'rest' else QA)
    run.bulk('slice_rest / ExprAff(slice destination) on every slice of 1/8/16/32/64-bit registers (native twin)', cnt - bad_n, 'BND', 'cpython-enum', 0.0, BOUNDED_OK)
    return n[0]
