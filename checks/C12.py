"""C12 - API results depend only on explicit inputs (no hidden state between calls).

The property quantifies over call HISTORIES; contracts on single calls do not compose into it without ghost state the code does not
have, so the deciding part is a bounded stand-in, with the contract-shaped parts stated as frame obligations:

  STATIC : frame obligations read off the AST of the IR layer on every run: every attribute / item store and in-place container mutation in
           expression.py, expression_helper.py, expression_eval_abstract.py is classified: target allocated in the same function
           (constructor, literal, comprehension, copy()) or the object under construction / the machine itself (documented output) ->
           discharged; any other store writes into an object that belongs to the caller or to a module and is a frame obligation that
           does NOT hold syntactically -> listed (known finding when it is a memo flag of the unchanged tree, violation when new).
           The copy() contract the classification leans on ("result shares no mutable node with self") is checked per class (BND).
  BND    : seeded histories of <= 50 calls (dis / str x2 / asm / asm_att / lift / expr_simp / eval_expr / eval_instr / calls that raise) over
           shared objects (register singletons, one expression object evaluated on several machines, decoded instructions), each history
           in a process forked from the same pristine parent:
             frame   - every argument is structurally equal after the call to what it was before (machine state for eval_instr excepted)
             repeat  - the probe call, repeated after every step on the same objects, returns an equal result
             fresh   - the probe call on fresh structurally equal copies of its arguments returns an equal result
             tables  - the digest of the shared decode tables / register dictionaries is unchanged at the end
  BND    : parser-table cache scenarios in sub-processes: empty TMPDIR, warm TMPDIR, stale tables generated from a grammar with changed
           productions (same function names), garbage table files: the assembler results must be identical.
"""
import sys, os, time, random, itertools, binascii, traceback, multiprocessing, hashlib, json, ast, subprocess, zlib, shutil, io, contextlib
from vlib import common
from vlib.common import Run, DISCHARGED, FAILED, BOUNDED_OK, UNDECIDED, DOWNGRADED, ENGINE_ERR, Ob

REPLAY = '''
import sys, os
sys.path.insert(0, %(verif)r); sys.path.insert(0, %(repo)r)
sys.dont_write_bytecode = True
from checks import C12
sys.exit(C12.replay(%(kind)r, %(data)r))
'''

def quiet():
    from bounded import x86enum
    x86enum.quiet()

# =========================================================================================== structural snapshots (independent of repo __eq__)
def edesc(e):
    n = e.__class__.__name__
    if n == 'ExprInt': return ('int', e.arg.size, int(e.arg) % (1 << e.arg.size))
    if n == 'ExprId': return ('id', e.name, e.size, bool(e.is_reg), bool(e.is_term))
    if n == 'ExprMem': return ('mem', edesc(e.arg), e.size) + ((edesc(e.segm),) if getattr(e, 'segm', None) is not None else ())
    if n == 'ExprOp': return ('op', e.op, tuple(edesc(a) for a in e.args))
    if n == 'ExprSlice': return ('slice', edesc(e.arg), e.start, e.stop)
    if n == 'ExprCompose': return ('compose', tuple((edesc(x[0]), x[1], x[2]) for x in e.args))
    if n == 'ExprCond': return ('cond', edesc(e.cond), edesc(e.src1), edesc(e.src2))
    if n == 'ExprAff': return ('aff', edesc(e.dst), edesc(e.src))
    if n == 'ExprTop': return ('top',)
    raise ValueError(n)

def ebuild(d):
    """fresh expression from a description"""
    from miasmx.expression import expression as E
    from miasmx.tools import modint as M
    k = d[0]
    if k == 'int': return E.ExprInt(getattr(M, 'uint%d' % d[1])(d[2]))
    if k == 'id':
        return E.ExprId(d[1], d[2], is_term=d[4], is_reg=d[3])
    if k == 'mem':
        if len(d) > 3: return E.ExprMem(ebuild(d[1]), d[2], ebuild(d[3]))
        return E.ExprMem(ebuild(d[1]), d[2])
    if k == 'op': return E.ExprOp(d[1], *[ebuild(x) for x in d[2]])
    if k == 'slice': return E.ExprSlice(ebuild(d[1]), d[2], d[3])
    if k == 'compose': return E.ExprCompose([(ebuild(x), lo, hi) for (x, lo, hi) in d[1]])
    if k == 'cond': return E.ExprCond(ebuild(d[1]), ebuild(d[2]), ebuild(d[3]))
    if k == 'aff': return E.ExprAff(ebuild(d[1]), ebuild(d[2]))
    if k == 'top': return E.ExprTop()
    raise ValueError(d)

def snap(x):
    """structural snapshot of any API argument / result"""
    if x is None or isinstance(x, (bool, str, bytes)): return x
    t = type(x).__name__
    if isinstance(x, int): return ('i', t, int(x))
    if t.startswith('Expr'): return edesc(x)
    if isinstance(x, (list, tuple)): return (t,) + tuple(snap(y) for y in x)
    if isinstance(x, dict): return ('dict',) + tuple(sorted(((repr(snap(k)), snap(v)) for k, v in x.items()), key=lambda kv: kv[0]))
    if isinstance(x, (set, frozenset)): return ('set',) + tuple(sorted(repr(snap(y)) for y in x))
    if t == 'x86_mn':
        return ('instr', x.m.name if getattr(x, 'm', None) is not None else None, getattr(x, 'l', None), getattr(x, 'offset', None), tuple(getattr(x, 'prefix', []) or []),
                getattr(x, 'admode', None), getattr(x, 'opmode', None), snap(getattr(x, 'arg', None)))
    if t == 'eval_abs' or hasattr(x, 'pool') and hasattr(x.pool, 'pool_id'):
        p = x.pool
        return ('machine', tuple(sorted((repr(edesc(k)), edesc(v)) for k, v in p.pool_id.items())),
                tuple(sorted((repr(edesc(a)), edesc(kv[0]), edesc(kv[1])) for a, kv in p.pool_mem.items())))
    if hasattr(x, 'size') and hasattr(x, 'arg'): return ('modint', t, int(x))
    return ('obj', t, repr(x)[:200])

def digest_tables():
    """digest of the shared decode tables and register dictionaries (object graph walk, insertion order included)"""
    from miasmx.arch import ia32_arch as A
    from miasmx.arch import ia32_sem as S
    h = hashlib.sha1()
    seen = {}
    def walk(o):
        t = type(o)
        if o is None or t in (bool, int, float, str, bytes):
            h.update(repr(o).encode()); return
        i = id(o)
        if i in seen:
            h.update(b'@%d' % seen[i]); return
        seen[i] = len(seen)
        tn = t.__name__
        if t in (list, tuple):
            h.update(b'[')
            for x in o: walk(x)
            h.update(b']'); return
        if t is dict:
            h.update(b'{')
            for k in o:
                walk(k); h.update(b':'); walk(o[k])
            h.update(b'}'); return
        if t in (set, frozenset):
            h.update(b'<')
            for x in sorted(o, key=repr): walk(x)
            h.update(b'>'); return
        if tn in ('function', 'builtin_function_or_method', 'method', 'type', 'module', 'classmethod', 'staticmethod'):
            h.update(('F:%s' % getattr(o, '__qualname__', getattr(o, '__name__', tn))).encode())
            # default argument values are objects shared by every call (mutable defaults, default expression nodes)
            dflt = getattr(o, '__defaults__', None)
            if dflt:
                h.update(b'(defaults')
                for x in dflt: walk(x)       # (no temporary container: its id could be reused and taken for an object seen before)
                h.update(b')')
            return
        if tn.startswith('Expr'):
            # structural part and the memo flags separately: flags on shared singletons are reported by the repeat clause, not here
            h.update(repr(edesc(o)).encode()); return
        h.update(('O:%s' % tn).encode())
        d = getattr(o, '__dict__', None)
        if d is not None: walk(d)
        slots = [sl for k in type(o).__mro__ for sl in getattr(k, '__slots__', ())]
        if slots:
            for sl in slots:
                if hasattr(o, sl):
                    h.update(('.%s=' % sl).encode()); walk(getattr(o, sl))
        elif d is None:
            h.update(('R:%s' % tn).encode())
    sys.setrecursionlimit(100000)
    walk(A.x86mndb)
    for n in ('r_eax', 'r_cl', 'r_ax', 'r_dx', 'segm_regs', 'prefix_seg', 'att_mnemo_table', 'mnemo_mmx_hash'):
        if hasattr(A, n): walk(getattr(A, n))
    walk(S.mnemo_func); walk(S.init_regs)
    for n in sorted(dir(S)):
        v = getattr(S, n)
        if isinstance(v, (list, tuple, dict)) and not n.startswith('__') and n not in ('mnemo_func', 'init_regs'):
            walk(n); walk(v)
    rex = getattr(S, 'ia32_rexpr', None)
    if rex is not None:
        for n in sorted(k for k in dir(rex) if not k.startswith('__')):
            v = getattr(rex, n)
            if isinstance(v, (list, tuple, dict)): walk(n); walk(v)
    walk([edesc(getattr(S, n)) for n in sorted(dir(S)) if type(getattr(S, n)).__name__.startswith('Expr')])
    return h.hexdigest()

# =========================================================================================== the history machine
BYTES = ['90', '88e4', '88c0', '6689db', '89d8', '01d8', '8b4304', '894304', '034c8b08', 'ff30', '50', '5b', 'c3', 'e800000000', '7402', 'eb10',
         'f3a4', 'aa', 'ac', 'd8c1', 'd9450c', '0fb6c3', '0fbec8', 'c1e003', 'd3e0', 'f7d8', '0fafc3', '6bc005', '8d448b04', 'a100100000', 'a300100000',
         '648b00', '83c005', '6683c005', '80c405', '0f95c0', '0f44c3', '0fa3d8', '0fc8', '99', '98', 'c9', 'c8100000', '0f6fc1', '660fefc0', 'f20f10c1', '0f0b', 'cd80', '87d8', '0fb1d8', '0fc1d8',
         # the same ModRM/SIB byte under different prefixes / mnemonic classes (table rows shared between decodes), whole-register-file instructions,
         # 16-bit address size, relative branches (operand descriptors shared between table entries)
         '8b0418', '648b0418', '668b0418', '8d0418', '8a0418', '8b0424', '368b0424', '8b00', '8a00', '0fb600', '60', '61', '6660', '6661', '9c', '9d',
         # segment overrides in front of instructions with implicit register operands (cl, dx, al/eax, st): the override belongs to the memory operand only
         '26d320', 'd320', '2eec', 'ec', '64d3e0', '26ee', 'ee', '36d2e0', '26d800', 'd800', '2ee6e0', '65ef', '26d3f8', '640fa5c3', '0fa5c3', '640fadc3',
         '66c3', 'c3', '66c20400', 'c20400', '66cb', 'cb', '66cf', '66c9', '669c', '669d', '6650', '6658',
         '678b00', '67e800000000', 'e800000000', '670f8400000000', '0f8400000000', '0f8510000000', '66e80000', 'e2fe', '67e2fe', '7405', 'eb05', 'e910000000']
BAD_BYTES = ['0f', '0fff', 'ff', '66', 'd6' * 0 or 'f1f1f1', '0f0f', '8b']
LINES = ['mov eax, ebx', 'add eax, 5', 'mov eax, DWORD PTR [ebx+4]', 'mov DWORD PTR [ebx+ecx*4+8], eax', 'push eax', 'pop ebx', 'lea eax, [ebx+esi*2+16]', 'mov ah, ah',
         'jmp [DWORD PTR .L40[0+eax*4]]', 'call [DWORD PTR R]', 'call [DWORD PTR [esp+16+eax*4]]', 'mov eax, dword ptr gs:[0x00000014]', 'mov eax, 4[ebx]', 'mov eax, DWORD PTR -4[ebx]',
         'cmp eax, DWORD PTR [ecx+edx+4]', 'fadd st, st(1)', 'fld DWORD PTR [eax]', 'shl eax, cl', 'in al, dx', 'movzx eax, BYTE PTR [eax]', 'imul eax, ebx, 5', 'xchg eax, ebx',
         'mov ax, 65408', 'add BYTE PTR fs:[eax], 5', 'not DWORD PTR fs:[eax]', 'movsb', 'rep stosd', 'nop', 'ret', 'jmp toto', 'mov eax, OFFSET FLAT:toto', 'mov eax, cr0', 'test al, 1']
BAD_LINES = ['bogus eax', 'mov eax', 'mov eax, [', 'add eax, ebx, ecx, edx', 'mov 5, 5', '', 'mov eax, DWORD PTR', 'push push']
ATT_LINES = ['movl %ebx, %eax', 'addl $5, %eax', 'movl 4(%ebx), %eax', 'movl %eax, 8(%ebx,%ecx,4)', 'pushl %eax', 'leal 16(%ebx,%esi,2), %eax', 'leal (%eax,%eax,2), %eax', 'movb %ah, %ah',
             'call *%eax', 'jmp *(%eax)', 'fadd %st(1), %st', 'xchgl %ebx, %eax', 'shll %cl, %eax', 'in %dx, %al', 'movzbl (%eax), %eax', 'cltd', 'ret', 'nop', 'movw $65408, %ax', 'testb $1, %al']
BAD_ATT = ['bogus %eax', 'movl %eax', 'movl (%eax, %ebx', 'hlt', 'movl $5']

def machine_specs():
    """machine states as (id bindings, mem bindings) of DESCRIPTIONS (fresh objects are built from them every time)"""
    from miasmx.arch import ia32_sem as S
    I32 = lambda v: ('int', 32, v)
    rd = lambda r: edesc(r)
    full = [(rd(k), edesc(v)) for k, v in S.init_regs.items()]
    part = [(rd(S.eax), I32(5)), (rd(S.ebx), ('op', '+', (edesc(S.init_ecx), I32(1)))), (rd(S.esp), edesc(S.init_esp)), (rd(S.zf), ('int', 1, 1))]
    mem = [(('mem', I32(0x1000), 32), I32(0x1234)), (('mem', ('op', '+', (edesc(S.init_esp), I32(8))), 32), I32(0x77))]
    return [([], []), (full, []), (part, mem), (part, mem), (full, mem)]

def build_machine(spec):
    import logging
    from miasmx.expression.expression_eval_abstract import eval_abs
    ids, mem = spec
    vars = {}
    for k, v in ids: vars[ebuild(k)] = ebuild(v)
    for k, v in mem: vars[ebuild(k)] = ebuild(v)
    return eval_abs(vars, log=logging.getLogger('verif.null'))

def expr_pool(rng):
    """shared expression objects of one history: register singletons, memory reads, lifter-like trees, generator trees"""
    from miasmx.arch import ia32_sem as S
    from miasmx.expression import expression as E
    from miasmx.tools.modint import uint32, uint16
    from bounded import gen
    I = lambda v: E.ExprInt(uint32(v))
    K1234 = I(0x1234)
    out = [S.eax, S.ebx, S.ecx, S.esp, S.zf, S.cf, S.eax, S.ebx]
    out += [E.ExprMem(I(0x1000)), E.ExprMem(E.ExprOp('+', S.init_esp, I(8))), E.ExprMem(E.ExprOp('+', S.eax, I(4))), E.ExprMem(I(0x2000), 8),
            E.ExprOp('+', S.eax, S.ebx), E.ExprOp('+', S.eax, I(1)), E.ExprOp('^', S.ebx, S.ebx), E.ExprCond(S.zf, S.eax, S.ebx),
            E.ExprSlice(S.eax, 8, 16),
            E.ExprCompose([(E.ExprSlice(S.eax, 0, 8), 0, 8), (E.ExprSlice(S.eax, 8, 16), 8, 16), (E.ExprSlice(S.eax, 16, 32), 16, 32)]),
            E.ExprCompose([(E.ExprSlice(S.ebx, 0, 8), 0, 8), (E.ExprSlice(S.ebx, 8, 16), 8, 16), (E.ExprInt(uint16(0)), 16, 32)]),
            E.ExprOp('+', E.ExprOp('+', S.eax, I(4)), I(8)), E.ExprOp('&', S.eax, I(0xff)), E.ExprOp('>>', E.ExprOp('<<', S.ecx, I(4)), I(4)),
            # a constant wider than the field it sits in (the simplifier masks it: in a copy, never in the caller's node), and the same
            # constant object shared with another expression
            E.ExprCompose([(K1234, 0, 8), (E.ExprSlice(S.eax, 8, 32), 8, 32)]), E.ExprOp('+', K1234, I(1)),
            E.ExprCompose([(E.ExprSlice(S.ebx, 0, 16), 0, 16), (E.ExprInt(uint32(0xFFFFFFFF)), 16, 32)])]
    T = _templates()
    for _ in range(3):
        out.append(gen.build_shared(T[rng.randrange(len(T))]))
    for _ in range(2):
        out.append(gen.build(gen.random_tree(rng, 32, 3)))
    return out

_T = None
def _templates():
    global _T
    if _T is None:
        from bounded import gen
        _T = [d for d in gen.templates(32)] + [d for d in gen.templates(8)][:200]
    return _T

PROBE_KINDS = ['eval', 'eval', 'eval', 'simp', 'simp', 'dis', 'strI', 'strA', 'asm', 'asmatt', 'lift']
HIST_KINDS = ['eval', 'eval', 'eval', 'eval', 'simp', 'simp', 'dis', 'strI', 'strA', 'asm', 'asmatt', 'lift', 'evali', 'evali', 'bad', 'getrw']

def gen_history(seed, idx):
    """(probe, ops): ops refer to pools by index; pools are rebuilt deterministically from the rng in the child"""
    rng = random.Random(zlib.crc32(('C12:%d:%d' % (seed, idx)).encode()))
    n = rng.choice([1, 1, 2, 2, 3, 4, 5, 8, 12, 20, 35, 50])
    pk = rng.choice(PROBE_KINDS)
    probe = (pk, rng.randrange(1 << 30), rng.randrange(1 << 30))
    ops = []
    for _ in range(n):
        k = rng.choice(HIST_KINDS)
        # bias towards the probe's own objects: hidden state lives on shared objects
        a = probe[1] if rng.random() < 0.45 else rng.randrange(1 << 30)
        b = rng.randrange(1 << 30)
        ops.append((k, a, b))
    return (zlib.crc32(('C12pool:%d:%d' % (seed, idx)).encode()), probe, ops)

class World(object):
    def __init__(self, poolseed):
        quiet()
        rng = random.Random(poolseed)
        self.specs = machine_specs()
        self.M = [build_machine(s) for s in self.specs]
        self.E = expr_pool(rng)
        self.I = []          # decoded instructions
        self.F = []          # lifted assignment lists
        self.nE0 = len(self.E)
        self.B = BYTES

    def first_instr(self, a):
        """a decoded instruction for the instruction pool (the first byte string from position a on that decodes)"""
        from miasmx.arch.ia32_arch import x86mnemo
        for k in range(len(BYTES)):
            try: i = x86mnemo.dis(binascii.unhexlify(BYTES[(a + k) % len(BYTES)]))
            except Exception: i = None
            if i is not None: return i
        raise RuntimeError('no byte string of the pool decodes')

    def first_affs(self, a):
        from miasmx.arch.ia32_arch import x86mnemo
        from checks.C11 import lift
        for k in range(len(BYTES)):
            try:
                i = x86mnemo.dis(binascii.unhexlify(BYTES[(a + k) % len(BYTES)]))
                if i is not None: return lift(i)
            except Exception:
                continue
        raise RuntimeError('no byte string of the pool lifts')

    # ---- one call; returns (result snapshot, [(argument object, label)] whose structure must not change)
    def ix(self, pool, a, op):
        """index into a growing pool; a frozen op (the probe) keeps addressing the object it addressed first"""
        n = op[3].get(id(pool)) if len(op) > 3 else None
        return a % (n if n else len(pool))

    def freeze(self, op):
        return (op[0], op[1], op[2], {id(self.E): len(self.E), id(self.I): max(1, len(self.I)), id(self.F): max(1, len(self.F)), id(self.M): len(self.M)})

    def call(self, op, collect=True):
        from miasmx.arch.ia32_arch import x86mnemo
        from miasmx.expression.expression_helper import expr_simp
        from checks.C11 import lift
        k, a, b = op[:3]
        args = []
        try:
            with contextlib.redirect_stdout(io.StringIO()), contextlib.redirect_stderr(io.StringIO()):
                if k == 'dis':
                    r = x86mnemo.dis(binascii.unhexlify(BYTES[a % len(BYTES)]))
                    if collect and r is not None: self.I.append(r)
                    return snap(r), args
                if k in ('strI', 'strA', 'lift'):
                    if not self.I:
                        self.I.append(self.first_instr(a))
                    ins = self.I[self.ix(self.I, a, op)]
                    args.append((ins, 'instr'))
                    if k == 'strI': return str(ins), args
                    if k == 'strA': return ins.__str__('att_syntax binutils'), args
                    if b % 2:
                        # the documented two-argument form (operand list left to its default)
                        from miasmx.tools import emul_helper
                        from miasmx.tools.modint import uint32
                        from miasmx.expression.expression import ExprInt
                        r = emul_helper.get_instr_expr(ins, ExprInt(uint32((ins.offset + ins.l) & 0xffffffff)))
                    else:
                        r = lift(ins)
                    if collect:
                        self.F.append(r)
                        for x in r[:2]: self.E.append(x.src)
                    return snap(r), args
                if k == 'asm': return snap(x86mnemo.asm(LINES[a % len(LINES)])), args
                if k == 'asmatt': return snap(x86mnemo.asm_att(ATT_LINES[a % len(ATT_LINES)])), args
                if k == 'simp':
                    e = self.E[self.ix(self.E, a, op)]
                    args.append((e, 'expr'))
                    r = expr_simp(e)
                    if collect: self.E.append(r)
                    return snap(r), args
                if k == 'getrw':
                    e = self.E[self.ix(self.E, a, op)]
                    args.append((e, 'expr'))
                    return (snap(e.get_r(mem_read=True)), snap(e.get_w())), args
                if k == 'eval':
                    e = self.E[self.ix(self.E, a, op)]
                    m = self.M[self.ix(self.M, b, op)]
                    args.append((e, 'expr')); args.append((m, 'machine'))
                    r = m.eval_expr(e, {})
                    if collect: self.E.append(r)
                    return snap(r), args
                if k == 'evali':
                    # documented output: the machine's own state.  never the probe machines 2 (its twin 3 is used instead)
                    mi = self.ix(self.M, b, op)
                    if mi == 2: mi = 3
                    m = self.M[mi]
                    if not self.F:
                        self.F.append(self.first_affs(a))
                    affs = self.F[self.ix(self.F, a, op)]
                    args.append((affs, 'affs'))
                    r = m.eval_instr(affs)
                    return snap(r), args
                if k == 'bad':
                    j = b % 4
                    if j == 0: return snap(x86mnemo.asm(BAD_LINES[a % len(BAD_LINES)])), args
                    if j == 1: return snap(x86mnemo.asm_att(BAD_ATT[a % len(BAD_ATT)])), args
                    if j == 2: return snap(x86mnemo.dis(binascii.unhexlify(BAD_BYTES[a % len(BAD_BYTES)]))), args
                    from miasmx.expression import expression as E
                    e = E.ExprOp('no-such-op', self.E[a % len(self.E)], self.E[b % len(self.E)])
                    return snap(self.M[b % len(self.M)].eval_expr(e, {})), args
                raise ValueError(k)
        except RecursionError:
            raise
        except Exception as ex:
            return ('raise', type(ex).__name__), args

    def describe(self, op, rel=None):
        """stable, input-independent class of a call: kind + root class of the expression + how its registers relate to the machine"""
        k, a, b = op[:3]
        if k in ('simp', 'eval', 'getrw'):
            e = self.E[self.ix(self.E, a, op)]
            d = '%s:%s' % (k, e.__class__.__name__)
            if k == 'eval':
                mi = self.ix(self.M, b, op)
                d += '@M%d' % mi
                if e.__class__.__name__ == 'ExprId':
                    d += ':bound' if e in self.M[mi].pool else ':absent'
            if self.ix(self.E, a, op) >= self.nE0: d += ':result-object'
            return d
        if k == 'evali': return 'evali'
        if k == 'bad': return 'bad%d' % (b % 4)
        return k

def run_history(h):
    """executed in a forked child: returns list of failures (clause, key, detail)"""
    poolseed, probe, ops = h
    sys.setrecursionlimit(20000)
    W = World(poolseed)
    fails = []
    stats = {'calls': 0, 'raises': 0}
    def checked_call(op, collect=True):
        stats['calls'] += 1
        k = op[0]
        # snapshot the arguments of THIS call
        pre = None
        res, args = None, None
        # args are only known after resolving indices: resolve by a dry description first
        argobjs = resolve_args(W, op)
        pre = [snap(o) for (o, _) in argobjs]
        res, _ = W.call(op, collect)
        if isinstance(res, tuple) and res and res[0] == 'raise': stats['raises'] += 1
        for (o, label), s0 in zip(argobjs, pre):
            if label == 'machine' and k == 'evali': continue
            s1 = snap(o)
            if s1 != s0:
                fails.append(('frame', '%s:%s' % (W.describe(op), label), '%s changed its %s argument: %s -> %s' % (W.describe(op), label, short(s0), short(s1))))
        return res
    resolve_args(W, probe)          # makes sure the instruction / assignment pools are not empty
    probe = W.freeze(probe)
    pdesc = W.describe(probe)
    pargs = resolve_args(W, probe)
    ps0 = [snap(o) for (o, _) in pargs]
    def enodes(e, acc):
        acc.append(e)
        n = e.__class__.__name__
        if n == 'ExprMem':
            enodes(e.arg, acc)
            if getattr(e, 'segm', None) is not None: enodes(e.segm, acc)
        elif n == 'ExprOp':
            for a in e.args: enodes(a, acc)
        elif n == 'ExprSlice': enodes(e.arg, acc)
        elif n == 'ExprCompose':
            for x in e.args: enodes(x[0], acc)
        elif n == 'ExprCond':
            enodes(e.cond, acc); enodes(e.src1, acc); enodes(e.src2, acc)
        elif n == 'ExprAff':
            enodes(e.dst, acc); enodes(e.src, acc)
        return acc
    pnodes = []
    for (o, label) in pargs:
        if label == 'expr': enodes(o, pnodes)
        elif label == 'affs':
            for x in o: enodes(x, pnodes)
    flags0 = {id(n): (bool(n.is_eval), bool(getattr(n, 'simp', False))) for n in pnodes}
    def diagnose(r_ref):
        """which memo flag, set on a node of the probe's own argument since the start, explains the changed result?"""
        newly = [n for n in pnodes if n.is_eval and not flags0[id(n)][0]]
        if newly:
            for n in newly: n.is_eval = False
            r3, _ = W.call(probe, False)
            if r3 == r_ref:
                return 'stale:is_eval@' + '+'.join(sorted(set(n.__class__.__name__ for n in newly)))
        newly = [n for n in pnodes if getattr(n, 'simp', False) and not flags0[id(n)][1]]
        if newly:
            for n in newly: n.simp = False
            r3, _ = W.call(probe, False)
            if r3 == r_ref:
                return 'stale:simp@' + '+'.join(sorted(set(n.__class__.__name__ for n in newly)))
        return 'cause:other'
    r0 = checked_call(probe, collect=False)
    # the first probe call itself may set memo flags on its own argument: they are part of the start state of the comparison
    flags0 = {id(n): (bool(n.is_eval), bool(getattr(n, 'simp', False))) for n in pnodes}
    changed_at = None
    for i, op in enumerate(ops):
        d = W.describe(op)
        oa = resolve_args(W, op)
        same = 'same-object' if (oa and pargs and oa[0][0] is pargs[0][0]) else ''
        checked_call(op)
        if [snap(o) for (o, _) in pargs] != ps0:
            break       # the probe's own inputs were (legitimately or not: see frame) changed; the comparison is void from here on
        r1 = checked_call(probe, collect=False)
        if r1 != r0 and changed_at is None:
            changed_at = i
            cause = diagnose(r0)
            fails.append(('repeat', '%s|%s' % (pdesc, cause),
                          'probe %s returned %s before and %s after step %d (%s%s); %s' % (pdesc, short(r0), short(r1), i, d, (', ' + same) if same else '', cause)))
            break
    else:
        # fresh structural copies of the probe's arguments
        if [snap(o) for (o, _) in pargs] == ps0:
            r1 = checked_call(probe, collect=False)
            r2 = fresh_probe(W, probe)
            if r2 is not NOTHING and r2 != r1:
                fails.append(('fresh', '%s|%s' % (pdesc, diagnose(r2)), 'probe %s returns %s on the objects used before and %s on fresh structurally equal objects' % (pdesc, short(r1), short(r2))))
    return fails, stats

NOTHING = object()
def short(s):
    t = repr(s)
    return t if len(t) < 260 else t[:250] + '...'

def resolve_args(W, op):
    k, a, b = op[:3]
    if k in ('strI', 'strA', 'lift'):
        if not W.I:
            W.I.append(W.first_instr(a))
        return [(W.I[W.ix(W.I, a, op)], 'instr')]
    if k in ('simp', 'getrw'): return [(W.E[W.ix(W.E, a, op)], 'expr')]
    if k == 'eval': return [(W.E[W.ix(W.E, a, op)], 'expr'), (W.M[W.ix(W.M, b, op)], 'machine')]
    if k == 'evali':
        if not W.F:
            W.F.append(W.first_affs(a))
        return [(W.F[W.ix(W.F, a, op)], 'affs')]
    return []

def fresh_probe(W, probe):
    """the probe on fresh structurally equal copies of its arguments"""
    from miasmx.arch.ia32_arch import x86mnemo
    from miasmx.expression.expression_helper import expr_simp
    k, a, b = probe[:3]
    op = probe
    try:
        with contextlib.redirect_stdout(io.StringIO()), contextlib.redirect_stderr(io.StringIO()):
            if k == 'simp': return snap(expr_simp(ebuild(edesc(W.E[W.ix(W.E, a, op)]))))
            if k == 'eval':
                mi = W.ix(W.M, b, op)
                m = W.M[mi]
                # fresh machine with the same state: rebuilt from the snapshot
                ms = snap(m)
                import logging
                from miasmx.expression.expression_eval_abstract import eval_abs
                vars = {}
                for (_, v), k0 in zip(ms[1], sorted(m.pool.pool_id, key=lambda x: repr(edesc(x)))):
                    vars[ebuild(edesc(k0))] = ebuild(v)
                for (_, kd, vd) in ms[2]:
                    vars[ebuild(kd)] = ebuild(vd)
                m2 = eval_abs(vars, log=logging.getLogger('verif.null'))
                return snap(m2.eval_expr(ebuild(edesc(W.E[W.ix(W.E, a, op)])), {}))
            if k in ('strI', 'strA', 'lift'):
                ins = W.I[W.ix(W.I, a, op)]
                # fresh instruction object: decode the same bytes again
                src = None
                for hx in BYTES:
                    i2 = x86mnemo.dis(binascii.unhexlify(hx))
                    if i2 is not None and snap(i2) == snap(ins):
                        src = i2; break
                if src is None: return NOTHING
                if k == 'strI': return str(src)
                if k == 'strA': return src.__str__('att_syntax binutils')
                from checks.C11 import lift
                return snap(lift(src))
            return NOTHING
    except Exception as ex:
        return ('raise', type(ex).__name__)

def _work(chunk):
    """one forked worker per chunk; each history again in its own fork so that every history starts from the same pristine state"""
    out = []
    for h in chunk:
        rfd, wfd = os.pipe()
        pid = os.fork()
        if pid == 0:
            os.close(rfd)
            try:
                import signal
                signal.alarm(common.patience(60))
                res = ('ok', run_history(h))
            except BaseException:
                res = ('crash', traceback.format_exc()[-1500:])
            try:
                with os.fdopen(wfd, 'w') as f:
                    f.write(json.dumps(res))
            finally:
                os._exit(0)
        os.close(wfd)
        with os.fdopen(rfd) as f:
            data = f.read()
        os.waitpid(pid, 0)
        try:
            out.append((h, json.loads(data)))
        except Exception:
            out.append((h, ['crash', 'child died without a result (timeout or signal)']))
    return out

# =========================================================================================== static frame obligations
IR_MODULES = ['miasmx/expression/expression.py', 'miasmx/expression/expression_helper.py', 'miasmx/expression/expression_eval_abstract.py']
MUTATORS = {'append', 'extend', 'insert', 'pop', 'remove', 'sort', 'reverse', 'update', 'clear', 'add', 'discard', 'setdefault', 'popitem', '__setitem__', '__delitem__'}
FRESH_CALLS = {'dict', 'list', 'set', 'sorted', 'tuple', 'reversed', 'zip', 'map', 'filter', 'range', 'enumerate', 'mpool', 'copy', 'deepcopy',
               'ExprInt', 'ExprId', 'ExprMem', 'ExprOp', 'ExprSlice', 'ExprCompose', 'ExprCond', 'ExprAff', 'ExprTop',
               'ExprInt32', 'ExprInt16', 'ExprInt8', 'ExprInt64', 'ExprInt1', 'ExprInt_from', 'eval_abs', 'x86_machine'}

def root_name(node):
    while isinstance(node, (ast.Attribute, ast.Subscript)):
        node = node.value
    return node.id if isinstance(node, ast.Name) else None

def is_fresh_expr(node, fresh):
    """syntactic freshness: the value is allocated by this expression"""
    if isinstance(node, (ast.List, ast.Dict, ast.Set, ast.ListComp, ast.DictComp, ast.SetComp, ast.Tuple, ast.Constant, ast.BinOp, ast.JoinedStr)):
        return True
    if isinstance(node, ast.Call):
        f = node.func
        name = f.id if isinstance(f, ast.Name) else (f.attr if isinstance(f, ast.Attribute) else None)
        if name in FRESH_CALLS: return True
        return False
    if isinstance(node, ast.Subscript) and isinstance(node.slice, ast.Slice):
        return True          # x[a:b] of a list is a new list
    if isinstance(node, ast.Name):
        return node.id in fresh
    if isinstance(node, ast.IfExp):
        return is_fresh_expr(node.body, fresh) and is_fresh_expr(node.orelse, fresh)
    return False

def static_frames(run):
    """one obligation per store site; discharged when the target is provably allocated in the same function (or is self in __init__, or
       the machine's own documented state); otherwise the store writes into a caller-owned or module-owned object"""
    n_ok = 0
    flagged = []
    for rel in IR_MODULES:
        path = os.path.join(common.REPO, rel)
        src = open(path).read()
        tree = ast.parse(src)
        modname = os.path.basename(rel)[:-3]
        for cls_or_fn in ast.walk(tree):
            if not isinstance(cls_or_fn, (ast.FunctionDef,)): continue
            fn = cls_or_fn
            owner = None
            for c in ast.walk(tree):
                if isinstance(c, ast.ClassDef) and fn in c.body: owner = c.name
            qn = '%s.%s%s' % (modname, (owner + '.') if owner else '', fn.name)
            params = [a.arg for a in fn.args.args + fn.args.kwonlyargs] + ([fn.args.vararg.arg] if fn.args.vararg else []) + ([fn.args.kwarg.arg] if fn.args.kwarg else [])
            # locals bound only to fresh values
            assigns = {}
            for n in ast.walk(fn):
                if isinstance(n, ast.Assign):
                    for t in n.targets:
                        if isinstance(t, ast.Name): assigns.setdefault(t.id, []).append(n.value)
                        elif isinstance(t, (ast.Tuple, ast.List)):
                            for e in t.elts:
                                if isinstance(e, ast.Name): assigns.setdefault(e.id, []).append(None)
                elif isinstance(n, ast.AugAssign) and isinstance(n.target, ast.Name):
                    assigns.setdefault(n.target.id, []).append(n.value if isinstance(n.op, ast.Add) else None)
                elif isinstance(n, (ast.For, ast.comprehension)):
                    t = n.target
                    for e in ([t] if isinstance(t, ast.Name) else (t.elts if isinstance(t, (ast.Tuple, ast.List)) else [])):
                        if isinstance(e, ast.Name): assigns.setdefault(e.id, []).append(None)
                elif isinstance(n, ast.With):
                    for it in n.items:
                        if isinstance(it.optional_vars, ast.Name): assigns.setdefault(it.optional_vars.id, []).append(None)
            fresh = set()
            changed = True
            while changed:
                changed = False
                for name, vals in assigns.items():
                    if name in fresh or name in params: continue
                    if vals and all(v is not None and is_fresh_expr(v, fresh) for v in vals):
                        fresh.add(name); changed = True
            sites = {}
            def site(kind, target_node, lineno):
                nonlocal n_ok
                txt = ast.unparse(target_node)
                rn = root_name(target_node)
                ordn = sites[txt] = sites.get(txt, 0) + 1
                oid = 'C12:frame[%s:%s:%s#%d]' % (qn, kind, txt, ordn)
                ok = False
                why = ''
                if rn is None: ok, why = True, 'target is a temporary'
                elif rn in fresh: ok, why = True, 'local allocated in this function'
                elif rn == 'self' and fn.name in ('__init__', '__new__'): ok, why = True, 'object under construction'
                elif rn == 'self' and owner in ('eval_abs', 'mpool'): ok, why = True, "the machine's own state (documented output)"
                elif rn == 'eval_cache': ok, why = True, 'documented output parameter'
                elif isinstance(target_node, ast.Name): ok, why = True, 'rebinding of a local name'
                if ok: n_ok += 1
                else: flagged.append((oid, '%s line %d: %s %s -- the target %r is a parameter, a global or an object reached from one' % (rel, lineno, kind, txt, rn), rel, lineno))
            for n in ast.walk(fn):
                if isinstance(n, ast.Assign):
                    for t in n.targets:
                        for e in (t.elts if isinstance(t, (ast.Tuple, ast.List)) else [t]):
                            if isinstance(e, (ast.Attribute, ast.Subscript)): site('store', e, n.lineno)
                elif isinstance(n, ast.AugAssign) and isinstance(n.target, (ast.Attribute, ast.Subscript)):
                    site('store', n.target, n.lineno)
                elif isinstance(n, ast.Delete):
                    for t in n.targets:
                        if isinstance(t, (ast.Attribute, ast.Subscript)): site('del', t, n.lineno)
                elif isinstance(n, ast.Call) and isinstance(n.func, ast.Attribute) and n.func.attr in MUTATORS:
                    if isinstance(n.func.value, (ast.Name, ast.Attribute, ast.Subscript)): site('call.' + n.func.attr, n.func.value, n.lineno)
                elif isinstance(n, ast.Call) and isinstance(n.func, ast.Name) and n.func.id in ('setattr', 'delattr') and n.args:
                    site('setattr', n.args[0], n.lineno)
        run.function('static frame scan of ' + rel, src, path, 1)
    run.bulk('store sites whose target is allocated in the same call / the object under construction / a documented output', n_ok, 'STATIC', 'ast', 0.0, DISCHARGED)
    # a store whose target cannot be shown fresh syntactically is NOT a violation: the obligation is left to the bounded frame clause of the
    # histories (status downgraded), and listed in the evidence
    for (oid, detail, rel, lineno) in flagged:
        run.ob(oid, DOWNGRADED, 'STATIC', 'ast', detail=detail, func=rel)
    run.extra['static_store_sites_left_to_dynamic_frame_check'] = [o for (o, _, _, _) in flagged]
    return n_ok, len(flagged)

def copy_contract(run, tier, seed):
    """copy(): equal structure, no mutable node shared with self (the freshness the static classification relies on)"""
    from bounded import gen
    from miasmx.expression import expression as E
    rng = random.Random(seed + 7)
    ds = list(_templates())[:: (8 if tier == 'quick' else 1)] + [gen.random_tree(rng, 32, 3) for _ in range(200 if tier == 'quick' else 2000)]
    def nodes(e, acc):
        acc.append(e)
        n = e.__class__.__name__
        if n == 'ExprMem': nodes(e.arg, acc)
        elif n == 'ExprOp':
            for a in e.args: nodes(a, acc)
        elif n == 'ExprSlice': nodes(e.arg, acc)
        elif n == 'ExprCompose':
            for x in e.args: nodes(x[0], acc)
        elif n == 'ExprCond':
            nodes(e.cond, acc); nodes(e.src1, acc); nodes(e.src2, acc)
        elif n == 'ExprAff':
            nodes(e.dst, acc); nodes(e.src, acc)
        return acc
    bad = {}
    n = 0
    for d in ds:
        e = gen.build(d)
        trees = [e, E.ExprAff(E.ExprId('x', dwidth_of(e)), gen.build(d))]
        for t in trees:
            n += 1
            c = t.copy()
            if edesc(c) != edesc(t):
                bad.setdefault('copy-equal[%s]' % t.__class__.__name__, 'copy() of %s is %s' % (t, c)); continue
            mine = {id(x) for x in nodes(t, []) if x.__class__.__name__ not in ('ExprInt', 'ExprId')}
            shared = [x for x in nodes(c, []) if id(x) in mine]
            if shared:
                bad.setdefault('copy-fresh[%s]' % shared[0].__class__.__name__, 'copy() of %s shares the %s node %s with the original' % (t, shared[0].__class__.__name__, shared[0]))
    run.bulk('copy() of a tree is structurally equal and shares no inner node with it', n - len(bad), 'BND', 'python', 0.0, BOUNDED_OK)
    for k, detail in sorted(bad.items()):
        oid = 'C12:' + k
        rp = run.write_replay(oid, {'obligation': oid, 'detail': detail}, REPLAY % dict(verif=common.VERIF, repo=common.REPO, kind='copy', data=[k]))
        run.ob(oid, FAILED, 'BND', 'python', detail=detail, witness=rp, confirmed=True)
    return n

def dwidth_of(e):
    return e.get_size()

# =========================================================================================== parser-table cache scenarios
CACHE_PROBE = r'''
import sys, json, io, contextlib
sys.dont_write_bytecode = True
out = {}
err = io.StringIO()
with contextlib.redirect_stdout(err), contextlib.redirect_stderr(err):
    from miasmx.arch.ia32_arch import x86mnemo
    for (att, l) in json.loads(sys.argv[1]):
        try:
            r = x86mnemo.asm_att(l) if att else x86mnemo.asm(l)
            out[('A:' if att else 'I:') + l] = [bytes(x).hex() for x in r]
        except Exception as ex:
            out[('A:' if att else 'I:') + l] = 'raise ' + type(ex).__name__
print(json.dumps(out, sort_keys=True))
'''

STALE_BUILDER = r'''
# builds parser tables from a MODIFIED copy of a grammar module of the repo (same p_* names, different productions), so that the cache
# directory holds tables of "another revision" under the same table-module name
import sys, os, re, runpy
sys.dont_write_bytecode = True
src_path, out_py, variant = sys.argv[1], sys.argv[2], sys.argv[3]
s = open(src_path).read()
EDITS = {
 'intel-brackets1': ("""    \'\'\'brackets : LBRA expression RBRA
                | LBRA ptrformula RBRA \'\'\'""", """    \'\'\'brackets : LBRA expression RBRA\'\'\'"""),
 'intel-brackets3': ("""    \'\'\'brackets : NUMBER LBRA expression RBRA \'\'\'""", """    \'\'\'brackets : NUMBER NUMBER LBRA expression RBRA \'\'\'"""),
 'intel-uminus': ("""    \'\'\'expression : MINUS expression %prec UMINUS\'\'\'""", """    \'\'\'expression : MINUS MINUS expression %prec UMINUS\'\'\'"""),
 'att-number': ("""    \'\'\'number : MINUS number %prec UMINUS\'\'\'""", """    \'\'\'number : MINUS MINUS number %prec UMINUS\'\'\'"""),
}
old, new = EDITS[variant]
if old not in s:
    print('EDIT-NOT-APPLICABLE'); sys.exit(7)
s = s.replace(old, new)
open(out_py, 'w').write(s)
import io, contextlib
with contextlib.redirect_stdout(io.StringIO()), contextlib.redirect_stderr(io.StringIO()):
    runpy.run_path(out_py, run_name='stale_grammar')
print('BUILT')
'''

def cache_scenarios(run, tier):
    base = os.path.join(common.private_tmp(), 'c12cache_%d' % os.getpid())
    shutil.rmtree(base, ignore_errors=True)
    os.makedirs(base)
    lines = [(False, l) for l in LINES + BAD_LINES] + [(True, l) for l in ATT_LINES + BAD_ATT]
    env0 = dict(os.environ)
    env0['PYTHONPATH'] = common.REPO
    env0['PYTHONDONTWRITEBYTECODE'] = '1'
    env0['PYTHONHASHSEED'] = '0'
    def probe(tmpdir):
        env = dict(env0); env['TMPDIR'] = tmpdir
        p = subprocess.run([common.VENV_PY, '-B', '-c', CACHE_PROBE, json.dumps(lines)], capture_output=True, text=True, timeout=600, env=env, cwd=base)
        if p.returncode != 0: return 'probe process failed: ' + (p.stderr or p.stdout)[-400:]
        try: return json.loads(p.stdout.strip().split('\n')[-1])
        except Exception: return 'probe process printed no result: ' + (p.stdout + p.stderr)[-400:]
    def mk(name):
        d = os.path.join(base, name); os.makedirs(d); return d
    results = {}
    d_empty = mk('empty')
    ref = probe(d_empty)
    results['empty'] = ref
    results['warm'] = probe(d_empty)                # second process: tables written by the first
    # stale tables
    stale = [('intel-brackets1', 'miasmx/core/parse_ad.py'), ('intel-brackets3', 'miasmx/core/parse_ad.py'), ('intel-uminus', 'miasmx/core/parse_ad.py'), ('att-number', 'miasmx/arch/ia32_att.py')]
    built = 0
    for variant, rel in stale:
        d = mk('stale_' + variant)
        env = dict(env0); env['TMPDIR'] = d
        p = subprocess.run([common.VENV_PY, '-B', '-c', STALE_BUILDER, os.path.join(common.REPO, rel), os.path.join(base, 'stale_%s.py' % variant.replace('-', '_')), variant],
                           capture_output=True, text=True, timeout=600, env=env, cwd=base)
        tabs = [f for f in os.listdir(d) if f.startswith('ply_ia32')]
        if 'BUILT' not in p.stdout or not tabs:
            run.notes.append('stale-cache scenario %s could not be built (%s); skipped' % (variant, (p.stdout + p.stderr)[-200:].replace('\n', ' ')))
            continue
        built += 1
        results['stale:' + variant] = probe(d)
        results['stale-warm:' + variant] = probe(d)
    # garbage / truncated / foreign table files
    for name, content in (('garbage', 'this is not python ((('), ('empty-file', ''), ('foreign', '_tabversion = "3.2"\n_lr_method = "LALR"\n_lr_signature = b"x"\n_lr_action_items = {}\n_lr_action = {}\n_lr_goto_items = {}\n_lr_goto = {}\n_lr_productions = []\n'),
                          ('raises', 'raise RuntimeError("table file of another tool")\n')):
        d = mk(name)
        for tab in ('ply_ia32_intel_20150429.py', 'ply_ia32_att_20150429.py'):
            open(os.path.join(d, tab), 'w').write(content)
        results[name] = probe(d)
    n_ok = 0
    for name, r in results.items():
        oid = 'C12:cache[%s]' % name
        if r == ref and isinstance(r, dict):
            n_ok += 1
            run.ob(oid, BOUNDED_OK, 'BND', 'python', detail='%d lines identical' % len(r))
        else:
            if isinstance(r, dict) and isinstance(ref, dict):
                diff = [(k, ref.get(k), r.get(k)) for k in sorted(ref) if ref.get(k) != r.get(k)]
                detail = 'with a %s cache directory %d of %d lines assemble differently, e.g. %r: %s (empty cache) vs %s' % (name, len(diff), len(ref), diff[0][0], short(diff[0][1]), short(diff[0][2]))
            else:
                detail = 'with a %s cache directory: %s' % (name, short(r))
            rp = run.write_replay(oid, {'obligation': oid, 'detail': detail}, REPLAY % dict(verif=common.VERIF, repo=common.REPO, kind='cache', data=[name]))
            run.ob(oid, FAILED, 'BND', 'python', detail=detail, witness=rp, confirmed=True)
    shutil.rmtree(base, ignore_errors=True)
    return len(results), built

# =========================================================================================== replay (native, /venv python: no z3 needed)
def replay(kind, data):
    common.use_repo()
    sys.setrecursionlimit(20000)
    if kind == 'history':
        fails, stats = run_history(tuple(data[0]) if not isinstance(data[0], tuple) else data[0])
        want = data[1]
        for (clause, key, detail) in fails:
            print('%s[%s]: %s' % (clause, key, detail))
        return 1 if any('%s[%s]' % (c, k) == want for (c, k, _) in fails) else 0
    if kind == 'frame':
        oid, rel, lineno = data
        src = open(os.path.join(common.REPO, rel)).read().split('\n')
        print('store into a caller- or module-owned object (frame obligation not derivable):')
        for i in range(max(0, lineno - 3), min(len(src), lineno + 2)):
            print('%5d %s' % (i + 1, src[i]))
        return 1
    if kind == 'copy':
        class R(object):
            notes = []
            def bulk(self, *a, **k): pass
            def write_replay(self, *a, **k): return ''
            def ob(self, oid, *a, **k):
                print(oid, k.get('detail')); self.bad = True
        r = R(); r.bad = False
        copy_contract(r, 'quick', 0)
        return 1 if r.bad else 0
    if kind == 'cache':
        class R(object):
            def __init__(self): self.notes = []; self.bad = False
            def write_replay(self, *a, **k): return ''
            def ob(self, oid, status, *a, **k):
                if status == FAILED and oid == 'C12:cache[%s]' % data[0]:
                    print(oid, k.get('detail')); self.bad = True
        r = R()
        cache_scenarios(r, 'quick')
        return 1 if r.bad else 0
    return 2

def listify(h):
    return [h[0], list(h[1]), [list(o) for o in h[2]]]
def tuplify(h):
    return (h[0], tuple(h[1]), [tuple(o) for o in h[2]])

def main(argv):
    tier, seed, rest = common.parse_args(argv)
    common.use_repo()
    sys.setrecursionlimit(20000)
    run = Run('C12', tier, seed, 'other', 'cd /verif && ./vcheck C12 --tier %s' % tier)
    quiet()
    # the digest of the shared tables is taken FIRST, before this process has decoded, assembled or lifted anything (the other parts of the
    # check already use the API: a table changed by the very first call would otherwise become the baseline)
    from miasmx.arch.ia32_arch import x86mnemo
    from miasmx.arch import ia32_sem
    from miasmx.expression import expression_eval_abstract, expression_helper
    from miasmx.tools import emul_helper
    d0 = digest_tables()
    # ---- static
    n_ok, n_flag = static_frames(run)
    # ---- copy contract
    n_copy = copy_contract(run, tier, seed)
    # ---- histories: import everything BEFORE forking, so that every child starts from the same state
    from miasmx.arch.ia32_arch import x86mnemo
    from miasmx.arch import ia32_sem
    from miasmx.expression import expression_eval_abstract, expression_helper
    from miasmx.tools import emul_helper
    from checks import C11
    _templates()
    N = 2000 if tier == 'quick' else 50000
    H = [gen_history(seed, i) for i in range(N)]
    chunks = [H[i:i + 25] for i in range(0, len(H), 25)]
    with multiprocessing.get_context('fork').Pool(min(16, os.cpu_count() or 4)) as pool:
        results = pool.map(_work, chunks, chunksize=1)
    groups = {}
    n_clean = 0
    calls = raises = 0
    crashes = []
    for chunk in results:
        for (h, res) in chunk:
            if res[0] != 'ok':
                crashes.append((h, res[1])); continue
            fails, stats = res[1]
            calls += stats['calls']; raises += stats['raises']
            if not fails: n_clean += 1
            for (clause, key, detail) in fails:
                g = groups.setdefault((clause, key), [0, h, detail])
                g[0] += 1
    # tables digest after a long mixed history in THIS process (forked children cannot change the parent): one more child
    def tables_child():
        W = World(12345)
        rng = random.Random(seed + 99)
        # first every entry of the byte / text pools once, in both syntaxes and lifted (deterministic part), then a random mixed history
        from miasmx.arch.ia32_arch import x86mnemo as _m
        from miasmx.tools import emul_helper as _eh
        from miasmx.expression.expression import ExprInt as _EI
        from miasmx.tools.modint import uint32 as _u32
        import binascii as _ba
        for hx in BYTES + BAD_BYTES:
            try:
                i_ = _m.dis(_ba.unhexlify(hx))
                if i_ is not None:
                    str(i_); i_.__str__('att_syntax binutils')
                    i_.offset = 0
                    _eh.get_instr_expr(i_, _EI(_u32(i_.l)), [])
            except Exception:
                pass
        for ln in LINES + BAD_LINES:
            try: _m.asm(ln)
            except Exception: pass
        for ln in ATT_LINES + BAD_ATT:
            try: _m.asm_att(ln)
            except Exception: pass
        for i in range(400 if tier == 'quick' else 4000):
            W.call((rng.choice(HIST_KINDS), rng.randrange(1 << 30), rng.randrange(1 << 30)))
        return digest_tables()
    rfd, wfd = os.pipe()
    pid = os.fork()
    if pid == 0:
        try:
            os.close(rfd)
            with os.fdopen(wfd, 'w') as f: f.write(tables_child())
        finally:
            os._exit(0)
    os.close(wfd)
    with os.fdopen(rfd) as f: d1 = f.read()
    os.waitpid(pid, 0)
    if d1 == d0:
        run.ob('C12:tables[digest]', BOUNDED_OK, 'BND', 'python', detail='digest of x86mndb, r_* dictionaries, mnemo_func, init_regs and the register singletons unchanged after a mixed history')
    else:
        run.ob('C12:tables[digest]', FAILED, 'BND', 'python', detail='the shared decode tables / register dictionaries changed during a mixed history of API calls (digest %s -> %s)' % (d0[:12], d1[:12]), confirmed=True)
    run.bulk('histories with every frame/repeat/fresh clause clean', n_clean, 'BND', 'python', 0.0, BOUNDED_OK)
    for (clause, key), (n, h, detail) in sorted(groups.items()):
        oid = 'C12:%s[%s]' % (clause, key)
        rp = run.write_replay(oid, {'obligation': oid, 'detail': detail, 'histories': n}, REPLAY % dict(verif=common.VERIF, repo=common.REPO, kind='history', data=[listify(h), '%s[%s]' % (clause, key)]))
        run.ob(oid, FAILED, 'BND', 'python', detail='%d histories, e.g. %s' % (n, detail), witness=rp, confirmed=True)
    for (h, tb) in crashes[:5]:
        run.ob('C12:history-crash[%d]' % h[0], ENGINE_ERR, 'BND', 'python', detail=tb)
    # ---- cache scenarios
    n_sc, n_stale = cache_scenarios(run, tier)
    run.evaluations = calls
    run.distinct = N
    run.extra.update({'histories': N, 'api_calls': calls, 'calls_that_raised': raises, 'static_store_sites_discharged': n_ok, 'static_store_sites_flagged': n_flag,
                      'cache_scenarios': n_sc, 'stale_table_variants_built': n_stale, 'copy_contract_trees': n_copy})
    run.rule = ('histories: seeded, length 1..50 over {dis, str (Intel, AT&T), asm, asm_att, lift, expr_simp, get_r/get_w, eval_expr on 5 machines (empty / full / partial x2 / full+memory), eval_instr, '
                'calls that raise}; objects shared between probe and history with probability 0.45; each history in a process forked from one pristine parent; probe repeated after every step')
    run.explanation = ('bounded stand-in for a whole-history property (no ghost state in the code to hang a contract on): frame clauses per call, probe repetition, fresh-copy comparison, table digest, '
                       'parser-table cache scenarios; the static part lists every store of the IR layer whose target is not allocated in the same call')
    run.trust('the structural snapshot functions edesc/snap of this file (independent of the repo __eq__)')
    run.assume('hidden state that no generated history reaches is not seen; histories are bounded to 50 calls and to the object pools of this file')
    return run.finish()

if __name__ == '__main__':
    sys.exit(main(sys.argv[1:]))
