"""MMX/SSE part of the assembler-family checks C02, C03, C09 and C19: the generated corpus of checks/asmfam.py stops at the integer and x87 maps
(the hand-written spec decoder covers no MMX/SSE); here the reference is GNU objdump / GNU as, executed.

Items: for every MMX/SSE table row x mandatory prefix {none, 66, F2, F3} x operand form {register, [eax], [esp+16], [ebx+esi*4+0x100], absolute}
the byte string b, kept when miasmX and objdump both read it as one instruction (no superfluous prefix) and agree on it (C01 clause).
  C02-sse: every candidate c of asm(str(dis(b))) is read by objdump as the same instruction as b (same normalised text), with its full length
  C03-sse: dis accepts every candidate with its full length; b is among the candidates of asm(str(dis(b))) when GNU as maps objdump's text of b back
           to b (canonical encoding)
  C09-sse: the Intel and the AT&T rendering of b are accepted by GNU as in the matching mode and assemble to the same instruction (objdump text);
           the AT&T rendering re-parses with asm_att to a set containing b
"""
import sys, os, re, binascii, multiprocessing
from vlib import common
from vlib.common import FAILED, BOUNDED_OK, ENGINE_ERR

REPLAY = '''
import sys, os
sys.path.insert(0, %(verif)r); sys.path.insert(0, %(repo)r)
sys.dont_write_bytecode = True
from checks import asmsse
sys.exit(asmsse.replay(%(prop)r, %(hexbytes)r, %(clause)r))
'''
FORMS = [bytes([0xC1]), bytes([0x00]), bytes([0x44, 0x24, 0x10]), bytes([0x84, 0xB3, 0x00, 0x01, 0x00, 0x00]), bytes([0x05, 0x78, 0x56, 0x34, 0x12])]

def items(shard):
    from bounded import x86enum
    from miasmx.arch.ia32_arch import x86mnemo
    from miasmx.arch import ia32_arch as A
    x86enum.quiet()
    L = [(p, m) for p, m in x86enum.leaves() if m.modifs.get('mmx') or '#' in m.name][shard[0]::shard[1]]
    out, seen = [], set()
    for path, m in L:
        for pre in ((), (0x66,), (0xF2,), (0xF3,)):
            if m.afs in (A.d0, A.d1, A.d2, A.d3, A.d4, A.d5, A.d6, A.d7):
                tails = [b'' , bytes([0x24, 0x10])]
            else:
                tails = FORMS
            for t in tails:
              for immb in (b'\x07', b'\x8b'):          # a second immediate byte above 7 and above 0x7f (predicate / selector fields use the low bits only)
                bs = bytes(pre) + bytes(path) + t + immb + b'\x00' * 6
                try: ins = x86mnemo.dis(bs)
                except Exception: continue
                if ins is None or ins.b in seen: continue
                seen.add(ins.b)
                out.append((bytes(ins.b), ins, m.name))
    return out

def same_text(a, b):
    from checks import C01sse
    if a is None or b is None: return False
    ma, oa = C01sse.split(a[1]); mb, ob = C01sse.split(b[1])
    return (ma, oa) == (mb, ob)

def _work(job):
    prop, idx, nparts = job
    common.use_repo()
    from checks import C01sse, asmfam
    from bounded import asmgen
    from miasmx.arch.ia32_arch import x86mnemo
    its = items((idx, nparts))
    ref = C01sse.objdump_slots([b for b, _, _ in its])
    keep = []
    for (b, ins, tn), r in zip(its, ref):
        try: txt = str(ins)
        except Exception: continue
        if r is None or re.match(r'^(rep|repz|repnz|data16|addr16|lock)\b', r[1]): continue
        # C02/C09/C19 need to know what the rendered line denotes: only strings on which miasmX and objdump agree (C01 clause) are used;
        # the fixpoint property C03 is about miasmX's own rendering, whatever it is
        if prop != 'C03' and C01sse.compare(b, ins.l, txt, r) is not None: continue
        keep.append((b, txt.strip(), tn, r))
    groups = {}
    def fail(clause, tn, hx, msg):
        g = groups.setdefault((clause, tn), [0, hx, msg]); g[0] += 1
    n = 0
    cand_all = []
    for (b, txt, tn, r) in keep:
        n += 1
        c, crash = asmfam.safe_asm(txt)
        cand_all.append(c)
    if prop == 'C09':
        for (b, txt, tn, r) in keep:
            try:
                i2 = x86mnemo.dis(b)
                seq = [str(i2).strip(), i2.__str__('att_syntax binutils').strip(), str(i2).strip(), i2.__str__('att_syntax binutils').strip()]
                if seq[0] != seq[2] or seq[1] != seq[3]:
                    fail('sse-render-repeat', tn, b.hex(), '%s renders as %r / %r first and as %r / %r when asked again' % (b.hex(), seq[0], seq[1], seq[2], seq[3]))
            except Exception:
                pass
    if prop == 'C19':
        for (b, txt, tn, r), c0 in zip(keep, cand_all):
            if c0 is None: continue
            s0 = set(c0)
            line = re.sub(r'\s+', ' ', txt)
            vs = [('upper-regs', re.sub(r'\b(xmm\d|mm\d|e[abcd]x|e[sd]i|e[sb]p|[abcd]x|[abcd]l)\b', lambda m: m.group(1).upper(), line)),
                  ('lower-ptr', line.lower()),
                  ('spaces', re.sub(r',\s*', ' ,   ', line).replace('[', '[ ').replace(']', ' ]').replace('+', ' + ') + '  '),
                  ('tabs', line.replace(' ', '\t', 1)),
                  ('hex', re.sub(r', (\d+)$', lambda m: ', 0x%X' % int(m.group(1)), line))]
            for tag, v in vs:
                if v == line: continue
                c, _ = asmfam.safe_asm(v)
                if c is None:
                    fail('sse-%s-rejected' % tag, tn, b.hex(), '%r assembles but its spelling %r is rejected' % (line, v))
                elif set(c) != s0:
                    fail('sse-%s-differs' % tag, tn, b.hex(), '%r and %r assemble to different sets (%s vs %s)' % (line, v, sorted(x.hex() for x in s0)[:3], sorted(x.hex() for x in c)[:3]))
    elif prop == 'C09':
        # both renderings are valid GNU as input for the same instruction (compared through objdump), and re-parse with miasmX
        for syn in ('intel', 'att'):
            texts = []
            for (b, txt, tn, r) in keep:
                if syn == 'intel': texts.append(txt)
                else:
                    try: texts.append(x86mnemo.dis(b).__str__('att_syntax binutils').strip())
                    except Exception as ex: texts.append(None); fail('sse-render-att', tn, b.hex(), 'AT&T rendering of %s (%s) raises %s' % (b.hex(), txt, type(ex).__name__))
            idx = [k for k, t in enumerate(texts) if t is not None and not re.search(r'\b\d{6,}\b', t)]      # absolute numeric operands are exempt (property)
            enc = asmgen.gnu_as([texts[k] for k in idx], syn)
            back = C01sse.objdump_slots([e if e is not None and len(e) <= 15 else b'\x90' for e in enc])
            for k, e, rb in zip(idx, enc, back):
                b, txt, tn, r = keep[k]
                if e is None:
                    fail('sse-gas-%s-rejects' % syn, tn, b.hex(), 'GNU as (%s) rejects %r, the rendering of %s' % (syn, texts[k], b.hex()))
                elif not same_text(rb, r):
                    fail('sse-gas-%s-differs' % syn, tn, b.hex(), 'GNU as (%s) assembles %r to %s = %r, the original %s is %r' % (syn, texts[k], e.hex(), rb and rb[1], b.hex(), r[1]))
            if syn == 'att':
                for k in idx:
                    b, txt, tn, r = keep[k]
                    c, _ = asmfam.safe_asm(texts[k], True)
                    if c is None or b not in c:
                        fail('sse-att-parse', tn, b.hex(), '%s renders (AT&T) as %r, which assembles to %s' % (b.hex(), texts[k], [x.hex() for x in (c or [])][:3] if c is not None else 'an error'))
    elif prop == 'C02':
        flat = [(k, x) for k, c in enumerate(cand_all) for x in (c or [])]
        refc = C01sse.objdump_slots([x for _, x in flat])
        for (k, x), rc in zip(flat, refc):
            b, txt, tn, r = keep[k]
            if rc is None or rc[0] != len(x):
                fail('sse-undecodable', tn, b.hex(), 'candidate %s of %r is read by objdump as %s' % (x.hex(), txt, rc))
            elif not same_text(rc, r):
                fail('sse-meaning', tn, b.hex(), 'candidate %s of %r is %r, the line denotes %r' % (x.hex(), txt, rc[1], r[1]))
    else:
        gas = asmgen.gnu_as([r[1] for (_, _, _, r) in keep], 'intel')
        for (b, txt, tn, r), c, g in zip(keep, cand_all, gas):
            for x in (c or []):
                try: i2 = x86mnemo.dis(x)
                except Exception: i2 = None
                if i2 is None or i2.l != len(x):
                    fail('sse-redecode', tn, b.hex(), 'candidate %s of %r is not read back with its full length' % (x.hex(), txt))
            if g == b and (c is None or b not in c):
                fail('sse-canonical', tn, b.hex(), 'canonical encoding %s renders as %r, which assembles to %s' % (b.hex(), txt, [x.hex() for x in (c or [])][:4] if c is not None else 'an error'))
    return n, groups

def replay(prop, hexbytes, clause):
    common.use_repo()
    from checks import C01sse, asmfam
    from bounded import asmgen
    from miasmx.arch.ia32_arch import x86mnemo
    asmfam.quiet()
    b = binascii.unhexlify(hexbytes)
    ins = x86mnemo.dis(b); txt = str(ins).strip()
    r = C01sse.objdump_slots([b])[0]
    c, _ = asmfam.safe_asm(txt)
    print('%s: %r; objdump %r; asm -> %s' % (hexbytes, txt, r, [x.hex() for x in (c or [])] if c is not None else 'error'))
    bad = False
    if prop == 'C19':
        n, groups = _work(('C19', 0, 1))
        hit = [k for k in groups if k[0] == clause]
        for k in hit[:5]: print(k, groups[k][2])
        return 1 if hit else 0
    if prop == 'C09':
        ta = ins.__str__('att_syntax binutils').strip()
        gi = asmgen.gnu_as([txt], 'intel')[0]; ga = asmgen.gnu_as([ta], 'att')[0]
        ri, ra = C01sse.objdump_slots([gi or b'\x90', ga or b'\x90'])
        ca, _ = asmfam.safe_asm(ta, True)
        print('  AT&T %r; GNU as intel -> %s %r; GNU as att -> %s %r; asm_att -> %s' % (ta, gi and gi.hex(), ri, ga and ga.hex(), ra, [x.hex() for x in (ca or [])] if ca is not None else 'error'))
        if clause == 'sse-render-repeat':
            i2 = x86mnemo.dis(b); a1 = str(i2); a2 = i2.__str__('att_syntax binutils'); a3 = str(i2); a4 = i2.__str__('att_syntax binutils')
            print('  renderings in turn:', a1, '|', a2, '|', a3, '|', a4)
            return 1 if (a1 != a3 or a2 != a4) else 0
        if clause.startswith('sse-gas-intel'): bad = gi is None or not same_text(ri, r)
        elif clause.startswith('sse-gas-att'): bad = ga is None or not same_text(ra, r)
        elif clause == 'sse-att-parse': bad = ca is None or b not in ca
        return 1 if bad else 0
    if prop == 'C02':
        for x, rc in zip(c or [], C01sse.objdump_slots(list(c or []))):
            if rc is None or rc[0] != len(x) or not same_text(rc, r):
                print('  candidate %s: objdump %r' % (x.hex(), rc)); bad = True
    else:
        g = asmgen.gnu_as([r[1]], 'intel')[0]
        if g == b and (c is None or b not in c): bad = True
        for x in (c or []):
            i2 = x86mnemo.dis(x)
            if i2 is None or i2.l != len(x): bad = True
    return 1 if bad else 0

def ob(run, prop):
    nparts = 32
    with multiprocessing.get_context('fork').Pool(min(16, os.cpu_count() or 4)) as pool:
        res = pool.map(_work, [(prop, i, nparts) for i in range(nparts)], chunksize=1)
    n = sum(r[0] for r in res)
    groups = {}
    for r in res:
        for k, g in r[1].items():
            G = groups.setdefault(k, [0, g[1], g[2]]); G[0] += g[0]
    run.bulk('MMX/SSE instructions (reference: objdump / GNU as) for which every clause held', n - sum(1 for _ in groups), 'BND', 'objdump', 0.0, BOUNDED_OK)
    for (clause, tn), (cnt, hx, msg) in sorted(groups.items()):
        oid = '%s:%s[%s]' % (prop, clause, tn)
        rp = run.write_replay(oid, {'obligation': oid, 'detail': msg}, REPLAY % dict(verif=common.VERIF, repo=common.REPO, prop=prop, hexbytes=hx, clause=clause))
        run.ob(oid, FAILED, 'BND', 'objdump', detail='%d cases, e.g. %s' % (cnt, msg), witness=rp, confirmed=True, func=clause)
    run.extra['sse_instructions'] = n
    run.trust('GNU objdump / GNU as for the MMX/SSE maps (checks/asmsse.py)')
    return n
