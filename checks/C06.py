"""C06 - symbolic evaluation is sound substitution.

Deciding contract on eval_abs.eval_expr (shape-bounded SMT): for every enumerated tree e and machine state S
(bindings of identifiers and same-address memory cells to constants / symbols / compounds / absent),
    forall valuation sigma of the free symbols:  den(eval_expr(e), sigma) == den(e, sigma o S)
and: every leaf constant after substitution  =>  the result is an ExprInt (of that value).
"""
import sys, os, time, random, signal, itertools, multiprocessing, traceback, zlib
from vlib import common
from vlib.common import Run, DISCHARGED, FAILED, BOUNDED_OK, UNDECIDED, DOWNGRADED, ENGINE_ERR, Ob

REPLAY = '''
import sys, os
sys.path.insert(0, %(verif)r); sys.path.insert(0, %(repo)r)
sys.dont_write_bytecode = True
sys.setrecursionlimit(10000)
from bounded import gen
from specs import irsem
from checks.C06 import make_machine, subst_state
d, S, val = %(desc)r, %(state)r, %(val)r
e = gen.build(d)
m = make_machine(S)
print('expression :', e)
print('state      :', dict((str(k), str(v)) for k, v in list(m.pool.pool_id.items()) + [(x[0], x[1]) for x in m.pool.pool_mem.values()]))
e_arg = gen.build(d)
try:
    r = m.eval_expr(e_arg, {})
except Exception as ex:
    print('eval_expr raised %%r' %% (ex,)); sys.exit(1 if %(expect_raise)r else 3)
print('evaluated  :', r, type(r).__name__)
if %(frame)r:
    bad = gen.undesc(e_arg) != d
    if bad: print('the argument was modified in place: now', e_arg)
    for (leaf, b, v) in m._verif_held:
        if gen.undesc(v) != b:
            bad = True; print('the state value of', gen.dstr(leaf), 'was modified in place:', gen.dstr(b), 'became', v)
    sys.exit(1 if bad else 0)
if %(must_be_int)r and type(r).__name__ != 'ExprInt':
    print('all inputs are constants but the result is not a constant'); sys.exit(1)
if val is None:
    sys.exit(0)
st = irsem.CState(val['regs'], dict((int(k), v) for k, v in val['mem'].items()), memdefault=lambda a: 0)
v2 = irsem.ev(r, st)
v1 = irsem.ev(e, subst_state(S, st))
print('valuation  :', val)
print('value of e after substitution : 0x%%x' %% v1)
print('value of the evaluation result: 0x%%x' %% v2)
sys.exit(1 if (v1 != v2 or irsem.width(e) != irsem.width(r)) else 0)
'''

class _Timeout(Exception):
    pass
def _alarm(sig, frm):
    raise _Timeout()

# state description: tuple of (leafdesc, bindingdesc) ; leafdesc = ('id',name,w) or ('mem', addrdesc, w)
def make_machine(S):
    from bounded import gen
    from miasmx.expression.expression_eval_abstract import eval_abs
    vars = {}
    held = []
    for leaf, b in S:
        v = gen.build(b)
        vars[gen.build(leaf)] = v
        held.append((leaf, b, v))
    import logging
    m = eval_abs(vars, log=logging.getLogger('verif.null'))
    m._verif_held = held         # the value objects handed to the machine (frame clause: evaluation must not modify them)
    return m

def subst_state(S, cst):
    """concrete state sigma o S"""
    from bounded import gen
    from specs import irsem
    st2 = cst.copy()
    for leaf, b in S:
        v = irsem.ev(gen.build(b), cst)
        if leaf[0] == 'id':
            st2.regs[leaf[1]] = v
        else:
            ad = irsem.ev(gen.build(leaf[1]), cst) & 0xffffffff
            for i in range(leaf[2] // 8):
                st2.mem[(ad + i) & 0xffffffff] = (v >> (8 * i)) & 0xff
    return st2

def leaves_of(d, out):
    k = d[0]
    if k == 'id':
        out.add(d)
    elif k == 'mem':
        out.add(d)
        leaves_of(d[1], out)
    elif k == 'op':
        for x in d[2]: leaves_of(x, out)
    elif k == 'slice':
        leaves_of(d[1], out)
    elif k == 'compose':
        for x in d[1]: leaves_of(x[0], out)
    elif k == 'cond':
        for x in d[1:]: leaves_of(x, out)
    return out

def all_inputs_constant(d, S):
    """every identifier and memory cell occurring in d is bound to a constant by S
       (the address symbol of a bound memory cell does not count as an input)"""
    bound = dict(S)
    def rec(x):
        k = x[0]
        if k == 'int': return True
        if k == 'id': return x in bound and bound[x][0] == 'int'
        if k == 'mem':
            if x in bound: return bound[x][0] == 'int'
            return False
        if k == 'op': return all(rec(y) for y in x[2])
        if k == 'slice': return rec(x[1])
        if k == 'compose': return all(rec(y[0]) for y in x[1])
        if k == 'cond': return all(rec(y) for y in x[1:])
    return rec(d)

def states_for(d, rng, n_mixed):
    from bounded import gen
    L = sorted(leaves_of(d, set()))
    ids = [l for l in L if l[0] == 'id' and l[1] != 'p32']
    # only cells whose address is in normal form can be part of a machine state (eval_instr stores cells under simplified addresses; a state
    # keyed by an unsimplified address is outside the machine's invariant): reads through other addresses stay unbound
    mems = [l for l in L if l[0] == 'mem' and l[1][0] == 'id']
    def binding(leaf, kind, j=0):
        w = leaf[2]
        cs = gen.consts(w)
        if kind == 'const':
            return ('int', w, cs[(j + zlib.crc32(repr(leaf).encode())) % len(cs)])
        if kind == 'sym':
            return ('id', 'x%d_%d' % (w, j % 2), w)
        if kind == 'comp':
            if w == 1:
                return ('op', '^', (('id', 'x1_0', 1), ('int', 1, 1)))
            return ('op', '+', (('id', 'x%d_0' % w, w), ('int', w, 1)))
        if kind == 'slices':
            # the value a register has after byte-wise stores and a wide load: adjacent slices of one symbol, concatenated
            sp = [x for x in gen.compose_splits(w) if len(x) >= 2]
            if not sp:
                return ('id', 'x%d_0' % w, w)
            split = sp[j % len(sp)]
            pos, slots = 0, []
            for n in split:
                slots.append((('slice', ('id', 'x%d_0' % w, w), pos, pos + n), pos, pos + n)); pos += n
            return ('compose', tuple(slots))
    out = [()]
    for kind in ('const', 'sym', 'comp', 'slices'):
        out.append(tuple((l, binding(l, kind, i)) for i, l in enumerate(ids + mems)))
    out.append(tuple((l, binding(l, 'const', i + 3)) for i, l in enumerate(ids + mems)))
    for k in range(n_mixed):
        S = []
        for i, l in enumerate(ids + mems):
            kind = rng.choice(('absent', 'const', 'const', 'sym', 'comp'))
            if kind != 'absent':
                S.append((l, binding(l, kind, rng.randrange(8))))
        out.append(tuple(S))
    # the lifter's named multiplications and divisions over leaves: every combination of boundary constants (signs, 0, 1, small values with a
    # remainder, the extremes) - quotient rounding, sign rules and the divide-error conditions live in these combinations
    import re as _re
    if d[0] == 'op' and _re.match(r'^(u|i)mul\d+(_hi|_lo)?$|^i?(div|rem)\d+$', d[1]) and all(x[0] == 'id' for x in d[2]):
        import itertools as _it
        w = d[2][0][2]
        K = sorted(set([0, 1, 2, 3, 7, (1 << (w - 1)) - 1, 1 << (w - 1), (1 << (w - 1)) + 1, (1 << w) - 3, (1 << w) - 2, (1 << w) - 1]))
        for vs in _it.product(K, repeat=len(d[2])):
            out.append(tuple((l, ('int', l[2], v)) for l, v in zip(d[2], vs)))
    seen, res = set(), []
    for S in out:
        if S not in seen:
            seen.add(S)
            res.append(S)
    return res

def division_faults(d, S):
    """does some division of the tree, in the state S, have a definedness condition (divisor != 0, quotient fits) that is FALSE outright?"""
    from bounded import gen
    from liftvc import den as D
    import z3
    st = D.State()
    try:
        sub = st.copy()
        for leaf, b in S:
            if leaf[0] == 'id':
                sub.regs[(leaf[1], leaf[2])] = D.den(gen.build(b), st)
        mem = st.mem
        for leaf, b in S:
            if leaf[0] == 'mem':
                mem = D.mem_write(mem, D.fit(D.den(gen.build(leaf[1]), st), 32), D.den(gen.build(b), st), leaf[2] // 8)
        sub.mem = mem
        n0 = len(sub.defined)
        D.den(gen.build(d), sub)
    except Exception:
        return False
    return any(z3.is_false(z3.simplify(c)) for c in sub.defined)

def check(d, S, timeout_ms=10000):
    from bounded import gen
    from liftvc import equiv, den as D
    import z3
    e1 = gen.build(d)
    m = make_machine(S)
    signal.signal(signal.SIGALRM, _alarm)
    signal.alarm(5)
    wit = {'desc': d, 'state': S, 'val': None, 'raise': False, 'int': False}
    e_arg = gen.build(d)
    try:
        r = m.eval_expr(e_arg, {})
    except _Timeout:
        # a second, patient attempt on a fresh machine and tree before non-termination is claimed
        m = make_machine(S)
        e_arg = gen.build(d)
        signal.alarm(common.patience(60))
        try:
            r = m.eval_expr(e_arg, {})
            signal.alarm(0)
        except _Timeout:
            return ('failed', 'terminates', 'eval_expr did not return within %d s' % common.patience(60), dict(wit, **{'raise': True}))
        except Exception as ex:
            signal.alarm(0)
            return ('failed', 'noraise', 'eval_expr raised %s: %s' % (type(ex).__name__, str(ex)[:100]), dict(wit, **{'raise': True}))
    except Exception as ex:
        if isinstance(ex, ValueError) and str(ex) in ('div by 0', 'Divide Error') and division_faults(d, S):
            # a division whose operands are constants in this state and whose divisor is 0 / whose quotient does not fit: the evaluator
            # reports the divide error, there is no value to compare
            return ('ok', 'sem', 'divide error', None)
        return ('failed', 'noraise', 'eval_expr raised %s: %s' % (type(ex).__name__, str(ex)[:100]), dict(wit, **{'raise': True}))
    finally:
        signal.alarm(0)
    # frame: eval_expr reads its argument and the state; neither may be modified (memo flags aside)
    if gen.undesc(e_arg) != d:
        return ('failed', 'frame', 'eval_expr modified its argument in place: now %s' % e_arg, dict(wit, frame=True))
    for (leaf, b, v) in getattr(m, '_verif_held', []):
        if gen.undesc(v) != b:
            return ('failed', 'frame', 'eval_expr modified the value bound to %s in the state: %s became %s' % (gen.dstr(leaf), gen.dstr(b), v), dict(wit, frame=True))
    # sigma o S as a symbolic state
    st = D.State()
    try:
        binds = []
        for leaf, b in S:
            binds.append((leaf, D.den(gen.build(b), st)))
        sub = st.copy()             # copy: registers overridden below
        for leaf, v in binds:
            if leaf[0] == 'id':
                sub.regs[(leaf[1], leaf[2])] = v
        # free symbols must be the same variables in both states: pre-create those of e
        for l in leaves_of(d, set()):
            if l[0] == 'id' and (l[1], l[2]) not in sub.regs:
                sub.regs[(l[1], l[2])] = st.reg(l[1], l[2])
        mem = st.mem
        for leaf, v in binds:
            if leaf[0] == 'mem':
                ad = D.fit(D.den(gen.build(leaf[1]), st), 32)
                mem = D.mem_write(mem, ad, v, leaf[2] // 8)
        sub.mem = mem
        d1 = D.den(e1, sub)
        d2 = D.den(r, st)
    except D.IllTyped as ex:
        return ('failed', 'welltyped', 'ill-typed: %s' % ex, wit)
    st.reads += sub.reads
    if d1.size() != d2.size():
        return ('failed', 'width', 'width %d becomes %d: %s evaluates to %s' % (d1.size(), d2.size(), e1, r), wit)
    s1 = z3.simplify(d1)
    if all_inputs_constant(d, S) and type(r).__name__ != 'ExprInt' and z3.is_bv_value(s1) and not st.defined:
        # every input is a constant: the result must be the constant
        return ('failed', 'constant', 'all inputs constant (value 0x%x) but result is %s' % (s1.as_long(), r), dict(wit, **{'int': True}))
    if d1.eq(d2):
        return ('ok', 'sem', 'syntactic', None)
    g = z3.simplify(d1 != d2)
    if z3.is_false(g):
        return ('ok', 'sem', 'simplifier', None)
    s = z3.SolverFor('QF_AUFBV')
    s.set('timeout', timeout_ms)
    s.add(g)
    for c in st.defined:        # bsf/bsr of 0 and division by 0 are undefined: not constrained
        s.add(c)
    rr = s.check()
    if rr == z3.unsat:
        return ('ok', 'sem', 'z3', None)
    if rr == z3.sat:
        val = equiv.model_to_valuation(s.model(), st)
        from specs import irsem
        cst = irsem.CState(val['regs'], dict(val['mem']), memdefault=lambda a: 0)
        try:
            v2 = irsem.ev(r, cst)
            v1 = irsem.ev(gen.build(d), subst_state(S, cst))
        except Exception as ex:
            return ('engine', 'sem', 'concrete interpreter failed: %r' % (ex,), None)
        if v1 != v2:
            return ('failed', 'sem', '%s in state %s evaluates to %s; valuation %s gives 0x%x (substituted) vs 0x%x (result)' % (
                e1, [(gen.dstr(l), gen.dstr(b)) for l, b in S], r, val['regs'], v1, v2), dict(wit, val=val))
        return ('engine', 'sem', 'model does not replay concretely: %s / %s / %s' % (e1, r, val), None)
    return ('downgraded', 'sem', 'z3 unknown', None)

def lifter_ops(w):
    """operators the x86 lifter produces, over leaves (state-bound constants make them all-constant)"""
    from bounded import gen
    a, b = gen.ids(w)
    c = ('id', 'c1', 1)
    out = []
    if w in (8, 16, 32):
        for op in ('umul%02d_hi' % w if w != 8 else 'umul08', 'umul%02d_lo' % w if w != 8 else 'umul08',
                   'imul%02d_hi' % w if w != 8 else 'imul08', 'imul%02d_lo' % w if w != 8 else 'imul08'):
            out.append(('op', op, (a, b)))
        for op in ('div%d' % w, 'rem%d' % w, 'idiv%d' % w, 'irem%d' % w):
            out.append(('op', op, (a, b, ('id', 'c%d' % w, w))))
        for op in ('<<<c_rez', '<<<c_cf', '>>>c_rez', '>>>c_cf'):
            out.append(('op', op, (a, b, c)))
        # the operators the evaluator accepts with operands of different widths (the lifter's shift / rotate counts are cl or an immediate,
        # the carry operand of rcl/rcr may be wider than one bit): the result has the width of the FIRST operand
        for w2 in (8, 32):
            if w2 == w: continue
            n = ('id', 'n%d' % w2, w2)
            for op in ('<<', '>>', 'a>>', '<<<', '>>>'):
                out.append(('op', op, (a, n)))
            for op in ('<<<c_rez', '<<<c_cf', '>>>c_rez', '>>>c_cf'):
                out.append(('op', op, (a, b, ('int', w2, 0))))      # the carry as a wider constant 0 / 1 (flags are assigned 32-bit constants by the lifter)
                out.append(('op', op, (a, b, ('int', w2, 1))))
                out.append(('op', op, (a, n, c)))
        out.append(('op', 'bsf', (a,)))
        out.append(('op', 'bsr', (a,)))
        out.append(('op', 'bsf', (b, a)))
        out.append(('op', 'bsr', (b, a)))
        out.append(('op', '!', (a,)))
        out.append(('op', '<', (a, b)))
        for op in gen.ASSOC:
            out.append(('op', op, (a, b, ('id', 'c%d' % w, w))))
            out.append(('op', op, (a, b, ('id', 'c%d' % w, w), ('id', 'd%d' % w, w))))
    return out

def corpus(tier, seed):
    from bounded import gen
    rng = random.Random(seed + 6)
    seen, trees = set(), []
    def add(d):
        k = gen.dstr(d)
        if k not in seen:
            seen.add(k); trees.append(d)
    for w in gen.WIDTHS:
        for d in lifter_ops(w): add(d)
    for w in ((8, 32) if tier == 'quick' else gen.WIDTHS):
        for d in gen.depth1(w, small=True): add(d)
    for w in gen.WIDTHS:
        ts = gen.templates(w)
        if tier == 'quick':
            ts = [t for i, t in enumerate(ts) if i % 6 == 0]
        for d in ts: add(d)
    for i in range(3000 if tier == 'quick' else 60000):
        add(gen.random_tree(rng, rng.choice(gen.WIDTHS), rng.choice((2, 3, 3))))
    return trees

def _work(job):
    batch, seed, n_mixed = job
    common.use_repo()
    sys.setrecursionlimit(10000)
    from bounded import gen
    out = {'ok': 0, 'changed': 0, 'down': 0, 'fails': [], 'n': 0, 'secs': 0.0}
    t0 = time.time()
    for d in batch:
        rng = random.Random(zlib.crc32(gen.dstr(d).encode()) + seed)
        for S in states_for(d, rng, n_mixed):
            out['n'] += 1
            try:
                status, clause, detail, wit = check(d, S)
            except Exception:
                status, clause, detail, wit = 'engine', 'crash', traceback.format_exc()[-800:], None
            if status == 'ok':
                out['ok'] += 1
                if detail != 'syntactic': out['changed'] += 1
            elif status == 'downgraded':
                out['down'] += 1
            else:
                key = '%s|%s' % (gen.dstr(d), ';'.join('%s=%s' % (gen.dstr(l), gen.dstr(b)) for l, b in S))
                out['fails'].append((key, status, clause, detail, wit))
    out['secs'] = time.time() - t0
    return out

def main(argv):
    tier, seed, rest = common.parse_args(argv)
    common.use_repo()
    sys.setrecursionlimit(10000)
    run = Run('C06', tier, seed, 'other', 'cd /verif && ./vcheck C06 --tier %s' % tier)
    from bounded import gen
    trees = corpus(tier, seed)
    B = 100
    n_mixed = 2 if tier == 'quick' else 6
    jobs = [(trees[i:i + B], seed, n_mixed) for i in range(0, len(trees), B)]
    with multiprocessing.get_context('fork').Pool(min(16, os.cpu_count() or 4)) as pool:
        results = pool.map(_work, jobs, chunksize=1)
    n = sum(r['n'] for r in results)
    run.bulk('eval_expr (tree,state) pairs', sum(r['ok'] for r in results), 'SMT-shape', 'z3', sum(r['secs'] for r in results), DISCHARGED)
    run.bulk('eval_expr pairs with solver unknown', sum(r['down'] for r in results), 'SMT-shape', 'z3', 0.0, DOWNGRADED)
    nf = 0
    for r in results:
        for (k, status, clause, detail, wit) in r['fails']:
            oid = 'C06:eval_expr[%s]:%s' % (k, clause)
            if status == 'engine':
                run.ob(oid, ENGINE_ERR, 'SMT-shape', 'z3', detail=detail)
                continue
            nf += 1
            if nf > 30 or wit is None:
                run.ob(oid, FAILED, 'SMT-shape', 'z3', detail=detail, witness={'desc': repr(wit and wit['desc'])}, confirmed=True, func='eval_expr')
                continue
            script = REPLAY % dict(verif=common.VERIF, repo=common.REPO, desc=wit['desc'], state=wit['state'], val=wit['val'],
                                   expect_raise=wit['raise'], must_be_int=wit['int'], frame=wit.get('frame', False))
            rp = run.write_replay(oid, {'obligation': oid, 'detail': detail}, script)
            rc, outp = common.native_run(rp, timeout=60)
            if rc == 1:
                run.ob(oid, FAILED, 'SMT-shape', 'z3', detail=detail, witness=rp, confirmed=True, func='eval_expr')
            else:
                run.ob(oid, ENGINE_ERR, 'SMT-shape', 'z3', detail='native replay does not confirm (rc=%s): %s | %s' % (rc, detail, outp[-300:]))
    run.evaluations = n
    run.distinct = sum(r['changed'] for r in results)
    run.rule = ('(tree, state) pairs: trees = lifter operators (named x86 ops, n-ary forms) + depth-1 trees + rule templates + seeded random trees; '
                'states bind every identifier / same-address memory cell of the tree to: nothing, boundary constants (2 variants), a fresh symbol, '
                'a compound (symbol+1), and %d seeded mixed assignments; each pair: real eval_expr on fresh objects, then z3 refutes '
                'den(result) != den(e) o S for all valuations; non-trivial = result differs syntactically from the substituted input' % n_mixed)
    run.explanation = ('shape/state-bounded, valuation-unbounded SMT: the contract of eval_expr (soundness of substitution, constants fold to constants) '
                       'is proved per enumerated (tree, state) for all valuations of the free symbols; eval_ExprMem/eval_ExprOp are not proved inductively')
    run.samples = [gen.dstr(d) for d in trees[:4] + trees[-4:]]
    run.trust('z3 5.1'); run.trust('S-ir denotation liftvc/den.py; independent concrete interpreter specs/irsem.py for replays')
    run.assume('bound memory cells are addressed by a free symbol (p32); overlapping cells are the subject of C07')
    run.assume('fresh node objects per evaluation (sharing/memo effects are the subject of C12)')
    # SMT-A: the linear constant evaluators eval_op_* verified from their AST for all operand values
    from checks import C06smt
    run.assume('SMT-A shifts (C06smt): for the symbolic counts >= width of eval_op_rshift/arshift one fact of Python int.__rshift__ is assumed as a quantified premise: -2^n <= a < 2^n and r >= n  =>  a >> r == (-1 if a < 0 else 0); counts below the width are enumerated and encoded exactly')
    run.assume('SMT-A rotates (C06smt): counts 0..2n-1 and 2^n-1 enumerated; assumed fact of Python int.__or__ as hypothesis of the postcondition: a | b == a + b for a a non-negative multiple of 2^k and 0 <= b < 2^k; counts in [2n, 2^n-2] rest on the reduction r %= op_size (C14 contract of %), sampled by the native twin only')
    run.assume('SMT-A (C06smt): Python integers are mathematical; & | ^ with two symbolic operands are uninterpreted (congruence only) except masks 2^k-1 and operands below 256')
    C06smt.ob_smt(run)
    run.notes.append('eval_op_plus/mult/minus/and/or/xor/not/eq/inf/mullo/mulhi: proved for all operand values (SMT-A, callee contracts of C14); shifts, rotates, division, bit scans: shape-bounded SMT only')
    return run.finish()

if __name__ == '__main__':
    sys.exit(main(sys.argv[1:]))
