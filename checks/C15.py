"""C15 - IR nodes obey structural laws: equality, hashing, copy, visit, substitution, canonize.

Run-time twins of the contracts of __eq__/__hash__/copy/visit/replace_expr/canonize over enumerated trees; the clauses that
speak about *values* (equal => same value; replace_expr denotes substitution; canonize preserves the value) are discharged
by z3 for ALL valuations per tree (shape-bounded SMT).  Structural read-back (undesc_x) is independent of the repo's __eq__.
"""
import sys, os, time, random, itertools, multiprocessing, traceback, zlib
from vlib import common
from vlib.common import Run, DISCHARGED, FAILED, BOUNDED_OK, UNDECIDED, DOWNGRADED, ENGINE_ERR, Ob

REPLAY = '''
import sys, os
sys.path.insert(0, %(verif)r); sys.path.insert(0, %(repo)r)
sys.dont_write_bytecode = True
sys.setrecursionlimit(10000)
from checks import C15
sys.exit(C15.replay(%(law)r, %(args)r))
'''

def build(d):
    from checks.C13 import build_x
    from miasmx.expression import expression as E
    if d[0] == 'sreg':
        return E.ExprId(d[1], 16, is_reg=True)
    if d[0] == 'aff':
        return E.ExprAff(build(d[1]), build(d[2]))
    return build_x(d)

def undesc(e):
    from checks.C13 import undesc_x
    if e.__class__.__name__ == 'ExprAff':
        return ('aff', undesc(e.dst), undesc(e.src))
    return undesc_x(e)

def dstr(d):
    from checks.C13 import dstr_x
    if d[0] == 'sreg':
        return d[1]
    if d[0] == 'aff':
        return '%s = %s' % (dstr(d[1]), dstr(d[2]))
    return dstr_x(d)

def nodes(e, out=None):
    """all node objects of a tree (identity walk), independent of the repo's visit"""
    out = [] if out is None else out
    out.append(e)
    n = e.__class__.__name__
    if n == 'ExprMem':
        nodes(e.arg, out)
        if e.segm is not None and hasattr(e.segm, 'get_size'): nodes(e.segm, out)
    elif n == 'ExprOp':
        for a in e.args: nodes(a, out)
    elif n == 'ExprSlice': nodes(e.arg, out)
    elif n == 'ExprCompose':
        for a in e.args: nodes(a[0], out)
    elif n == 'ExprCond':
        for a in (e.cond, e.src1, e.src2): nodes(a, out)
    elif n == 'ExprAff':
        nodes(e.dst, out); nodes(e.src, out)
    return out

def sub_descs(d, out=None):
    out = [] if out is None else out
    out.append(d)
    k = d[0]
    if k == 'mem': sub_descs(d[1], out)
    elif k == 'smem': sub_descs(d[2], out)
    elif k == 'op':
        for x in d[2]: sub_descs(x, out)
    elif k == 'slice': sub_descs(d[1], out)
    elif k == 'compose':
        for x in d[1]: sub_descs(x[0], out)
    elif k == 'cond':
        for x in d[1:]: sub_descs(x, out)
    elif k == 'aff':
        sub_descs(d[1], out); sub_descs(d[2], out)
    return out

def value_equal(e1, e2, timeout_ms=10000):
    """(verdict, info) with verdict in equal/different/unknown/width/illtyped for two value expressions"""
    from liftvc import equiv
    v, info, st = equiv.prove_equal(e1, e2, timeout_ms)
    return v, info

# ------------------------------------------------------------------------------------------------
def corpus(tier, seed):
    from bounded import gen
    from checks import C13
    rng = random.Random(seed + 15)
    seen, out = set(), []
    def add(d):
        if d not in seen:
            seen.add(d); out.append(d)
    for w in ((8, 32) if tier == 'quick' else gen.WIDTHS):
        for d in C13.operand_pool(w): add(d)
        for d in gen.depth1(w, small=True): add(d)
        pool = C13.operand_pool(w)
        for op in gen.ASSOC + ('-', '<<', '>>', 'a>>', '<<<', '>>>', '=='):
            for x, y in itertools.permutations(pool[:9], 2):
                add(('op', op, (x, y)))
        for op in gen.ASSOC:
            for x, y, z in itertools.permutations(pool[:6], 3):
                add(('op', op, (x, y, z)))
        a, b = gen.ids(w)
        add(('aff', a, b)); add(('aff', a, ('op', '+', (a, b))))
        if w >= 8:
            add(('aff', ('mem', ('id', 'p32', 32), w), a)); add(('aff', ('smem', 'fs', ('id', 'p32', 32), w), ('op', '^', (a, b))))
            add(('smem', 'fs', ('op', '+', (('id', 'p32', 32), ('int', 32, 4))), w))
    for w in gen.WIDTHS:
        ts = gen.templates(w)
        for i, d in enumerate(ts):
            if tier != 'quick' or i % 5 == 0: add(d)
    for i in range(2500 if tier == 'quick' else 60000):
        add(gen.random_tree(rng, rng.choice(gen.WIDTHS), rng.choice((2, 3, 3, 4))))
    # same value, different widths (equality must distinguish them: equal => equal value)
    for v in (0, 1, 0xff):
        for w in gen.WIDTHS:
            if v < (1 << w): add(('int', w, v))
    return out

def law_tree(d):
    """per-tree laws; returns list of (law, detail, replay args)"""
    from bounded import gen
    fails = []
    e = build(d)
    # reflexive + hash stable
    e2 = build(d)
    if not (e == e2) or (e != e2):
        fails.append(('eq.refl', 'two structurally identical trees are not equal: %s' % e, ('eq.refl', d)))
    elif hash(e) != hash(e2):
        fails.append(('eq.hash', 'equal trees hash differently: %s' % e, ('eq.hash', d)))
    # equal => same hash also for trees that differ only in attributes __eq__ does not look at (is_term of an identifier)
    e3 = build(d)
    for x in nodes(e3):
        if x.__class__.__name__ == 'ExprId': x.is_term = not x.is_term
    try:
        if e == e3 and hash(e) != hash(e3):
            fails.append(('eq.hash', 'trees that compare equal (identifiers differ only in is_term) hash differently: %s' % e, ('eq.hash', d)))
    except Exception as ex:
        fails.append(('eq.hash', 'comparison raised %s' % ex, ('eq.hash', d)))
    # copy
    c = e.copy()
    if undesc(c) != d or not (c == e):
        fails.append(('copy.equal', 'copy differs: %s -> %s' % (e, c), ('copy', d)))
    else:
        orig = set(id(x) for x in nodes(e))
        shared = [x for x in nodes(c) if id(x) in orig]
        if shared:
            fails.append(('copy.fresh', 'copy shares node %s (%s) with the original %s' % (shared[0], type(shared[0]).__name__, e), ('copy', d)))
    if undesc(e) != d:
        fails.append(('copy.frame', 'copy() modified its receiver', ('copy', d)))
    # visit with identity
    e = build(d)
    v = e.visit(lambda x: x)
    if undesc(v) != d:
        fails.append(('visit.id', 'visit(identity) returns a different expression: %s -> %s' % (e, v), ('visit', d)))
    if undesc(e) != d:
        fails.append(('visit.frame', 'visit() modified its receiver', ('visit', d)))
    # canonize preserves the value (value expressions only)
    if d[0] != 'aff':
        e = build(d)
        try:
            cz = e.canonize()
        except Exception as ex:
            cz = None
            fails.append(('canonize.noraise', 'canonize raised %s: %s on %s' % (type(ex).__name__, ex, e), ('canonize', d)))
        if cz is not None:
            verdict, info = value_equal(build(d), cz)
            if verdict in ('different', 'width', 'illtyped'):
                fails.append(('canonize.value', 'canonize changes the value: %s -> %s (%s)' % (build(d), cz, info if verdict != 'different' else info['regs']), ('canonize', d)))
            elif verdict == 'unknown':
                fails.append(('canonize.value', None, None))
    return fails

def law_replace(d, rng):
    """replace_expr(map) denotes substitution: den(result) sigma == den(e) sigma[k -> den(map k)]
       precondition: keys are identifiers / memory cells of e, no key occurs inside another key or inside a replacement"""
    from bounded import gen
    from liftvc import den as D, equiv
    import z3
    if d[0] == 'aff':
        return []
    subs = [x for x in sub_descs(d) if x[0] in ('id', 'mem', 'smem')]
    ids = sorted(set(x for x in subs if x[0] == 'id' and x[1] != 'p32'))
    mems = sorted(set(x for x in subs if x[0] in ('mem', 'smem')))
    fails = []
    maps = []
    if ids:
        # constants exist only for the widths that have a modint class: prefer such an identifier as the first key
        ids = sorted(ids, key=lambda x: x[2] not in gen.UINT)
        k = ids[0]; w = k[2]
        if w not in gen.UINT:
            ids = []
    if ids:
        maps.append({k: ('int', w, gen.consts(w)[-1])})
        maps.append({k: ('id', 'r%d' % w, w)})
        maps.append({k: ('op', '+', (('id', 'r%d' % w, w), ('int', w, 1))) if w > 1 else ('id', 'r1', 1)})
        if len(ids) > 1 and ids[1][2] in gen.UINT:
            k2 = ids[1]
            maps.append({k: ('id', 'r%d' % w, w), k2: ('int', k2[2], 1)})
    if any(x[0] == 'smem' and x[1] == 'fs' for x in subs):
        # substitution that hits only the segment selector of a segmented cell
        maps.append({('sreg', 'fs'): ('sreg', 'gs')})
    if mems and len(mems) == 1:
        # a memory key is only used when it is the ONLY memory cell of the tree: any other cell may alias it
        # (same storage reached through another segment / address expression), and then syntactic replacement
        # is not substitution of the cell's value -- outside the precondition of the contract
        m = mems[0]; w = m[-1]
        maps.append({m: ('id', 'r%d' % w, w)})
        maps.append({m: ('int', w, 1)})
    for mp in maps:
        e = build(d)
        real = dict((build(k), build(v)) for k, v in mp.items())
        try:
            r = e.replace_expr(real)
        except Exception as ex:
            fails.append(('replace.noraise', 'replace_expr raised %s: %s' % (type(ex).__name__, ex), ('replace', d, sorted(mp.items()))))
            continue
        # substituted state
        st = D.State()
        try:
            sub = st.copy()
            memv = st.mem
            for k, v in mp.items():
                dv = D.den(build(v), st)
                if k[0] == 'id':
                    sub.regs[(k[1], k[2])] = dv
                if k[0] == 'sreg':
                    sub.regs[(k[1], 16)] = dv
            for x in subs:
                if x[0] == 'id' and (x[1], x[2]) not in sub.regs:
                    sub.regs[(x[1], x[2])] = st.reg(x[1], x[2])
            for k, v in mp.items():
                if k[0] in ('mem', 'smem'):
                    km = build(k)
                    memv = D.mem_write(memv, D.address(km, st), D.den(build(v), st), k[-1] // 8)
            sub.mem = memv
            d1 = D.den(build(d), sub)
            d2 = D.den(r, st)
        except D.IllTyped as ex:
            fails.append(('replace.value', 'ill-typed: %s' % ex, ('replace', d, sorted(mp.items()))))
            continue
        if d1.size() != d2.size():
            fails.append(('replace.value', 'width changes: %s with %s -> %s' % (build(d), mp, r), ('replace', d, sorted(mp.items()))))
            continue
        if d1.eq(d2):
            continue
        s = z3.SolverFor('QF_AUFBV'); s.set('timeout', 10000)
        s.add(d1 != d2)
        rr = s.check()
        if rr == z3.sat:
            fails.append(('replace.value', 'replace_expr does not denote substitution: %s with {%s} -> %s' % (
                build(d), ', '.join('%s: %s' % (dstr(k), dstr(v)) for k, v in mp.items()), r), ('replace', d, sorted(mp.items()))))
        elif rr != z3.unsat:
            fails.append(('replace.value', None, None))
        # frame: the receiver is unchanged
        if undesc(e) != d:
            fails.append(('replace.frame', 'replace_expr modified its receiver', ('replace', d, sorted(mp.items()))))
    return fails

def subst_desc(d, K, R):
    """reference term substitution on descriptions: every occurrence of the sub-description K becomes R"""
    if d == K: return R
    k = d[0]
    f = lambda x: subst_desc(x, K, R)
    if k == 'mem': return ('mem', f(d[1]), d[2])
    if k == 'smem': return ('smem', d[1] if isinstance(d[1], str) else f(d[1]), f(d[2]), d[3])
    if k == 'op': return ('op', d[1], tuple(f(x) for x in d[2]))
    if k == 'slice': return ('slice', f(d[1]), d[2], d[3])
    if k == 'compose': return ('compose', tuple((f(x[0]), x[1], x[2]) for x in d[1]))
    if k == 'cond': return ('cond', f(d[1]), f(d[2]), f(d[3]))
    if k == 'aff': return ('aff', f(d[1]), f(d[2]))
    return d

def law_replace_struct(d):
    """replace_expr with keys that are not read-set members: a composite sub-expression, a constant, and (for assignments) an identifier that
       occurs only in the destination.  The result must be the term substitution (structural reference; the replacement is a fresh identifier,
       so bottom-up and top-down replacement coincide)."""
    from bounded import gen
    fails = []
    subs = sub_descs(d)
    body = subs[1:]
    keys = []
    def width(x):
        if x[0] == 'smem': return x[3]
        if x[0] == 'aff': return None
        try: return gen.dwidth(x)
        except Exception: return None
    comp = [x for x in body if x[0] in ('op', 'slice', 'cond', 'compose') and width(x)]
    if comp: keys.append(comp[0]); keys.append(comp[-1])
    ints = [x for x in body if x[0] == 'int']
    if ints: keys.append(ints[0])
    if d[0] == 'aff':
        src_ids = set(x for x in sub_descs(d[2]) if x[0] == 'id')
        keys += [x for x in sub_descs(d[1]) if x[0] == 'id' and x not in src_ids][:2]
        keys += [x for x in sub_descs(d[2]) if x[0] == 'id'][:1]
    done = set()
    for K in keys:
        if K in done: continue
        done.add(K)
        w = width(K)
        if not w: continue
        R = ('id', 'r%d' % w, w)
        if d[0] == 'aff' and K == d[1] and K[0] != 'id': continue
        ref = subst_desc(d, K, R)
        if ref[0] == 'aff' and ref[1][0] == 'slice': continue      # the constructor rewrites slice destinations: other clause (C11)
        e = build(d)
        try:
            r = e.replace_expr({build(K): build(R)})
            got = undesc(r)
        except Exception as ex:
            fails.append(('replace.noraise', 'replace_expr({%s: %s}) raised %s: %s' % (dstr(K), dstr(R), type(ex).__name__, ex), ('replace-struct', d))); continue
        if got != ref:
            fails.append(('replace.struct', 'replace_expr does not denote substitution: %s with {%s: %s} -> %s, the substitution gives %s' % (
                build(d), dstr(K), dstr(R), r, dstr(ref)), ('replace-struct', d)))
        if undesc(e) != d:
            fails.append(('replace.frame', 'replace_expr modified its receiver', ('replace-struct', d)))
    return fails

def law_pairs(ds):
    """equivalence laws on a pool of trees: symmetry, transitivity, eq => hash, eq => same structure class / same value"""
    fails = []
    objs = [(d, build(d)) for d in ds]
    n = 0
    eqpairs = []
    for (d1, e1), (d2, e2) in itertools.combinations(objs, 2):
        n += 1
        try:
            a, b = (e1 == e2), (e2 == e1)
        except Exception as ex:
            fails.append(('eq.noraise', '== raised %s on %s, %s' % (type(ex).__name__, e1, e2), ('pair', d1, d2)))
            continue
        if bool(a) != bool(b):
            fails.append(('eq.sym', '== is not symmetric on %s, %s' % (e1, e2), ('pair', d1, d2)))
        if bool(a) != (not (e1 != e2)):
            fails.append(('eq.ne', '!= is not the negation of == on %s, %s' % (e1, e2), ('pair', d1, d2)))
        if a:
            eqpairs.append((d1, d2))
            if hash(e1) != hash(e2):
                fails.append(('eq.hash', 'equal but different hashes: %s, %s' % (e1, e2), ('pair', d1, d2)))
            if d1 != d2 and d1[0] != 'aff' and d2[0] != 'aff':
                # equal => equal values (for all valuations)
                verdict, info = value_equal(build(d1), build(d2))
                if verdict in ('different', 'width', 'illtyped'):
                    fails.append(('eq.value', 'equal expressions with different values: %s == %s (%s)' % (
                        dstr(d1), dstr(d2), info if verdict != 'different' else info['regs']), ('pair', d1, d2)))
        elif d1 == d2:
            fails.append(('eq.refl', 'identical structure but not equal: %s' % dstr(d1), ('pair', d1, d2)))
    # transitivity on the equal pairs
    adj = {}
    for a, b in eqpairs:
        adj.setdefault(a, set()).add(b); adj.setdefault(b, set()).add(a)
    for a in adj:
        for b in adj[a]:
            for c in adj[b]:
                if c != a and c not in adj[a]:
                    fails.append(('eq.trans', '== is not transitive: %s == %s == %s' % (dstr(a), dstr(b), dstr(c)), ('pair', a, c)))
    return n, fails

def replay(law, args):
    """native replay of one failing law instance; exit code 1 iff the law is violated"""
    import zlib
    kind = args[0]
    if kind == 'pair':
        n, fails = law_pairs([args[1], args[2]] + ([] if len(args) < 4 else [args[3]]))
        if law == 'eq.trans':
            return 1 if not (build(args[1]) == build(args[2])) else 0
    elif kind == 'replace':
        fails = law_replace(args[1], random.Random(0))
    elif kind == 'replace-struct':
        fails = law_replace_struct(args[1])
    else:
        fails = law_tree(args[1])
    for f in fails:
        if f[1] is not None:
            print('%s: %s' % (f[0], f[1]))
    return 1 if any(f[0] == law and f[1] is not None for f in fails) else 0

def _work(job):
    kind, items, seed = job
    common.use_repo()
    sys.setrecursionlimit(10000)
    out = {'n': 0, 'fails': [], 'unknown': 0}
    rng = random.Random(seed)
    try:
        if kind == 'tree':
            for d in items:
                fs = law_tree(d) + law_replace(d, rng) + law_replace_struct(d)
                out['n'] += 9
                for f in fs:
                    if f[1] is None: out['unknown'] += 1
                    else: out['fails'].append((dstr(d),) + f)
        else:
            n, fs = law_pairs(items)
            out['n'] += n
            for f in fs:
                out['fails'].append((dstr(f[2][1]) + ' , ' + dstr(f[2][2]),) + f)
    except Exception:
        out['fails'].append(('crash', 'crash', traceback.format_exc()[-800:], None))
    return out

def main(argv):
    tier, seed, rest = common.parse_args(argv)
    common.use_repo()
    sys.setrecursionlimit(10000)
    run = Run('C15', tier, seed, 'other', 'cd /verif && ./vcheck C15 --tier %s' % tier)
    trees = corpus(tier, seed)
    rng = random.Random(seed)
    jobs = [('tree', trees[i:i + 150], seed + i) for i in range(0, len(trees), 150)]
    # pair pools: blocks of related trees (same width neighbours in the corpus) + the operand pools
    from checks import C13
    from bounded import gen
    for w in gen.WIDTHS:
        pool = C13.operand_pool(w) + [('int', w2, v) for w2 in gen.WIDTHS for v in (0, 1) if v < (1 << w2)]
        a, b = gen.ids(w)
        pool += [('op', '+', (a, b)), ('op', '+', (b, a)), ('op', '+', (a, b, a)), ('op', '*', (a, b)), ('op', '-', (a,)), ('op', '-', (a, b)),
                 ('aff', a, b), ('aff', b, a), ('cond', a, a, b), ('cond', a, b, a), ('slice', ('id', 'a64', 64), 0, w) if w < 64 else a,
                 ('id', 'a%d' % w, 64 if w != 64 else 32)]
        if w >= 8:
            pool += [('smem', 'ds', ('id', 'p32', 32), w), ('smem', 'es', ('id', 'p32', 32), w), ('mem', ('id', 'p32', 32), w),
                     ('mem', ('id', 'p32', 32), 8 if w != 8 else 16)]
        jobs.append(('pairs', pool, 0))
    for i in range(40 if tier == 'quick' else 400):
        jobs.append(('pairs', rng.sample(trees, 40), 0))
    with multiprocessing.get_context('fork').Pool(min(16, os.cpu_count() or 4)) as pool:
        results = pool.map(_work, jobs, chunksize=1)
    total = sum(r['n'] for r in results)
    nfail = 0
    seen = set()
    for r in results:
        for (key, law, detail, args) in r['fails']:
            oid = 'C15:%s[%s]' % (law, key)
            if oid in seen: continue
            seen.add(oid)
            if law == 'crash':
                run.ob(oid, ENGINE_ERR, 'BND', 'cpython-enum', detail=detail); continue
            nfail += 1
            if nfail > 30:
                run.ob(oid, FAILED, 'BND', 'cpython-enum', detail=detail, witness={'args': repr(args)}, confirmed=True, func=law.split('.')[0]); continue
            script = REPLAY % dict(verif=common.VERIF, repo=common.REPO, law=law, args=args)
            rp = run.write_replay(oid, {'obligation': oid, 'detail': detail}, script)
            rc, outp = common.native_run(rp, timeout=120)
            if rc == 1:
                run.ob(oid, FAILED, 'BND', 'cpython-enum', detail=detail, witness=rp, confirmed=True, func=law.split('.')[0])
            else:
                run.ob(oid, ENGINE_ERR, 'BND', 'cpython-enum', detail='native replay does not confirm (rc=%s): %s | %s' % (rc, detail, outp[-300:]))
    run.bulk('law instances', total - nfail, 'BND', 'cpython-enum+z3', 0.0, BOUNDED_OK)
    run.bulk('value laws with solver unknown', sum(r['unknown'] for r in results), 'BND', 'z3', 0.0, DOWNGRADED)
    # inductive per-class steps of __eq__/__hash__/visit/copy on the real method bodies (Engine A)
    try:
        from checks import C15smt
        nind = C15smt.ob_smt(run)
    except Exception as ex:
        import traceback
        nind = 0
        run.ob('C15:ind:driver', ENGINE_ERR, 'SMT-A', 'pyvc', detail='%s: %s | %s' % (type(ex).__name__, ex, traceback.format_exc()[-400:]))
    run.evaluations = total
    run.distinct = len(trees)
    run.rule = ('trees: operand pools (ids, constants, plain/segmented memory, conds, slices, composes), all binary/ternary operator applications over them, depth-1 trees, '
                'rule templates, seeded random trees depth<=4, ExprAff nodes; per tree: reflexivity, hash, copy equality+freshness (identity walk), visit(identity), '
                'canonize value (z3, all valuations), replace_expr as substitution for up to 6 maps (z3, all valuations), frames; per pool: symmetry, !=, eq=>hash, '
                'eq=>same value (z3), transitivity')
    run.explanation = ('__eq__/__hash__/visit/copy: one inductive step per node class proved on the real method body by Engine A (opaque children answered by the induction '
                       'hypothesis; unbounded depth; child classes by rotation; arity of ExprOp/ExprCompose up to 3) - %d obligations; replace_expr/canonize value clauses and the '
                       'whole-tree laws: run-time twins over enumerated trees, value clauses proved per tree for all valuations by z3' % nind)
    run.samples = [dstr(d) for d in trees[:4] + trees[-3:]]
    run.trust('z3; liftvc/den.py'); run.assume('replace_expr maps: keys are identifiers/memory cells of the tree, not nested in each other or in replacements')
    run.assume('induction steps (C15smt): finite acyclic expression trees (induction principle); den of a node is a function of the fields in exprind.FIELDS; moduint == / hash coherent for ExprInt.arg; callbacks of visit preserve the class of an assignment destination')
    return run.finish()

if __name__ == '__main__':
    sys.exit(main(sys.argv[1:]))
