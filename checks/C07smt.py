"""SMT-A part of C07: eval_abs.rest_slice, the gap finder behind overlapping memory reads (eval_ExprMem), verified from its AST.

Contract (from the call site: `slices` are the known cells overlapping the requested range, sorted, pairwise disjoint, inside [start, stop]):
   rest_slice(slices, start, stop) returns the intervals of [start, stop) that no slice covers: every returned (lo, hi) is non-empty, lies in
   [start, stop], meets no slice and no other returned interval, and slices and returned intervals together have total length stop - start
   (so they tile the range exactly).  List lengths 1..4, all integer bounds.
"""
import sys, os
from vlib import common
from vlib.common import DISCHARGED, FAILED, DOWNGRADED, ENGINE_ERR, BOUNDED_OK

REPLAY = '''
import sys, os
sys.path.insert(0, %(verif)r); sys.path.insert(0, %(repo)r)
sys.dont_write_bytecode = True
from checks import C07smt
sys.exit(C07smt.replay(%(data)r))
'''
QN = 'miasmx.expression.expression_eval_abstract:eval_abs.rest_slice'

def spec_ok(sl, res, start, stop):
    if not isinstance(res, list): return False
    tot = sum(b - a for (_, a, b) in sl)
    for i, g in enumerate(res):
        if not (isinstance(g, tuple) and len(g) == 2): return False
        lo, hi = g
        if not (lo < hi and start <= lo and hi <= stop): return False
        tot += hi - lo
        for (_, a, b) in sl:
            if not (hi <= a or lo >= b): return False
        for (lo2, hi2) in res[:i]:
            if not (hi <= lo2 or lo >= hi2): return False
    return tot == stop - start

def native(bounds, start, stop):
    import logging
    from miasmx.expression.expression_eval_abstract import eval_abs
    m = eval_abs({}, log=logging.getLogger('verif.null'))
    sl = [('cell%d' % i, a, b) for i, (a, b) in enumerate(bounds)]
    try:
        res = m.rest_slice(sl, start, stop)
    except Exception as ex:
        return 'rest_slice raised %s: %s' % (type(ex).__name__, ex)
    if not spec_ok(sl, res, start, stop):
        return 'rest_slice(%s, %d, %d) = %s: not the uncovered part of the range' % ([(a, b) for (_, a, b) in sl], start, stop, res)
    return None

def replay(data):
    common.use_repo()
    msg = native([tuple(x) for x in data['bounds']], data['start'], data['stop'])
    print(msg or 'contract holds on this input')
    return 1 if msg else 0

def ob_smt(run):
    import z3
    from pyvc import engine
    from pyvc.runner import resolve
    from pyvc.contract import Contract, SObj
    from specs.duck import And, Or, Not
    import miasmx.expression.expression_eval_abstract as E
    mod, node, seg, path = resolve(QN)
    run.function(QN, seg, path, node.lineno)
    def pre(ctx, self, slices, start, stop):
        cl = [start <= slices[0][1], slices[-1][2] <= stop]
        for (_, a, b) in slices: cl.append(a < b)
        for (x, y) in zip(slices, slices[1:]): cl.append(x[2] <= y[1])
        return And(*cl)
    def post(ctx, res, self, slices, start, stop):
        if not isinstance(res, list): return False
        cl = []
        tot = 0
        for (_, a, b) in slices: tot = tot + (b - a)
        for i, g in enumerate(res):
            if not (isinstance(g, tuple) and len(g) == 2): return False
            lo, hi = g
            cl += [lo < hi, start <= lo, hi <= stop]
            tot = tot + (hi - lo)
            for (_, a, b) in slices: cl.append(Or(hi <= a, lo >= b))
            for (lo2, hi2) in res[:i]: cl.append(Or(hi <= lo2, lo >= hi2))
        cl.append(tot == stop - start)
        return And(*cl)
    top = Contract(QN, pre=pre, post=post)
    n = 0
    for k in (1, 2, 3, 4):
        def make_args(ctx, k=k):
            ins = {}
            def mk(nm):
                v = z3.Int(nm); ins[nm] = v; return v
            sl = [('cell%d' % i, mk('a%d' % i), mk('b%d' % i)) for i in range(k)]
            me = SObj(E.eval_abs, {}, fresh=False)
            return [me, sl, mk('start'), mk('stop')], ins
        base = 'C07:rest_slice[%d cells]' % k
        V = engine.verify_function(QN, node, vars(mod), top, {QN: top}, make_args)
        if V.unsupported:
            run.ob(base + ':generate', DOWNGRADED, 'SMT-A', 'pyvc', detail=V.unsupported); continue
        if not V.cover:
            run.ob(base + ':cover', ENGINE_ERR, 'SMT-A', 'z3', detail='precondition unsatisfiable'); continue
        for cl, d in sorted(V.clauses.items()):
            n += 1
            oid = base + ':' + cl
            if d['status'] == 'unsat':
                run.ob(oid, DISCHARGED, 'SMT-A', 'z3', d['secs'], func=QN)
            elif d['status'] == 'sat':
                w = d['witness'] or {}
                try:
                    bounds = [(int(w['a%d' % i]), int(w['b%d' % i])) for i in range(k)]; st, sp = int(w['start']), int(w['stop'])
                    msg = native(bounds, st, sp)
                except Exception as ex:
                    bounds, st, sp, msg = [], 0, 0, None
                if msg is None:
                    run.ob(oid, DOWNGRADED, 'SMT-A', 'z3', d['secs'], detail='counter-model %s does not replay on the real function; bounded twin below' % w)
                else:
                    rp = run.write_replay(oid, {'obligation': oid, 'inputs': w}, REPLAY % dict(verif=common.VERIF, repo=common.REPO, data={'bounds': bounds, 'start': st, 'stop': sp}))
                    run.ob(oid, FAILED, 'SMT-A', 'z3', d['secs'], detail='%s; counterexample %s; native: %s' % (d['detail'], w, msg), witness=rp, confirmed=True, func=QN)
            else:
                run.ob(oid, DOWNGRADED, 'SMT-A', 'z3', d['secs'], detail='solver unknown')
    # twin: every placement of up to 3 cells of sizes 8/16/24 in a 32-bit range
    import itertools
    cnt = bad = 0
    pts = list(range(0, 33, 4))
    for k in (1, 2, 3):
        for cuts in itertools.combinations(pts, 2 * k):
            bounds = [(cuts[2 * i], cuts[2 * i + 1]) for i in range(k)]
            cnt += 1
            msg = native(bounds, 0, 32)
            if msg and not bad:
                bad += 1
                oid = 'C07:rest_slice[%d cells]:twin' % k
                rp = run.write_replay(oid, {'obligation': oid}, REPLAY % dict(verif=common.VERIF, repo=common.REPO, data={'bounds': bounds, 'start': 0, 'stop': 32}))
                run.ob(oid, FAILED, 'BND', 'cpython-enum', detail=msg, witness=rp, confirmed=True, func=QN)
    run.bulk('rest_slice on every placement of up to 3 nibble-aligned cells in a 32-bit range (native twin)', cnt - bad, 'BND', 'cpython-enum', 0.0, BOUNDED_OK)
    return n
