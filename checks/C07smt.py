"""SMT-A part of C07: eval_abs.rest_slice, the gap finder behind overlapping memory reads (eval_ExprMem), verified from its AST.

Contract (from the call site: `slices` are the known cells overlapping the requested range, sorted, pairwise disjoint, inside [start, stop]):
   rest_slice(slices, start, stop) returns the intervals of [start, stop) that no slice covers: every returned (lo, hi) is non-empty, lies in
   [start, stop], meets no slice and no other returned interval, and slices and returned intervals together have total length stop - start
   (so they tile the range exactly).  List lengths 1..4, all integer bounds.
"""
import sys, os
from vlib import common
from vlib.common import DISCHARGED, FAILED, DOWNGRADED, ENGINE_ERR, BOUNDED_OK

REPLAY = '''
import sys, os
sys.path.insert(0, %(verif)r); sys.path.insert(0, %(repo)r)
sys.dont_write_bytecode = True
from checks import C07smt
sys.exit(C07smt.replay(%(data)r))
'''
QN = 'miasmx.expression.expression_eval_abstract:eval_abs.rest_slice'

def spec_ok(sl, res, start, stop):
    if not isinstance(res, list): return False
    tot = sum(b - a for (_, a, b) in sl)
    for i, g in enumerate(res):
        if not (isinstance(g, tuple) and len(g) == 2): return False
        lo, hi = g
        if not (lo < hi and start <= lo and hi <= stop): return False
        tot += hi - lo
        for (_, a, b) in sl:
            if not (hi <= a or lo >= b): return False
        for (lo2, hi2) in res[:i]:
            if not (hi <= lo2 or lo >= hi2): return False
    return tot == stop - start

def native(bounds, start, stop):
    import logging
    from miasmx.expression.expression_eval_abstract import eval_abs
    m = eval_abs({}, log=logging.getLogger('verif.null'))
    sl = [('cell%d' % i, a, b) for i, (a, b) in enumerate(bounds)]
    try:
        res = m.rest_slice(sl, start, stop)
    except Exception as ex:
        return 'rest_slice raised %s: %s' % (type(ex).__name__, ex)
    if not spec_ok(sl, res, start, stop):
        return 'rest_slice(%s, %d, %d) = %s: not the uncovered part of the range' % ([(a, b) for (_, a, b) in sl], start, stop, res)
    return None

def replay(data):
    common.use_repo()
    if data.get('fn') == 'sub':
        msg = native_sub(data['sa'], data['sb'], data['D'])
        print(msg or 'contract holds on this input')
        return 1 if msg else 0
    msg = native([tuple(x) for x in data['bounds']], data['start'], data['stop'])
    print(msg or 'contract holds on this input')
    return 1 if msg else 0

def ob_smt(run):
    import z3
    from pyvc import engine
    from pyvc.runner import resolve
    from pyvc.contract import Contract, SObj
    from specs.duck import And, Or, Not
    import miasmx.expression.expression_eval_abstract as E
    mod, node, seg, path = resolve(QN)
    run.function(QN, seg, path, node.lineno)
    def pre(ctx, self, slices, start, stop):
        cl = [start <= slices[0][1], slices[-1][2] <= stop]
        for (_, a, b) in slices: cl.append(a < b)
        for (x, y) in zip(slices, slices[1:]): cl.append(x[2] <= y[1])
        return And(*cl)
    def post(ctx, res, self, slices, start, stop):
        if not isinstance(res, list): return False
        cl = []
        tot = 0
        for (_, a, b) in slices: tot = tot + (b - a)
        for i, g in enumerate(res):
            if not (isinstance(g, tuple) and len(g) == 2): return False
            lo, hi = g
            cl += [lo < hi, start <= lo, hi <= stop]
            tot = tot + (hi - lo)
            for (_, a, b) in slices: cl.append(Or(hi <= a, lo >= b))
            for (lo2, hi2) in res[:i]: cl.append(Or(hi <= lo2, lo >= hi2))
        cl.append(tot == stop - start)
        return And(*cl)
    top = Contract(QN, pre=pre, post=post)
    n = 0
    for k in (1, 2, 3, 4):
        def make_args(ctx, k=k):
            ins = {}
            def mk(nm):
                v = z3.Int(nm); ins[nm] = v; return v
            sl = [('cell%d' % i, mk('a%d' % i), mk('b%d' % i)) for i in range(k)]
            me = SObj(E.eval_abs, {}, fresh=False)
            return [me, sl, mk('start'), mk('stop')], ins
        base = 'C07:rest_slice[%d cells]' % k
        V = engine.verify_function(QN, node, vars(mod), top, {QN: top}, make_args)
        if V.unsupported:
            run.ob(base + ':generate', DOWNGRADED, 'SMT-A', 'pyvc', detail=V.unsupported); continue
        if not V.cover:
            run.ob(base + ':cover', ENGINE_ERR, 'SMT-A', 'z3', detail='precondition unsatisfiable'); continue
        for cl, d in sorted(V.clauses.items()):
            n += 1
            oid = base + ':' + cl
            if d['status'] == 'unsat':
                run.ob(oid, DISCHARGED, 'SMT-A', 'z3', d['secs'], func=QN)
            elif d['status'] == 'sat':
                w = d['witness'] or {}
                try:
                    bounds = [(int(w['a%d' % i]), int(w['b%d' % i])) for i in range(k)]; st, sp = int(w['start']), int(w['stop'])
                    msg = native(bounds, st, sp)
                except Exception as ex:
                    bounds, st, sp, msg = [], 0, 0, None
                if msg is None:
                    run.ob(oid, DOWNGRADED, 'SMT-A', 'z3', d['secs'], detail='counter-model %s does not replay on the real function; bounded twin below' % w)
                else:
                    rp = run.write_replay(oid, {'obligation': oid, 'inputs': w}, REPLAY % dict(verif=common.VERIF, repo=common.REPO, data={'bounds': bounds, 'start': st, 'stop': sp}))
                    run.ob(oid, FAILED, 'SMT-A', 'z3', d['secs'], detail='%s; counterexample %s; native: %s' % (d['detail'], w, msg), witness=rp, confirmed=True, func=QN)
            else:
                run.ob(oid, DOWNGRADED, 'SMT-A', 'z3', d['secs'], detail='solver unknown')
    # twin: every placement of up to 3 cells of sizes 8/16/24 in a 32-bit range
    import itertools
    cnt = bad = 0
    pts = list(range(0, 33, 4))
    for k in (1, 2, 3):
        for cuts in itertools.combinations(pts, 2 * k):
            bounds = [(cuts[2 * i], cuts[2 * i + 1]) for i in range(k)]
            cnt += 1
            msg = native(bounds, 0, 32)
            if msg and not bad:
                bad += 1
                oid = 'C07:rest_slice[%d cells]:twin' % k
                rp = run.write_replay(oid, {'obligation': oid}, REPLAY % dict(verif=common.VERIF, repo=common.REPO, data={'bounds': bounds, 'start': 0, 'stop': 32}))
                run.ob(oid, FAILED, 'BND', 'cpython-enum', detail=msg, witness=rp, confirmed=True, func=QN)
    run.bulk('rest_slice on every placement of up to 3 nibble-aligned cells in a 32-bit range (native twin)', cnt - bad, 'BND', 'cpython-enum', 0.0, BOUNDED_OK)
    return n


# ------------------------------------------------------------------------------------------------ substract_mems
QS = 'miasmx.expression.expression_eval_abstract:eval_abs.substract_mems'

def sub_spec(sa, sb, D, pieces):
    """pieces: [(lo_bits, hi_bits, addr_offset_bytes_from_a)]: exactly the bits of cell a (sa bits) that the write b (sb bits, D bytes above a)
       does not cover, each piece at the address of its first byte"""
    cov = [False] * sa
    for (lo, hi, off) in pieces:
        if not (0 <= lo < hi <= sa) or off * 8 != lo: return False
        for i in range(lo, hi):
            if cov[i] or (D * 8 <= i < D * 8 + sb): return False
            cov[i] = True
    return all(cov[i] or (D * 8 <= i < D * 8 + sb) for i in range(sa))

def native_sub(sa, sb, D):
    """substract_mems on a real machine: cell a = @sa[ebx+16] holding a recognisable value, write b = @sb[ebx+16+D]"""
    import logging
    from miasmx.expression.expression_eval_abstract import eval_abs
    from miasmx.expression.expression import ExprId, ExprMem, ExprOp, ExprInt, ExprSlice
    from miasmx.expression.expression_helper import expr_simp
    from miasmx.tools.modint import uint32
    ebx = ExprId('ebx', 32)
    base = ExprOp('+', ebx, ExprInt(uint32(16)))
    a = ExprMem(expr_simp(base), sa)
    b = ExprMem(expr_simp(ExprOp('+', ebx, ExprInt(uint32(16 + D)))), sb)
    V = ExprId('V', sa)
    m = eval_abs({ebx: ebx}, log=logging.getLogger('verif.null'))
    m.pool[a] = V
    try:
        out = m.substract_mems(a, b)
    except Exception as ex:
        return 'substract_mems raised %s: %s' % (type(ex).__name__, ex)
    pieces = []
    for (cell, val) in out:
        if not isinstance(cell, ExprMem): return 'piece %s is not a memory cell' % cell
        d = expr_simp(ExprOp('-', cell.arg, a.arg))
        if not isinstance(d, ExprInt): return 'piece address %s is not at a constant offset of the cell' % cell.arg
        off = int(d.arg)
        if off >= 1 << 31: off -= 1 << 32
        if val is V and sa == cell.size: lo, hi = 0, sa
        elif isinstance(val, ExprSlice) and val.arg is V: lo, hi = val.start, val.stop
        else: return 'piece value %s is not a slice of the old content' % val
        if hi - lo != cell.size: return 'piece %s holds %d bits' % (cell, hi - lo)
        pieces.append((int(lo), int(hi), off))
    if not sub_spec(sa, sb, D, pieces):
        return 'substract_mems(@%d[p], @%d[p%+d]) keeps %s: not the uncovered part of the old cell' % (sa, sb, D, pieces)
    return None

def ob_sub(run):
    """eval_abs.substract_mems: the pieces of an overlapped cell that survive a write, for all overlapping pointer differences"""
    import z3
    from pyvc import engine
    from pyvc.engine import is_sym
    from pyvc.runner import resolve
    from pyvc.contract import Contract, SObj
    from specs.duck import And, Or, Not
    import contracts.modint as cm
    import miasmx.expression.expression_eval_abstract as EA
    import miasmx.expression.expression as X
    import miasmx.tools.modint as MI
    mod, node, seg, path = resolve(QS)
    run.function(QS, seg, path, node.lineno)
    XM = 'miasmx.expression.expression'
    n = 0
    for sa in (8, 16, 32, 64):
        for sb in (8, 16, 32, 64):
            st = {}
            C = dict(cm.CONTRACTS)
            for k in ('ExprOp', 'ExprInt', 'ExprMem', 'ExprSlice'):
                C['%s:%s.__init__' % (XM, k)] = Contract('%s.__init__' % k, inline=True)
            C['%s:ExprSlice.get_size' % XM] = Contract('ExprSlice.get_size', inline=True)
            def r_eval(ctx, me, ex, cache):
                o = SObj(X.ExprId, {}, fresh=True); object.__setattr__(o, 'evaluated', ex); return o
            C['miasmx.expression.expression_eval_abstract:eval_abs.eval_expr'] = Contract('eval_expr', result=r_eval)
            def r_simp(ctx, ev, st=st):
                ex = getattr(ev, 'evaluated', None)
                if not (isinstance(ex, SObj) and ex.cls is X.ExprOp): raise engine.Unsupported('expr_simp of something else than an evaluated operation')
                op, args = ex.fields['op'], ex.fields['args']
                if op == '-' and len(args) == 2 and args[0] is st['B'] and args[1] is st['A']:
                    return SObj(X.ExprInt, {'arg': SObj(MI.uint32, {'arg': st['D'] % (1 << 32)}, fresh=True)}, fresh=True)
                if op == '+' and len(args) == 2 and args[0] in (st['A'], st['B']) and isinstance(args[1], SObj) and args[1].cls is X.ExprInt:
                    o = SObj(X.ExprId, {}, fresh=True)
                    object.__setattr__(o, 'base', args[0]); object.__setattr__(o, 'off', args[1].fields['arg'].fields['arg'])
                    return o
                raise engine.Unsupported('expr_simp of an unexpected address expression %s' % op)
            C['miasmx.expression.expression_helper:expr_simp'] = Contract('expr_simp', result=r_simp)
            # moduint(x) of a real-valued whole number (true division in the body): delegated to the C14 contract on ToInt(x); a fractional argument
            # is a failed call precondition.  (CPython keeps the float as .arg; that it behaves like the integer afterwards is assumed.)
            base_c = cm.CONTRACTS['miasmx.tools.modint:moduint.__init__']
            def as_int(x):
                if is_sym(x) and z3.is_real(x): return z3.ToInt(x)
                if isinstance(x, float): return int(x)
                return x
            def pre_mi(ctx, me, x):
                if is_sym(x) and z3.is_real(x): return z3.IsInt(x)
                if isinstance(x, float): return x == int(x)
                return base_c.pre(ctx, me, x)
            C['miasmx.tools.modint:moduint.__init__'] = Contract('moduint.__init__', pre=pre_mi, post=lambda ctx, res, me, x: base_c.post(ctx, res, me, as_int(x)),
                                                                 result=lambda ctx, me, x: base_c.result(ctx, me, as_int(x)), frame=['self.arg'])
            # pool lookup of the old cell, and slicing of its content (Expr.__getitem__ under the precondition that makes slice.indices the identity)
            C['miasmx.expression.expression_eval_abstract:mpool.__getitem__'] = Contract('mpool.__getitem__', pre=lambda ctx, p, k, st=st: k is st['a'], result=lambda ctx, p, k, st=st: st['V'])
            def pre_gi(ctx, v, sl, sa=sa):
                return And(sl.step is None, sl.start >= 0, sl.start <= sl.stop, sl.stop <= sa)
            def r_gi(ctx, v, sl):
                return SObj(X.ExprSlice, {'arg': v, 'start': sl.start, 'stop': sl.stop}, fresh=True)
            C['%s:Expr.__getitem__' % XM] = Contract('Expr.__getitem__', pre=pre_gi, result=r_gi)
            def make_args(ctx, sa=sa, sb=sb, st=st):
                A, B = SObj(X.ExprId, {}, fresh=False), SObj(X.ExprId, {}, fresh=False)
                a = SObj(X.ExprMem, {'arg': A, 'size': sa, 'segm': None}, fresh=False)
                b = SObj(X.ExprMem, {'arg': B, 'size': sb, 'segm': None}, fresh=False)
                D = z3.Int('D')
                V = SObj(X.ExprId, {'size': sa}, fresh=False)
                me = SObj(EA.eval_abs, {'pool': SObj(EA.mpool, {}, fresh=False)}, fresh=False)
                st.update(A=A, B=B, a=a, b=b, D=D, V=V)
                return [me, a, b], {'D': D}
            def pre(ctx, me, a, b, sa=sa, sb=sb, st=st):
                # the call site (eval_instr after get_mem_overlapping): the two cells overlap
                return And(st['D'] * 8 > -sb, st['D'] * 8 < sa)
            def post(ctx, res, me, a, b, sa=sa, sb=sb, st=st):
                D = st['D']
                if not isinstance(res, list): return False
                cl = []; tot = 0; ivs = []
                for it in res:
                    if not (isinstance(it, tuple) and len(it) == 2): return False
                    cell, val = it
                    if not (isinstance(cell, SObj) and cell.cls is X.ExprMem and isinstance(val, SObj) and val.cls is X.ExprSlice and val.fields['arg'] is st['V']): return False
                    lo, hi = val.fields['start'], val.fields['stop']
                    p = cell.fields['arg']
                    if p is st['A']: off = 0
                    elif getattr(p, 'base', None) is st['A']: off = p.off
                    elif getattr(p, 'base', None) is st['B']: off = p.off + D
                    else: return False
                    cl += [lo >= 0, lo < hi, hi <= sa, off * 8 == lo, cell.fields['size'] == hi - lo, Or(hi <= D * 8, lo >= D * 8 + sb)]
                    for (l2, h2) in ivs: cl.append(Or(hi <= l2, lo >= h2))
                    ivs.append((lo, hi)); tot = tot + (hi - lo)
                # covered by b: the intersection of [D*8, D*8+sb) with [0, sa)
                lo_b = z3.If(D * 8 > 0, D * 8, 0); hi_b = z3.If(D * 8 + sb < sa, D * 8 + sb, sa)
                cl.append(tot + (hi_b - lo_b) == sa)
                return And(*cl)
            top = Contract(QS, pre=pre, post=post, frame=[])
            base = 'C07:substract_mems[a=%d,b=%d]' % (sa, sb)
            V = engine.verify_function(QS, node, vars(mod), top, C, make_args)
            if V.unsupported:
                run.ob(base + ':generate', DOWNGRADED, 'SMT-A', 'pyvc', detail=V.unsupported, func=QS); continue
            if not V.cover:
                run.ob(base + ':cover', ENGINE_ERR, 'SMT-A', 'z3', detail='precondition unsatisfiable', func=QS); continue
            for cl, d in sorted(V.clauses.items()):
                n += 1
                oid = base + ':' + cl
                if d['status'] == 'unsat':
                    run.ob(oid, DISCHARGED, 'SMT-A', 'z3', d['secs'], func=QS)
                elif d['status'] == 'sat':
                    w = d['witness'] or {}
                    try:
                        Dv = int(w['D']); msg = native_sub(sa, sb, Dv)
                    except Exception as ex:
                        Dv, msg = 0, None
                    data = {'fn': 'sub', 'sa': sa, 'sb': sb, 'D': Dv}
                    rp = run.write_replay(oid, {'obligation': oid, 'inputs': w, 'verifier': d['detail']}, REPLAY % dict(verif=common.VERIF, repo=common.REPO, data=data))
                    if msg is None:
                        run.ob(oid, DOWNGRADED, 'SMT-A', 'z3', d['secs'], detail='counter-model %s (%s) does not replay on the real function; bounded twin below' % (w, d['detail']), func=QS)
                    else:
                        run.ob(oid, FAILED, 'SMT-A', 'z3', d['secs'], detail='%s; counterexample %s; native: %s' % (d['detail'], w, msg), witness=rp, confirmed=True, func=QS)
                else:
                    run.ob(oid, DOWNGRADED, 'SMT-A', 'z3', d['secs'], detail='solver unknown', func=QS)
    # twin: every overlapping placement
    cnt = bad = 0
    for sa in (8, 16, 32, 64):
        for sb in (8, 16, 32, 64):
            for D in range(-sb // 8 + 1, sa // 8):
                cnt += 1
                msg = native_sub(sa, sb, D)
                if msg:
                    bad += 1
                    if bad <= 3:
                        oid = 'C07:substract_mems[a=%d,b=%d]:twin' % (sa, sb)
                        rp = run.write_replay(oid, {'obligation': oid}, REPLAY % dict(verif=common.VERIF, repo=common.REPO, data={'fn': 'sub', 'sa': sa, 'sb': sb, 'D': D}))
                        run.ob(oid, FAILED, 'BND', 'cpython-enum', detail=msg, witness=rp, confirmed=True, func=QS)
    run.bulk('substract_mems on every overlapping placement of 1/2/4/8-byte cells (native twin)', cnt - bad, 'BND', 'cpython-enum', 0.0, BOUNDED_OK)
    return n
