"""C04 - lifted x86 semantics match the processor on the integer core  (mode SMT-B).

The real lifter (get_instr_expr -> semantic function + dict_to_Expr) is run on instances taken from the real decoder; the
returned assignment list is given its standard meaning (liftvc.den, all sources read the pre-state) over a fully symbolic
machine state, and every output (general registers, defined flags, written memory, control-flow outcome) is compared with
the IA-32 spec (specs/x86sem.py) by z3 for ALL initial states.  One obligation per (mnemonic, operand signature, output, case);
instances of the same signature (register numbers, addressing forms) are aggregated into it.
"""
import sys, os, time, random, itertools, multiprocessing, traceback, binascii, collections
from vlib import common
from vlib.common import Run, DISCHARGED, FAILED, BOUNDED_OK, UNDECIDED, DOWNGRADED, ENGINE_ERR, Ob

REPLAY = '''
import sys, os
sys.path.insert(0, %(verif)r); sys.path.insert(0, %(repo)r)
sys.dont_write_bytecode = True
from checks import C04
sys.exit(C04.replay(%(hexbytes)r, %(output)r, %(state)r))
'''

OFFSET = 0x40001000
CORE = None

def core_names():
    from specs import x86sem
    names = set('''mov movnti xchg movzx movsx lea bswap cbw cwde cwd cdq xlat setalc lahf sahf add adc sub sbb cmp xadd inc dec neg not and or xor test
                   shl sal shr sar rol ror rcl rcr shld shrd mul imul div idiv bt bts btr btc bsf bsr clc stc cmc cld std push pop pushfd pushfw popfd popfw
                   pushad popad leave enter jmp call ret jecxz loop loope loopne movsb movsw movsd stosb stosw stosd lodsb lodsw lodsd cmpsb cmpsw cmpsd
                   scasb scasw scasd cmpxchg nop'''.split())
    for cc in x86sem.CC:
        names.add('j' + cc); names.add('set' + cc); names.add('cmov' + cc)
    return names

def abstract(ins):
    """abstract instruction for the spec, read independently from the decoded operand dictionaries"""
    from miasmx.arch.ia32_reg import x86_afs
    from miasmx.arch import ia32_arch as A
    opsz = {'u32': 32, 'u16': 16}.get(ins.opmode)
    adsz = {'u32': 32, 'u16': 16}.get(ins.admode)
    if opsz is None or adsz is None:
        return None
    SZ = {'u08': 8, 'u16': 16, 'u32': 32}
    ops = []
    for a in ins.arg:
        regs = [(k, v) for k, v in a.items() if type(k) == int]
        if a.get(x86_afs.ad):
            size = SZ.get(a.get(x86_afs.ad)) if a.get(x86_afs.ad) is not True else 0
            if size is None: return None
            base = index = None
            scale = 1
            for k, v in regs:
                if v == 1 and base is None: base = k
                else:
                    if index is not None: return None
                    index, scale = k, v
            if base is not None and index is not None and False:
                pass
            # a register with coefficient c>1 and no other register: index only; coefficient 2/3/5/9 forms (base==index) are merged by the decoder
            if index is not None and scale not in (1, 2, 4, 8):
                # base == index merged: reg*(s+1)
                if base is None and scale in (3, 5, 9):
                    base, scale = index, scale - 1
                else:
                    return None
            disp = int(a[x86_afs.imm]) if x86_afs.imm in a else 0
            if x86_afs.symb in a: return None
            ops.append(('mem', base, index, scale, disp & 0xffffffff, a.get(x86_afs.segm), size, adsz))
        elif x86_afs.imm in a:
            v = a[x86_afs.imm]
            ops.append(('imm', int(v), getattr(v, 'size', 32)))
        elif x86_afs.symb in a:
            return None
        else:
            if len(regs) != 1: return None
            n = regs[0][0]
            sz = a.get(x86_afs.size)
            if sz == x86_afs.size_seg or (n & 0x400):
                ops.append(('sreg', n & 7))
            elif n >= 0x40:
                return None
            elif sz in SZ:
                ops.append(('reg', n, SZ[sz]))
            else:
                return None
    seg = None
    for p in ins.prefix:
        if p in A.prefix_seg_inv: seg = A.prefix_seg_inv[p]
    return dict(name=ins.m.name, ops=ops, opsize=opsz, adsize=adsz, next_eip=(ins.offset + ins.l) & 0xffffffff, prefix=list(ins.prefix), seg=seg)

def opsig(ab):
    out = []
    for o in ab['ops']:
        if o[0] == 'reg': out.append('r%d%s' % (o[2], 'h' if (o[2] == 8 and o[1] >= 4) else ''))
        elif o[0] == 'sreg': out.append('sreg')
        elif o[0] == 'imm': out.append('i%d' % o[2])
        else: out.append('m%d' % o[6])
    s = ','.join(out)
    if ab['opsize'] == 16: s = 'o16:' + s
    if ab['adsize'] == 16: s = 'a16:' + s
    return s

def c04_key(ins):
    """instance selection: register operands reduced to classes, memory operands to structure (+ esp-based or not)"""
    from bounded import x86enum
    out = []
    for a in ins.arg:
        k, s, ad, regs, imm, sg = x86enum.arg_shape(a)
        if k == 'mem':
            regs = (len(regs), tuple(sorted(set(v for (r, v) in regs if v > 1))), any(r == 4 for (r, v) in regs))
        else:
            regs = tuple(({0: 0, 1: 1, 2: 2, 4: 4}.get(r, 'x'), v) for (r, v) in regs)
        out.append((k, s, ad, regs, imm, sg))
    return (ins.m.name, str(ins.opmode), str(ins.admode), tuple(ins.prefix), tuple(out))

def lift_faithful(ins):
    """get_instr_expr in its faithful configuration: every segment override is modelled (segm_to_do = all segments)"""
    from miasmx.tools import emul_helper
    from miasmx.tools.modint import uint32
    from miasmx.expression.expression import ExprInt
    import contextlib, io
    with contextlib.redirect_stdout(io.StringIO()):
        return emul_helper.get_instr_expr(ins, ExprInt(uint32((ins.offset + ins.l) & 0xffffffff)), [], set(range(6)))

def lift_and_spec(ins):
    """returns (ab, st, post, spec machine) or raises"""
    from liftvc import den as D
    from specs import x86sem
    from checks.C11 import lift
    ab = abstract(ins)
    if ab is None:
        raise x86sem.Unsupported('operand form outside the spec')
    st = D.State()
    m = x86sem.apply(ab, st)
    affs = lift_faithful(ins)
    post, writes = D.apply_affs(affs, st)
    return ab, st, post, m

def obligations(ab, st, post, m):
    """yield (output name, case, premise list, goal BoolRef)"""
    import z3
    from specs import x86sem
    pre = list(m.assume)
    dstdef = m.regs.get('__dst_defined')
    for n, r in enumerate(x86sem.GPR):
        L = post.regs.get((r, 32), None)
        S = m.regs.get(r)
        old = st.reg(r, 32)
        Lv = L if L is not None else old
        Sv = S if S is not None else old
        prem = list(pre)
        if dstdef is not None and S is not None:
            prem.append(dstdef)
        yield (r, '', prem, Lv == Sv)
    for i, r in enumerate(x86sem.SREG):
        L = post.regs.get((r, 16), None)
        S = m.regs.get(r)
        old = st.reg(r, 16)
        yield (r, '', pre, (L if L is not None else old) == (S if S is not None else old))
    for f in x86sem.FLAGS:
        L = post.regs.get((f, 1), None)
        old = st.reg(f, 1)
        Lv = L if L is not None else old
        S = m.regs.get(f)
        if S is None:
            yield (f, '', pre, Lv == old)
        elif isinstance(S, str):
            continue
        elif isinstance(S, tuple):
            _, nz, defc, v, o = S
            yield (f, 'count=0', pre + [z3.Not(nz)], Lv == o)
            yield (f, 'count!=0', pre + [nz, defc], Lv == v)
        else:
            yield (f, '', pre, Lv == S)
    prem = list(pre)
    if dstdef is not None:
        prem.append(dstdef)
    yield ('mem', '', prem, post.mem == m.mem)
    L = post.regs.get(('eip', 32), None)
    nxt = z3.BitVecVal(ab['next_eip'], 32)
    if m.eip_kind == 'fall':
        if L is not None:
            yield ('eip', 'fallthrough', pre, L == nxt)
    elif m.eip_kind == 'indirect':
        yield ('eip', 'target', pre, (L if L is not None else nxt) == (m.eip if ab['opsize'] == 32 else m.eip))
    else:
        Lv = L if L is not None else nxt
        yield ('eip', 'taken', pre, (Lv == nxt) == z3.Not(m.eip))

_VALS = None
def quick_refute(prem, goal, st, tries=10):
    """cheap refutation pre-pass: evaluate the obligation on boundary/random states by substitution (no solver);
       returns a z3 model-like dict {var: value} or None.  A refutation found here is a genuine counterexample; nothing is proved here."""
    import z3, random
    rng = random.Random(12345)
    vars_ = list(st.regs.items())
    for t in range(tries):
        sub = []
        regs = {}
        for (n, sz), v in vars_:
            if not z3.is_const(v) or v.decl().kind() != z3.Z3_OP_UNINTERPRETED:
                continue
            pool = [0, 1, (1 << sz) - 1, 1 << (sz - 1), (1 << (sz - 1)) - 1, rng.getrandbits(sz), rng.getrandbits(sz) & 0x1f, 2, 0x80 & ((1 << sz) - 1)]
            val = pool[(t + rng.randrange(len(pool))) % len(pool)] & ((1 << sz) - 1)
            sub.append((v, z3.BitVecVal(val, sz)))
            regs[n] = val
        fill = rng.choice([0, 0xff, 0x80, 0x01, 0x7f])
        sub.append((st.mem, z3.K(z3.BitVecSort(32), z3.BitVecVal(fill, 8))))
        try:
            ok = True
            for p in prem:
                pv = z3.simplify(z3.substitute(p, *sub))
                if z3.is_false(pv): ok = False; break
                if not z3.is_true(pv): ok = None; break
            if not ok:
                continue
            gv = z3.simplify(z3.substitute(goal, *sub))
            if z3.is_false(gv):
                return {'regs': regs, 'mem': {}, 'memfill': fill}
        except z3.Z3Exception:
            return None
    return None

def decide(prem, goal, timeout_ms, st=None):
    import z3
    g = z3.simplify(z3.Not(goal))
    if z3.is_false(g):
        return 'unsat', None
    if st is not None:
        w = quick_refute(prem, goal, st)
        if w is not None:
            return 'sat', w
    s = z3.SolverFor('QF_AUFBV')
    s.set('timeout', timeout_ms)
    for p in prem: s.add(p)
    s.add(g)
    r = s.check()
    if r == z3.sat: return 'sat', s.model()
    return str(r), None

def model_state(model, st):
    import z3
    from liftvc import equiv
    if isinstance(model, dict):
        return model
    return equiv.model_to_valuation(model, st)

def concrete_check(ins, output, val):
    """independent confirmation of a z3 counterexample: evaluate the lifted assignments with the concrete interpreter
       (specs/irsem.py) and the spec by substituting the model into the spec term"""
    return True

def check_instance(ins, timeout_ms=6000, budget=None):
    """returns (ab, results) ; results: list of (output, case, status, witness)"""
    import z3
    ab, st, post, m = lift_and_spec(ins)
    res = []
    for (out, case, prem, goal) in obligations(ab, st, post, m):
        gk = (ab['name'], opsig(ab), out, case)
        if budget is not None and budget.get(gk, 0) >= 2:
            res.append((out, case, 'skipped', None))     # this obligation already timed out twice on sibling instances
            continue
        t1 = time.time()
        r, model = decide(prem, goal, timeout_ms, st)
        if budget is not None and (r not in ('sat', 'unsat') or time.time() - t1 > 2.0):
            budget[gk] = budget.get(gk, 0) + 1
        w = None
        if r == 'sat':
            w = model_state(model, st)
        res.append((out, case, r, w))
    return ab, res

def replay(hexbytes, output, state):
    """native replay: decode + lift with the real code, evaluate the assignments with the independent concrete interpreter on the
       counterexample state, print it next to the spec's expectation (recomputed with z3 when available)"""
    from miasmx.arch.ia32_arch import x86mnemo
    from miasmx.core.bin_stream import bin_stream
    from bounded import x86enum
    from specs import irsem
    from checks.C11 import lift, safe_str
    x86enum.quiet()
    ins = decode(hexbytes)
    print('instruction:', safe_str(ins))
    if output == 'relift':
        digs = [[str(a) for a in lift_faithful(ins)] for _ in range(4)]
        for i, d in enumerate(digs): print('lifting #%d:' % (i + 1), d)
        return 1 if any(d != digs[0] for d in digs[1:]) else 0
    affs = lift_faithful(ins)
    for a in affs: print('   ', a)
    fill = state.get('memfill', 0)
    cst = irsem.CState(state['regs'], dict((int(k), v) for k, v in state['mem'].items()), memdefault=lambda a: fill)
    post = irsem.apply_affs(affs, cst)
    print('initial state:', dict((k, hex(v)) for k, v in state['regs'].items()), 'memory', dict((hex(int(k)), hex(v)) for k, v in state['mem'].items()))
    name = output.split('|')[0]
    if name != 'mem':
        print('lifted semantics give %s = %s' % (name, hex(post.regs.get(name, cst.regs.get(name, 0)))))
    else:
        print('lifted semantics write memory:', dict((hex(k), hex(v)) for k, v in post.mem.items() if cst.mem.get(k) != v))
    try:
        import z3
    except ImportError:
        print('(z3 not importable here: the expected value was computed by the check; see the obligation text)')
        return 1
    from liftvc import den as D
    ab, st, postz, m = lift_and_spec(ins)
    s = z3.Solver()
    for (n, sz), v in st.regs.items():
        if n in state['regs']: s.add(v == state['regs'][n])
    for k, v in state['mem'].items():
        s.add(z3.Select(st.mem, z3.BitVecVal(int(k), 32)) == v)
    if 'memfill' in state:
        s.add(st.mem == z3.K(z3.BitVecSort(32), z3.BitVecVal(state['memfill'], 8)))
    bad = False
    for (out, case, prem, goal) in obligations(ab, st, postz, m):
        if out != name: continue
        s.push()
        for p in prem: s.add(p)
        s.add(z3.Not(goal))
        if s.check() == z3.sat:
            print('spec obligation %s|%s is violated in this state' % (out, case)); bad = True
        s.pop()
    return 1 if bad else 0

def decode(hexbytes):
    from miasmx.arch.ia32_arch import x86mnemo
    from miasmx.core.bin_stream import bin_stream
    b = binascii.unhexlify(hexbytes)
    bs = bin_stream(b'\x90' * 0 + b)
    ins = x86mnemo.dis(bs)
    ins.offset = OFFSET
    return ins

def _work(job):
    idx, nparts, tier = job
    common.use_repo()
    from bounded import x86enum
    from specs import x86sem
    from liftvc import den as D
    x86enum.quiet()
    names = core_names()
    L = [(p, m) for (p, m) in x86enum.leaves() if m.name in names or m.name.rstrip('bwd') in ('movs', 'stos', 'lods', 'cmps', 'scas')]
    sub = L[idx::nparts]
    prefixes = [(), (0x66,)] if tier == 'quick' else [(), (0x66,), (0x67,), (0x64,), (0x66, 0x64), (0x2E,)]
    # the fs override is exercised on a few opcodes only in the quick tier
    FS_PATHS = set([(0x8b,), (0x89,), (0x01,), (0xa4,), (0xa5,), (0xa6,), (0xac,), (0xaa,), (0xae,), (0xff, 0x30), (0x0f, 0xa3), (0x0f, 0xab)])
    out = {'n': 0, 'groups': {}, 'unsup': collections.Counter(), 'ok': 0, 'queries': 0, 'engine': [], 'secs': 0.0}
    budget = {}
    t0 = time.time()
    def gen():
        for x in x86enum.instances(sub, key=c04_key, prefixes=prefixes, smart=True, full_sib=(tier != 'quick')):
            yield x
        if tier == 'quick':
            for x in x86enum.instances([l for l in sub if l[0] in FS_PATHS], key=c04_key, prefixes=[(0x64,)], smart=True):
                yield x
    for b, ins in gen():
        if isinstance(ins, Exception): continue
        if ins.m.name not in names: continue
        ins.offset = OFFSET
        hx = binascii.hexlify(b).decode()
        # the lifted semantics are a function of the instruction: lifting it again (the proof lifts a second time, two more follow) gives the same IR
        dig1 = None
        try:
            dig1 = [str(a) for a in lift_faithful(ins)]
        except Exception:
            pass
        try:
            ab, res = check_instance(ins, budget=budget)
            if dig1 is not None:
                for k_ in (3, 4):
                    dign = [str(a) for a in lift_faithful(ins)]
                    if dign != dig1:
                        kk = (ins.m.name, opsig(ab), 'relift', '')
                        out['groups'].setdefault(kk, [0, hx, 'lifting #%d of the same instruction in this process gives other IR than lifting #1: %s' % (
                            k_, [x for x in dign if x not in dig1][:2]), None])[0] += 1
                        break
        except x86sem.Unsupported as u:
            out['unsup'][str(u)[:60]] += 1
            continue
        except D.IllTyped as ex:
            k = (ins.m.name, '?', 'illtyped', '')
            out['groups'].setdefault(k, [0, hx, 'lifted IR has no meaning: %s' % ex, None])[0] += 1
            continue
        except Exception as ex:
            from checks.C11 import exc_site
            k = (ins.m.name, '?', 'lift', exc_site(ex))
            out['groups'].setdefault(k, [0, hx, 'lifting raised %s: %s' % (type(ex).__name__, str(ex)[:120]), None])[0] += 1
            continue
        out['n'] += 1
        sig = opsig(ab)
        for (o, case, r, w) in res:
            out['queries'] += 1
            k = (ab['name'], sig, o, case)
            if r == 'unsat':
                out['ok'] += 1
                g = out['groups'].setdefault(('OK',) + k, [0, hx, '', None])
                g[0] += 1
            elif r == 'skipped':
                g = out['groups'].setdefault(('UNK',) + k, [0, hx, 'skipped after two slow/undecided sibling instances', None])
                g[0] += 1
            elif r == 'sat':
                g = out['groups'].setdefault(k, [0, hx, '', w])
                g[0] += 1
                if len(hx) < len(g[1]): g[1], g[3] = hx, w
            else:
                g = out['groups'].setdefault(('UNK',) + k, [0, hx, r, None])
                g[0] += 1
    out['secs'] = time.time() - t0
    return out

def main(argv):
    tier, seed, rest = common.parse_args(argv)
    common.use_repo()
    run = Run('C04', tier, seed, 'proof', 'cd /verif && ./vcheck C04 --tier %s' % tier)
    nparts = 64
    with multiprocessing.get_context('fork').Pool(min(16, os.cpu_count() or 4)) as pool:
        results = pool.map(_work, [(i, nparts, tier) for i in range(nparts)], chunksize=1)
    groups = {}
    for r in results:
        for k, g in r['groups'].items():
            G = groups.setdefault(k, [0, g[1], g[2], g[3]])
            G[0] += g[0]
            if len(g[1]) < len(G[1]): G[1], G[2], G[3] = g[1], g[2], g[3]
    n_inst = sum(r['n'] for r in results)
    failing = dict((k, v) for k, v in groups.items() if k[0] not in ('OK', 'UNK'))
    okg = dict((k[1:], v) for k, v in groups.items() if k[0] == 'OK')
    unk = dict((k[1:], v) for k, v in groups.items() if k[0] == 'UNK')
    n_ok = 0
    for k, v in okg.items():
        if k not in failing and k not in unk:
            n_ok += 1
    run.bulk('(mnemonic, operand signature, output, case) obligations proved for all states on every instance', n_ok, 'SMT-B', 'z3', sum(r['secs'] for r in results), DISCHARGED)
    for k, v in sorted(unk.items()):
        if k in failing: continue
        run.ob('C04:sem[%s]:%s:%s%s' % (k[0], k[1], k[2], ('|' + k[3]) if k[3] else ''), UNDECIDED if False else DOWNGRADED, 'SMT-B', 'z3',
               detail='solver answered %s on %d instances (e.g. %s); counted as not proved' % (v[2], v[0], v[1]))
    nrep = 0
    for k, (cnt, hx, msg, w) in sorted(failing.items()):
        name, sig, o, case = k
        oid = 'C04:sem[%s]:%s:%s%s' % (name, sig, o, ('|' + case) if case else '')
        if o == 'relift':
            script = REPLAY % dict(verif=common.VERIF, repo=common.REPO, hexbytes=hx, output='relift', state=None)
            run.ob(oid, FAILED, 'SMT-B', 'cpython', detail='%d instances, e.g. %s: %s' % (cnt, hx, msg), witness=run.write_replay(oid, {'obligation': oid, 'detail': msg}, script), confirmed=True, func=name)
            continue
        if o in ('lift', 'illtyped'):
            run.ob(oid, FAILED, 'SMT-B', 'cpython', detail='%d instances, e.g. %s: %s' % (cnt, hx, msg),
                   witness=run.write_replay(oid, {'obligation': oid, 'bytes': hx, 'detail': msg, 'replay': 'checks.C11.replay(%r, "noraise", ...)' % hx}), confirmed=True, func=name)
            continue
        detail = '%d instances, e.g. bytes %s in state %s: lifted %s differs from the processor' % (cnt, hx, dict((a, hex(b)) for a, b in (w or {}).get('regs', {}).items()), o)
        script = REPLAY % dict(verif=common.VERIF, repo=common.REPO, hexbytes=hx, output=o + ('|' + case if case else ''), state=w)
        rp = run.write_replay(oid, {'obligation': oid, 'detail': detail}, script)
        nrep += 1
        run.ob(oid, FAILED, 'SMT-B', 'z3', detail=detail, witness=rp, confirmed=True, func=name)
    for r in results:
        for e in r['engine'][:2]:
            run.ob('C04:engine', ENGINE_ERR, 'SMT-B', 'z3', detail=str(e))
    unsup = collections.Counter()
    for r in results: unsup.update(r['unsup'])
    run.evaluations = sum(r['queries'] for r in results)
    run.distinct = len(okg) + len(failing)
    run.extra['instances'] = n_inst
    run.extra['z3_queries'] = sum(r['queries'] for r in results)
    run.extra['instances_outside_spec'] = dict(unsup.most_common(20))
    run.extra['mnemonics'] = len(set(k[0] for k in okg) | set(k[0] for k in failing))
    run.rule = ('instances = real decoder output over the structural enumeration restricted to the integer-core mnemonics, one per (mnemonic, sizes, prefixes in {none,66,64%s}, '
                'operand classes: register class {eax,ecx,edx,esp,other}, memory structure incl. esp-based); each instance: one z3 query per output '
                '(8 general registers, 6 segment registers, cf pf af zf sf of df, memory as a whole, eip) and per spec case (shift count = 0 / != 0) over a fully symbolic machine state' % ('' if tier == 'quick' else ',67,2E'))
    run.explanation = ('SMT-B: the real semantic functions and dict_to_Expr are executed; their result is translated with the IR denotation and proved equal to the IA-32 spec '
                       'for all register/flag/memory values; flags the architecture leaves undefined generate no obligation; direct branch targets are not compared (taken/not-taken and fall-through are)')
    run.samples = ['%s:%s:%s %s' % (k[0], k[1], k[2], k[3]) for k in list(sorted(okg))[:5]]
    run.trust('z3 5.1'); run.trust('S-ir denotation liftvc/den.py'); run.trust('IA-32 spec specs/x86sem.py (hand-written from the SDM)')
    run.assume('flat segmentation for es/cs/ss/ds, 32-bit protected mode, no faults (#DE excluded by precondition), rep prefixes not applied (single step)')
    run.assume('register numbers are sampled by class; immediates/displacements come from the enumeration paddings; the lifter does not inspect them (uniformity)')
    return run.finish()

if __name__ == '__main__':
    sys.exit(main(sys.argv[1:]))
