"""SMT-A part of C15: __eq__, __hash__, visit and copy of every IR node class, by structural induction (see checks/exprind.py).

Laws (from the property) and their inductive steps, each proved on the real method body of class K with opaque children:

  eq     K.__eq__(self, a)  <=>  a is a K  and  the value fields of FIELDS[K] are equal  and  child_i == child'_i for every child position
         (children's == is the opaque relation EQ; with it "== is an equivalence that implies equal values" follows by induction, because den(K node)
         is a function of exactly those fields and the children's values).  Other operand: another node class, None, an int: False.
  hash   two K nodes whose value fields are equal and whose children have pairwise equal hashes (induction hypothesis: == implies equal hash)
         hash equal - whatever else differs (object identity, is_term/is_simp/is_eval flags).  Proved as a twin execution of the same body.
  visit  the inner visitor of K returns either `self`, and then every visited child is == to the original child, or a new K node with the same
         value fields whose children are exactly the visited children (no child is forgotten, none is visited with another callback);
         visit_chk's wrapper returns cb(visitor(e, cb)).  With cb = identity this gives "visit returns an equal expression" by induction, and it is
         the substitution lemma behind replace_expr / canonize (the callback is applied bottom-up to every node exactly once).
  copy   K.copy() returns a new K node with equal value fields whose children are the children's copies (so, by induction, no node object is
         shared with the original; modint values are immutable).
"""
import sys, os, itertools
from vlib import common
from vlib.common import DISCHARGED, FAILED, DOWNGRADED, ENGINE_ERR, BOUNDED_OK
from checks import exprind
from checks.exprind import MOD, CHILD_CLASSES

REPLAY = '''
import sys, os
sys.path.insert(0, %(verif)r); sys.path.insert(0, %(repo)r)
sys.dont_write_bytecode = True
from checks import C15smt
sys.exit(C15smt.replay(%(data)r))
'''
SHAPES = [('ExprInt', [0]), ('ExprId', [0]), ('ExprAff', [2]), ('ExprCond', [3]), ('ExprMem', [1, 2]), ('ExprOp', [0, 1, 2, 3]),
          ('ExprSlice', [1]), ('ExprCompose', [1, 2, 3])]
AFF_DST = ('ExprId', 'ExprMem')       # after construction the destination of an ExprAff is never a slice

# stubs standing for "any visitor" / "any callback" in the proof of visit_chk's wrapper
def _any_visitor(e, cb): raise NotImplementedError
def _any_cb(e): raise NotImplementedError

# ------------------------------------------------------------------ native twins (concrete instances)
def _variants(K, vec):
    """concrete (a, b, equal?) pairs of class K: identical rebuild, and one differing in each value field / child"""
    X = exprind.E()
    from miasmx.tools.modint import uint32, uint8, uint16
    a, kids = exprind.concrete_node(K, vec)
    b, _ = exprind.concrete_node(K, vec)
    out = [(a, b, True, 'rebuilt')]
    other = X.ExprId('other', 32)
    if K == 'ExprInt':
        out += [(a, X.ExprInt(uint32(6)), False, 'value'), (a, X.ExprInt(uint8(5)), False, 'size')]
    elif K == 'ExprId':
        out += [(a, X.ExprId('y', 32), False, 'name'), (a, X.ExprId('x', 16), False, 'size'), (a, X.ExprId('x', 32, is_reg=True), False, 'is_reg'),
                (a, X.ExprId('x', 32, is_term=True), True, 'is_term')]
    elif K == 'ExprAff':
        out += [(a, X.ExprAff(other, kids[1]), False, 'dst'), (a, X.ExprAff(kids[0], other), False, 'src')]
    elif K == 'ExprCond':
        for i in range(3):
            ch = list(kids); ch[i] = other
            out.append((a, X.ExprCond(*ch), False, 'child%d' % i))
    elif K == 'ExprMem':
        out += [(a, X.ExprMem(other, 32, a.segm), False, 'arg'), (a, X.ExprMem(kids[0], 16, a.segm), False, 'size'),
                (a, X.ExprMem(kids[0], 32, other if a.segm is None else None), False, 'segm')]
    elif K == 'ExprOp':
        out += [(a, X.ExprOp('^', *kids), False, 'op'), (a, X.ExprOp(a.op, *(list(kids) + [other])), False, 'arity')]
        if len(kids) >= 2 and not (kids[0] == kids[-1]):
            out.append((a, X.ExprOp(a.op, *reversed(kids)), False, 'order'))
        for i in range(len(kids)):
            ch = list(kids); ch[i] = other
            out.append((a, X.ExprOp(a.op, *ch), False, 'child%d' % i))
    elif K == 'ExprSlice':
        out += [(a, X.ExprSlice(other, 0, 8), False, 'arg'), (a, X.ExprSlice(kids[0], 1, 8), False, 'start'), (a, X.ExprSlice(kids[0], 0, 7), False, 'stop')]
    elif K == 'ExprCompose':
        for i in range(len(kids)):
            for j, what in ((0, 'child%d' % i), (1, 'start%d' % i), (2, 'stop%d' % i)):
                args = [list(x) for x in a.args]
                args[i][j] = X.ExprSlice(other, 0, a.args[i][2] - a.args[i][1]) if j == 0 else args[i][j] + 1
                out.append((a, X.ExprCompose([tuple(x) for x in args]), False, what))
        out.append((a, X.ExprCompose(list(a.args) + [(X.ExprSlice(other, 0, 8), 32, 40)]), False, 'arity'))
    return out, a, kids

def native(method, K, vec):
    """None or a message: the step of `method` on concrete instances of class K over children of classes vec"""
    X = exprind.E()
    try:
        vs, a, kids = _variants(K, vec)
        if method == 'eq':
            for (x, y, want, what) in vs:
                for (p, q) in ((x, y), (y, x)):
                    if bool(p == q) != want:
                        return '%s == %s is %s (differ in: %s)' % (p, q, p == q, what)
                    if bool(p != q) == want:
                        return '%s != %s is %s (differ in: %s)' % (p, q, p != q, what)
            for o in (None, 5, 'x', exprind.concrete_child('ExprId' if K != 'ExprId' else 'ExprInt', 9)):
                if a == o: return '%s == %r' % (a, o)
        elif method == 'hash':
            for (x, y, want, what) in vs:
                if want and hash(x) != hash(y):
                    return 'hash(%s) differs between equal nodes (%s)' % (x, what)
        elif method == 'visit':
            seen = []
            r = a.visit(lambda e: (seen.append(e), e)[1])
            if not (r == a): return 'visit(identity) of %s returned %s' % (a, r)
            for c in kids:
                if not any(s is c for s in seen): return 'visit of %s never passed child %s to the callback' % (a, c)
            if not any(s is r for s in seen) and not any(s is a for s in seen): return 'visit of %s never passed the node itself to the callback' % a
            if kids:
                new = X.ExprId('fresh', kids[0].get_size() if hasattr(kids[0], 'get_size') else 32)
                for i, c in enumerate(kids):
                    r = a.visit(lambda e: new if e is c else e)
                    got = direct_children(r)
                    if r is a or type(r) is not type(a) or len(got) != len(kids) or got[i] is not new or any(got[j] is not kids[j] for j in range(len(kids)) if j != i):
                        return 'visit of %s with child %d replaced returned %s' % (a, i, r)
        elif method == 'copy':
            r = a.copy()
            if not (r == a): return 'copy of %s is %s' % (a, r)
            if r is a: return 'copy of %s is the node itself' % a
            ids = set(id(n) for n in all_nodes(a))
            for n in all_nodes(r):
                if id(n) in ids: return 'copy of %s shares node %s with the original' % (a, n)
    except Exception as ex:
        return '%s step on %s%s raised %s: %s' % (method, K, list(vec), type(ex).__name__, ex)
    return None

def direct_children(e):
    X = exprind.E()
    if isinstance(e, X.ExprAff): return [e.dst, e.src]
    if isinstance(e, X.ExprCond): return [e.cond, e.src1, e.src2]
    if isinstance(e, X.ExprMem): return [e.arg] + ([e.segm] if isinstance(e.segm, X.Expr) else [])
    if isinstance(e, X.ExprOp): return list(e.args)
    if isinstance(e, X.ExprSlice): return [e.arg]
    if isinstance(e, X.ExprCompose): return [x[0] for x in e.args]
    return []

def all_nodes(e):
    out = [e]
    for c in direct_children(e): out += all_nodes(c)
    return out

def replay(data):
    common.use_repo()
    msg = native(data['method'], data['K'], tuple(data['vec']))
    print(msg or 'contract holds on the concrete instances of this shape')
    return 1 if msg else 0

# ------------------------------------------------------------------ the proofs
def ob_smt(run, only=None):
    import z3
    from pyvc import engine
    from pyvc.engine import is_sym, find_method
    from pyvc.runner import resolve
    from pyvc.contract import Contract, SObj
    from specs.duck import And, Or, Not
    import miasmx.tools.modint as MI
    X = exprind.E()
    n = [0]
    def tag(o): return getattr(o, 'tag', None) or ('o%d' % o.ident)
    def EQ(x, y):
        if x is y: return True
        if not isinstance(x, SObj) or not isinstance(y, SObj): return False
        a, b = sorted([tag(x), tag(y)])
        return z3.Bool('EQ(%s,%s)' % (a, b))
    def H(x):
        return z3.Int('H(%s)' % getattr(x, 'hkey', tag(x)))
    def opaque(name, t, **extra):
        o = exprind.child(name, t, extra) if name in CHILD_CLASSES or name == 'ExprAff' else SObj(getattr(MI, name), dict(extra), fresh=False)
        object.__setattr__(o, 'tag', t)
        return o
    # ---- induction hypotheses and inlined helpers
    IH = {}
    made = {}
    def ih_visit(ctx, c, cb):
        k = ('V', c.ident, id(cb))
        if k not in made:
            made[k] = opaque(c.cls.__name__, 'visit(%s)' % tag(c)); object.__setattr__(made[k], 'of', (c, cb))
        return made[k]
    def ih_copy(ctx, c):
        k = ('C', c.ident)
        if k not in made:
            made[k] = opaque(c.cls.__name__, 'copy(%s)' % tag(c)); object.__setattr__(made[k], 'copy_of', c)
        return made[k]
    for name in CHILD_CLASSES + ('ExprAff',):
        k = exprind.klass(name)
        for meth, res in (('__eq__', lambda ctx, c, o: EQ(c, o)), ('__hash__', lambda ctx, c: H(c)), ('visit', ih_visit), ('copy', ih_copy)):
            fm = find_method(k, meth)
            qn = '%s:%s.%s' % (fm[0].__module__, fm[0].__qualname__, meth)
            IH[qn] = Contract(qn, result=res)
        qn = '%s:%s.__init__' % (MOD, name)
        IH[qn] = Contract(qn, inline=True)
    IH['%s:Expr.__ne__' % MOD] = Contract('%s:Expr.__ne__' % MOD, inline=True)
    IH['miasmx.tools.modint:moduint.__eq__'] = Contract('moduint.__eq__', result=lambda ctx, c, o: EQ(c, o))
    IH['miasmx.tools.modint:moduint.__ne__'] = Contract('moduint.__ne__', result=lambda ctx, c, o: Not(EQ(c, o)))
    IH['miasmx.tools.modint:moduint.__hash__'] = Contract('moduint.__hash__', result=lambda ctx, c: H(c))

    def build(K, vec, sfx='', share=None):
        """symbolic node of class K; `share`: a node built before whose value fields (and children's hash keys) this one shares"""
        kids = [opaque(nm, 'c%d%s:%s' % (i, sfx, nm)) for i, nm in enumerate(vec)]
        if share is not None:
            for c, c0 in zip(kids, share.kids): object.__setattr__(c, 'hkey', tag(c0))
        def sc(nm, kind='int'):
            if share is not None: return share.fields[nm]
            return z3.Int(nm + sfx) if kind == 'int' else z3.Bool(nm + sfx)
        flags = {'is_simp': z3.Bool('is_simp' + sfx), 'is_eval': z3.Bool('is_eval' + sfx)}
        if K == 'ExprInt':
            arg = opaque('uint32', 'arg' + sfx, size=(share.fields['arg'].fields['size'] if share is not None else z3.Int('argsize' + sfx)))
            if share is not None: object.__setattr__(arg, 'hkey', tag(share.fields['arg']))
            f = {'arg': arg}
        elif K == 'ExprId': f = {'name': sc('name'), 'size': sc('size'), 'is_reg': sc('is_reg', 'bool'), 'is_term': z3.Bool('is_term' + sfx)}
        elif K == 'ExprAff': f = {'dst': kids[0], 'src': kids[1]}
        elif K == 'ExprCond': f = {'cond': kids[0], 'src1': kids[1], 'src2': kids[2]}
        elif K == 'ExprMem': f = {'arg': kids[0], 'size': sc('size'), 'segm': kids[1] if len(kids) == 2 else None}
        elif K == 'ExprOp': f = {'op': '+', 'args': tuple(kids)}
        elif K == 'ExprSlice': f = {'arg': kids[0], 'start': sc('start'), 'stop': sc('stop')}
        elif K == 'ExprCompose':
            f = {'args': [(c, (share.fields['args'][i][1] if share is not None else z3.Int('lo%d%s' % (i, sfx))),
                           (share.fields['args'][i][2] if share is not None else z3.Int('hi%d%s' % (i, sfx)))) for i, c in enumerate(kids)]}
        f.update(flags)
        me = SObj(exprind.klass(K), f, fresh=False)
        object.__setattr__(me, 'tag', 'self' + sfx)
        object.__setattr__(me, 'kids', kids)
        return me
    def scalars_equal(K, a, b):
        """formula: the value fields (non-children) of two K records are equal"""
        cl = []
        def eq(x, y):
            if is_sym(x) or is_sym(y): return x == y
            return x is y or x == y
        if K == 'ExprInt': cl += [EQ(a.fields['arg'], b.fields['arg']), eq(a.fields['arg'].fields['size'], b.fields['arg'].fields['size'])]
        if K == 'ExprId': cl += [eq(a.fields[x], b.fields[x]) for x in ('name', 'size', 'is_reg')]
        if K == 'ExprMem': cl.append(eq(a.fields['size'], b.fields['size']))
        if K == 'ExprOp': cl.append(a.fields['op'] == b.fields['op'])
        if K == 'ExprSlice': cl += [eq(a.fields[x], b.fields[x]) for x in ('start', 'stop')]
        if K == 'ExprCompose':
            if len(a.fields['args']) != len(b.fields['args']): return False
            for x, y in zip(a.fields['args'], b.fields['args']): cl += [eq(x[1], y[1]), eq(x[2], y[2])]
        return And(*cl) if cl else True
    def kids_of(o):
        K = o.cls.__name__; f = o.fields
        if K == 'ExprAff': return [f['dst'], f['src']]
        if K == 'ExprCond': return [f['cond'], f['src1'], f['src2']]
        if K == 'ExprMem': return [f['arg']] + ([f['segm']] if isinstance(f.get('segm'), SObj) else [])
        if K == 'ExprOp': return list(f['args'])
        if K == 'ExprSlice': return [f['arg']]
        if K == 'ExprCompose': return [x[0] for x in f['args']]
        return []
    def emit(base, V, QN, data):
        if V.unsupported:
            run.ob(base + ':generate', DOWNGRADED, 'SMT-A', 'pyvc', detail=V.unsupported, func=QN); return
        if not V.cover or (V.returns == 0 and not V.raises):
            run.ob(base + ':cover', ENGINE_ERR, 'SMT-A', 'z3', detail='no feasible path', func=QN); return
        for cl, d in sorted(V.clauses.items()):
            n[0] += 1
            oid = base + ':' + cl
            if d['status'] == 'unsat':
                run.ob(oid, DISCHARGED, 'SMT-A', 'z3', d['secs'], func=QN)
            elif d['status'] == 'sat':
                w = d['witness'] or {}
                msg = native(data['method'], data['K'], tuple(data['vec']))
                rp = run.write_replay(oid, {'obligation': oid, 'inputs': w, 'verifier': d['detail']}, REPLAY % dict(verif=common.VERIF, repo=common.REPO, data=data))
                if msg is None:
                    run.ob(oid, FAILED, 'SMT-A', 'z3', d['secs'], detail='inductive step fails (%s; model %s); the concrete instances of this shape do not show it' % (d['detail'], w), witness=rp, confirmed=False, func=QN)
                else:
                    run.ob(oid, FAILED, 'SMT-A', 'z3', d['secs'], detail='%s; model %s; native: %s' % (d['detail'], w, msg), witness=rp, confirmed=True, func=QN)
            else:
                run.ob(oid, DOWNGRADED, 'SMT-A', 'z3', d['secs'], detail='solver unknown', func=QN)
    def vecs_for(K, ar):
        vs = exprind.vectors(ar)
        if K == 'ExprAff': vs = [v for v in vs if v[0] in AFF_DST] + [('ExprId', 'ExprMem'), ('ExprMem', 'ExprId')]
        return vs
    tests = {}
    for K, arities in SHAPES:
        for meth in ('__eq__', '__hash__', 'visit', 'copy'):
            if only and only != (K, meth): continue
            QN = '%s:%s.%s' % (MOD, K, meth)
            mod, node, seg, path = resolve(QN)
            run.function(QN, seg, path, node.lineno)
            t = exprind.isinstance_tests(node)
            if t: tests['%s.%s' % (K, meth)] = t
            for ar in arities:
                for vec in vecs_for(K, ar):
                    made.clear()
                    label = ','.join(vec) or '-'
                    if meth == '__eq__':
                        others = [('same', K, ar)]
                        if K in ('ExprOp', 'ExprCompose'): others.append(('arity', K, ar + 1))
                        others += [('class', 'ExprId' if K != 'ExprId' else 'ExprInt', 0), ('none', None, 0), ('int', None, 0)]
                        for (what, K2, ar2) in others:
                            st = {}
                            def make_args(ctx, K=K, vec=vec, what=what, K2=K2, ar2=ar2, st=st):
                                me = build(K, vec)
                                if what in ('same', 'arity'):
                                    vec2 = tuple(vec) + ('ExprId',) * (ar2 - len(vec))
                                    a = build(K2, vec2, "'")
                                    if K == 'ExprOp' and what == 'same' and st.get('op2'): a.fields['op'] = '^'
                                elif what == 'class': a = build(K2, ())
                                elif what == 'none': a = None
                                else: a = 5
                                st['me'], st['a'] = me, a
                                ins = dict((str(v), v) for o in (me, a) if isinstance(o, SObj) for v in o.fields.values() if is_sym(v))
                                return [me, a], ins
                            def post(ctx, res, me, a, K=K, what=what):
                                if what != 'same':
                                    want = False
                                else:
                                    ka, kb = kids_of(me), kids_of(a)
                                    want = And(scalars_equal(K, me, a), *[EQ(x, y) for x, y in zip(ka, kb)]) if len(ka) == len(kb) else False
                                    if K == 'ExprMem' and (me.fields['segm'] is None) != (a.fields['segm'] is None): want = False
                                r = res if is_sym(res) else z3.BoolVal(bool(res))
                                w = want if is_sym(want) else z3.BoolVal(bool(want))
                                return r == w
                            top = Contract(QN, post=post)
                            variants = [False, True] if (K == 'ExprOp' and what == 'same') else [False]
                            for op2 in variants:
                                st['op2'] = op2
                                base = 'C15:ind:%s.__eq__[%s|%s%s]' % (K, label, what, ';op' if op2 else '')
                                V = engine.verify_function(QN, node, vars(mod), top, IH, make_args)
                                emit(base, V, QN, {'method': 'eq', 'K': K, 'vec': list(vec)})
                        # ExprMem: one side with, one side without a segment expression
                        if K == 'ExprMem':
                            for (v1, v2) in ((vec[:1], vec[:1] + ('ExprId',)),) if ar == 1 else ((vec, vec[:1]),):
                                st = {}
                                def make_args(ctx, v1=v1, v2=v2, st=st):
                                    me, a = build('ExprMem', v1), build('ExprMem', v2, "'")
                                    return [me, a], {}
                                top = Contract(QN, post=lambda ctx, res, me, a: (res == z3.BoolVal(False)) if is_sym(res) else (not res))
                                V = engine.verify_function(QN, node, vars(mod), top, IH, make_args)
                                emit('C15:ind:ExprMem.__eq__[%s|segm-vs-%s]' % (','.join(v1), ','.join(v2)), V, QN, {'method': 'eq', 'K': K, 'vec': list(vec)})
                    elif meth == '__hash__':
                        st = {}
                        def make_args(ctx, K=K, vec=vec, st=st):
                            me = build(K, vec)
                            st['twin'] = build(K, vec, "'", share=me)
                            return [me], {}
                        def post(ctx, res, me, st=st, node=node, mod=mod):
                            res2 = ctx.interp.run_function(node, [st['twin']], vars(mod))
                            return res == res2
                        top = Contract(QN, post=post)
                        V = engine.verify_function(QN, node, vars(mod), top, IH, make_args)
                        emit('C15:ind:%s.__hash__[%s]' % (K, label), V, QN, {'method': 'hash', 'K': K, 'vec': list(vec)})
                    elif meth == 'visit':
                        st = {}
                        cbtok = object()
                        def make_args(ctx, K=K, vec=vec, st=st):
                            made.clear()
                            me = build(K, vec)
                            st['me'] = me
                            return [me, cbtok], {}
                        def post(ctx, res, me, cb, K=K):
                            kids = kids_of(me)
                            vk = [made.get(('V', c.ident, id(cb))) for c in kids]
                            if res is me:
                                # unchanged: every child must have been visited (with this callback) and found equal
                                if any(v is None for v in vk): return False
                                return And(*[EQ(v, c) for v, c in zip(vk, kids)]) if kids else True
                            if not isinstance(res, SObj) or res.cls is not me.cls or not res.fresh: return False
                            rk = kids_of(res)
                            if len(rk) != len(kids) or any(r is not v for r, v in zip(rk, vk)): return False
                            return scalars_equal(K, me, res)
                        top = Contract(QN, post=post, frame=[])
                        V = engine.verify_function(QN, node, vars(mod), top, IH, make_args)
                        emit('C15:ind:%s.visit[%s]' % (K, label), V, QN, {'method': 'visit', 'K': K, 'vec': list(vec)})
                    elif meth == 'copy':
                        def make_args(ctx, K=K, vec=vec):
                            made.clear()
                            return [build(K, vec)], {}
                        def post(ctx, res, me, K=K):
                            kids = kids_of(me)
                            if not isinstance(res, SObj) or res is me or res.cls is not me.cls or not res.fresh: return False
                            rk = kids_of(res)
                            if len(rk) != len(kids) or any(getattr(r, 'copy_of', None) is not c for r, c in zip(rk, kids)): return False
                            if K == 'ExprId' and res.fields.get('is_term') is not me.fields['is_term']: return False
                            if K == 'ExprInt': return res.fields['arg'] is me.fields['arg']
                            return scalars_equal(K, me, res)
                        top = Contract(QN, post=post, frame=[])
                        V = engine.verify_function(QN, node, vars(mod), top, IH, make_args)
                        emit('C15:ind:%s.copy[%s]' % (K, label), V, QN, {'method': 'copy', 'K': K, 'vec': list(vec)})
    # ---- visit_chk's wrapper: wrapped(e, cb) == cb(visitor(e, cb))
    if not only or only == ('visit_chk', 'wrapped'):
        QN = '%s:visit_chk.wrapped' % MOD
        mod, node, seg, path = resolve(QN)
        run.function(QN, seg, path, node.lineno)
        toks = {}
        me_q = '%s:%s' % (__name__, '_any_visitor'); cb_q = '%s:%s' % (__name__, '_any_cb')
        cs = dict(IH)
        def r_vis(ctx, e, cb):
            toks['vis'] = (e, cb, object()); return toks['vis'][2]
        def r_cb(ctx, e):
            toks.setdefault('cb', []).append((e, object())); return toks['cb'][-1][1]
        cs[me_q] = Contract(me_q, result=r_vis); cs[cb_q] = Contract(cb_q, result=r_cb)
        st = {}
        def make_args(ctx):
            toks.clear()
            st['e'] = build('ExprCond', ('ExprId', 'ExprId', 'ExprId'))
            return [st['e'], _any_cb], {}
        def post(ctx, res, e, cb):
            return 'vis' in toks and toks['vis'][0] is e and toks['vis'][1] is cb and len(toks.get('cb', [])) == 1 and toks['cb'][0][0] is toks['vis'][2] and res is toks['cb'][0][1]
        top = Contract(QN, post=post)
        g = dict(vars(mod)); g['visitor'] = _any_visitor
        V = engine.verify_function(QN, node, g, top, cs, make_args)
        emit('C15:ind:visit_chk.wrapped', V, QN, {'method': 'visit', 'K': 'ExprCond', 'vec': ['ExprId', 'ExprId', 'ExprId']})
        # every class's `visit` attribute is the wrapper around the verified inner visitor (checked on the live classes)
        bad = []
        for K, _ in SHAPES:
            f = exprind.klass(K).__dict__.get('visit')
            ok = f is not None and getattr(f, '__name__', '') == 'wrapped' and f.__closure__ and any(getattr(c.cell_contents, '__name__', '') == 'visit' and
                    c.cell_contents.__code__.co_firstlineno == resolve('%s:%s.visit' % (MOD, K))[1].lineno for c in f.__closure__)
            if not ok: bad.append(K)
        run.ob('C15:ind:visit-is-wrapped-visitor', FAILED if bad else DISCHARGED, 'COMP', 'cpython', detail=('classes whose visit attribute is not visit_chk(inner visit): %s' % bad) if bad else None,
               confirmed=bool(bad), func='%s:visit_chk' % MOD)
    if tests:
        run.notes.append('C15 induction steps: isinstance tests in the verified bodies: %s' % tests)
    # ---- native twin of every step on concrete instances
    cnt = nbad = 0
    for K, arities in SHAPES:
        for ar in arities:
            vs = list(itertools.product(CHILD_CLASSES, repeat=ar)) if ar <= 2 else exprind.vectors(ar)
            if K == 'ExprAff': vs = [v for v in vs if v[0] in AFF_DST]
            for vec in vs:
                for m in ('eq', 'hash', 'visit', 'copy'):
                    cnt += 1
                    msg = native(m, K, vec)
                    if msg:
                        nbad += 1
                        if nbad <= 4:
                            oid = 'C15:ind:%s.%s[%s]:twin' % (K, m, ','.join(vec))
                            rp = run.write_replay(oid, {'obligation': oid}, REPLAY % dict(verif=common.VERIF, repo=common.REPO, data={'method': m, 'K': K, 'vec': list(vec)}))
                            run.ob(oid, FAILED, 'BND', 'cpython-enum', detail=msg, witness=rp, confirmed=True, func='%s:%s' % (MOD, K))
    run.bulk('induction steps of __eq__/__hash__/visit/copy on concrete nodes for every child-class vector (native twin)', cnt - nbad, 'BND', 'cpython-enum', 0.0, BOUNDED_OK)
    return n[0]
