"""SMT-A part of C02: the immediate-fitting helper check_imm_size (with imm_to_generic inlined) is verified from its AST for ALL
immediates: "immediates are never silently truncated or sign-changed: a value that does not fit a form excludes that form".

Contract (taken from the property text, shapes from the call sites in asm_candidates):
  check_imm_size(imm, size), size in {u08,s08,u16,s16,u32,s32}, imm a Python int or a fixed-width integer:
    result is None (the form is excluded), or a fixed-width integer of the class of `size` whose value, extended the way the processor
    extends the field (zero-extension for u*, sign-extension for s*), is congruent to imm modulo 2^W, W = the width the field stands for:
      u08 -> 8 (and imm fits 8 bits read signed or unsigned), u16 -> 16 (imm in 0..2^16-1), u32/s32 -> 32,
      s08 -> 32 (sign-extended imm8 of a 32-bit operation), or 16 when imm is typed 16 bits wide; s16 -> 32
  any other size raises ValueError.
Callee contracts: the modint constructors and __int__ (proved in C14).
"""
import sys, os
from vlib import common
from vlib.common import DISCHARGED, FAILED, DOWNGRADED, ENGINE_ERR, BOUNDED_OK

REPLAY = '''
import sys, os
sys.path.insert(0, %(verif)r); sys.path.insert(0, %(repo)r)
sys.dont_write_bytecode = True
from checks import C02smt
sys.exit(C02smt.replay(%(data)r))
'''

SIZES = {'u08': ('uint8', 8, False), 's08': ('int8', 8, True), 'u16': ('uint16', 16, False), 's16': ('int16', 16, True), 'u32': ('uint32', 32, False), 's32': ('int32', 32, True)}
IMM_KINDS = ['int', 'uint8', 'uint16', 'uint32', 'int8', 'int16', 'int32']

def spec_ok(I, isize, size, res_cls, res_val):
    """the postcondition on concrete values (used by the native twin and the replay)"""
    cname, w, sg = SIZES[size]
    if res_cls != cname: return False
    ext = res_val                       # int(res) is already the sign-/zero-extended field value
    if size == 'u08': return -128 <= I < 256 and (ext - I) % 256 == 0
    if size == 'u16': return 0 <= I < 65536 and (ext - I) % 65536 == 0
    if size in ('u32', 's32'): return (ext - I) % (1 << 32) == 0
    if size == 's16': return (ext - I) % (1 << 32) == 0
    if size == 's08':
        if (ext - I) % (1 << 32) == 0: return True
        return isize == 16 and (ext - I) % (1 << 16) == 0
    return False

def contracts():
    import contracts.modint as cm
    from pyvc.contract import Contract, SObj, cls_of
    from specs.duck import And, Or, Implies, is_sym
    import z3
    C = dict(cm.CONTRACTS)
    A = 'miasmx.arch.ia32_arch'
    C['%s:imm_to_generic' % A] = Contract('%s:imm_to_generic' % A, inline=True)
    # the s32 test compares with the float uint32.limit/2: outside the integer-operand precondition of the comparison contracts of C14,
    # so the (two-line) real bodies of the ordering methods are executed instead
    for m in ('__lt__', '__ge__', '__le__', '__gt__'):
        C['miasmx.tools.modint:moduint.%s' % m] = Contract('miasmx.tools.modint:moduint.%s' % m, inline=True)
    def pre(ctx, imm, size):
        return cm.operand_ok(imm)
    def post(ctx, res, imm, size):
        if res is None: return True
        if size not in SIZES: return False
        cname, w, sg = SIZES[size]
        if not cm.is_fixed(res) or cls_of(res).__name__ != cname: return False
        I = cm.val(imm)
        ext = res.arg
        isize = cm.width(cls_of(imm)) if cm.is_fixed(imm) else 0
        inv = cm.inv(res)
        if size == 'u08': return And(inv, I >= -128, I < 256, (ext - I) % 256 == 0)
        if size == 'u16': return And(inv, I >= 0, I < 65536, (ext - I) % 65536 == 0)
        if size in ('u32', 's32', 's16'): return And(inv, (ext - I) % (1 << 32) == 0)
        if size == 's08':
            c32 = (ext - I) % (1 << 32) == 0
            if isize == 16: return And(inv, Or(c32, (ext - I) % (1 << 16) == 0))
            return And(inv, c32)
        return False
    C['%s:check_imm_size' % A] = Contract('%s:check_imm_size' % A, pre=pre, post=post,
                                          raises={'ValueError': lambda ctx, imm, size: size not in SIZES}, raises_iff=('ValueError',))
    return C

def native(size, kind, I):
    """the real function on concrete values: None when the contract holds, else a message"""
    import miasmx.arch.ia32_arch as A
    import miasmx.tools.modint as M
    imm = I if kind == 'int' else getattr(M, kind)(I)
    Iv = int(imm)
    isize = 0 if kind == 'int' else int(kind.lstrip('uint'))
    try:
        r = A.check_imm_size(imm, size)
    except ValueError:
        return None if size not in SIZES else 'raised ValueError for a known size'
    if size not in SIZES: return 'no ValueError for unknown size %r' % size
    if r is None: return None
    if not spec_ok(Iv, isize, size, type(r).__name__, int(r)):
        return 'check_imm_size(%s(%d), %s) = %s(%d): the stored field does not denote the immediate' % (kind, Iv, size, type(r).__name__, int(r))
    return None

def replay(data):
    common.use_repo()
    msg = native(data['size'], data['kind'], data['I'])
    print(msg or 'contract holds on this input')
    return 1 if msg else 0

def ob_smt(run):
    import z3
    from pyvc import engine
    from pyvc.runner import resolve
    from pyvc.contract import SObj
    import miasmx.tools.modint as M
    C = contracts()
    qn = 'miasmx.arch.ia32_arch:check_imm_size'
    mod, node, seg, path = resolve(qn)
    run.function(qn, seg, path, node.lineno)
    q2 = 'miasmx.arch.ia32_arch:imm_to_generic'
    mod2, node2, seg2, path2 = resolve(q2)
    run.function(q2, seg2, path2, node2.lineno)
    n = 0
    for size in list(SIZES) + ['f32']:
        for kind in IMM_KINDS:
            def make_args(ctx, size=size, kind=kind):
                i = z3.Int('imm')
                imm = i if kind == 'int' else SObj(getattr(M, kind), {'arg': i}, fresh=False)
                return [imm, size], {'imm': i}
            base = 'C02:check_imm_size[%s,%s]' % (size, kind)
            V = engine.verify_function(qn, node, vars(mod), C[qn], C, make_args)
            if V.unsupported:
                run.ob(base + ':generate', DOWNGRADED, 'SMT-A', 'pyvc', detail=V.unsupported); continue
            if not V.cover:
                run.ob(base + ':cover', ENGINE_ERR, 'SMT-A', 'z3', detail='precondition unsatisfiable (vacuous)'); continue
            for cl, d in sorted(V.clauses.items()):
                n += 1
                oid = base + ':' + cl
                if d['status'] == 'unsat':
                    run.ob(oid, DISCHARGED, 'SMT-A', 'z3', d['secs'], func=qn)
                elif d['status'] == 'sat':
                    w = d['witness'] or {}
                    try: I = int(w.get('imm', 0))
                    except Exception: I = 0
                    data = {'size': size, 'kind': kind, 'I': I}
                    msg = native(size, kind, I)
                    rp = run.write_replay(oid, {'obligation': oid, 'inputs': w}, REPLAY % dict(verif=common.VERIF, repo=common.REPO, data=data))
                    if msg is None:
                        # the model does not replay: search the boundary values natively before giving up
                        run.ob(oid, DOWNGRADED, 'SMT-A', 'z3', d['secs'], detail='counter-model %s does not replay on the real function (encoding over uninterpreted operations); bounded twin below' % w)
                    else:
                        run.ob(oid, FAILED, 'SMT-A', 'z3', d['secs'], detail='%s; counterexample %s; native: %s' % (d['detail'], w, msg), witness=rp, confirmed=True, func=qn)
                else:
                    run.ob(oid, DOWNGRADED, 'SMT-A', 'z3', d['secs'], detail='solver unknown')
    # bounded twin: boundary immediates x every size x every kind on the real function
    B = [-(1 << 32) - 1, -(1 << 32), -(1 << 31) - 1, -(1 << 31), -65537, -65536, -32769, -32768, -257, -256, -129, -128, -127, -1, 0, 1, 127, 128, 255, 256, 32767, 32768, 65407, 65408, 65535, 65536,
         (1 << 31) - 1, 1 << 31, (1 << 32) - 129, (1 << 32) - 128, (1 << 32) - 1, 1 << 32, (1 << 32) + 1]
    bad = 0
    cnt = 0
    for size in list(SIZES) + ['f32']:
        for kind in IMM_KINDS:
            for I in B:
                cnt += 1
                msg = native(size, kind, I)
                if msg:
                    bad += 1
                    oid = 'C02:check_imm_size[%s,%s]:twin' % (size, kind)
                    rp = run.write_replay(oid, {'obligation': oid}, REPLAY % dict(verif=common.VERIF, repo=common.REPO, data={'size': size, 'kind': kind, 'I': I}))
                    run.ob(oid, FAILED, 'BND', 'cpython-enum', detail=msg, witness=rp, confirmed=True, func=qn)
                    break
    run.bulk('check_imm_size on boundary immediates (native twin)', cnt - bad, 'BND', 'cpython-enum', 0.0, BOUNDED_OK)
    return n
