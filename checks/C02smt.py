"""SMT-A part of C02: the immediate-fitting helper check_imm_size (with imm_to_generic inlined) is verified from its AST for ALL
immediates: "immediates are never silently truncated or sign-changed: a value that does not fit a form excludes that form".

Contract (taken from the property text, shapes from the call sites in asm_candidates):
  check_imm_size(imm, size), size in {u08,s08,u16,s16,u32,s32}, imm a Python int or a fixed-width integer:
    result is None (the form is excluded), or a fixed-width integer of the class of `size` whose value, extended the way the processor
    extends the field (zero-extension for u*, sign-extension for s*), is congruent to imm modulo 2^W, W = the width the field stands for:
      u08 -> 8 (and imm fits 8 bits read signed or unsigned), u16 -> 16 (imm in 0..2^16-1), u32/s32 -> 32,
      s08 -> 32 (sign-extended imm8 of a 32-bit operation), or 16 when imm is typed 16 bits wide; s16 -> 32
  any other size raises ValueError.
Callee contracts: the modint constructors and __int__ (proved in C14).
"""
import sys, os
from vlib import common
from vlib.common import DISCHARGED, FAILED, DOWNGRADED, ENGINE_ERR, BOUNDED_OK

REPLAY = '''
import sys, os
sys.path.insert(0, %(verif)r); sys.path.insert(0, %(repo)r)
sys.dont_write_bytecode = True
from checks import C02smt
sys.exit(C02smt.replay(%(data)r))
'''

SIZES = {'u08': ('uint8', 8, False), 's08': ('int8', 8, True), 'u16': ('uint16', 16, False), 's16': ('int16', 16, True), 'u32': ('uint32', 32, False), 's32': ('int32', 32, True)}
IMM_KINDS = ['int', 'uint8', 'uint16', 'uint32', 'int8', 'int16', 'int32']

def spec_ok(I, isize, size, res_cls, res_val):
    """the postcondition on concrete values (used by the native twin and the replay)"""
    cname, w, sg = SIZES[size]
    if res_cls != cname: return False
    ext = res_val                       # int(res) is already the sign-/zero-extended field value
    if size == 'u08': return -128 <= I < 256 and (ext - I) % 256 == 0
    if size == 'u16': return 0 <= I < 65536 and (ext - I) % 65536 == 0
    if size in ('u32', 's32'): return (ext - I) % (1 << 32) == 0
    if size == 's16': return (ext - I) % (1 << 32) == 0
    if size == 's08':
        if (ext - I) % (1 << 32) == 0: return True
        return isize == 16 and (ext - I) % (1 << 16) == 0
    return False

def contracts():
    import contracts.modint as cm
    from pyvc.contract import Contract, SObj, cls_of
    from specs.duck import And, Or, Implies, is_sym
    import z3
    C = dict(cm.CONTRACTS)
    A = 'miasmx.arch.ia32_arch'
    C['%s:imm_to_generic' % A] = Contract('%s:imm_to_generic' % A, inline=True)
    # the s32 test compares with the float uint32.limit/2: outside the integer-operand precondition of the comparison contracts of C14,
    # so the (two-line) real bodies of the ordering methods are executed instead
    for m in ('__lt__', '__ge__', '__le__', '__gt__'):
        C['miasmx.tools.modint:moduint.%s' % m] = Contract('miasmx.tools.modint:moduint.%s' % m, inline=True)
    def pre(ctx, imm, size):
        return cm.operand_ok(imm)
    def post(ctx, res, imm, size):
        if res is None: return True
        if size not in SIZES: return False
        cname, w, sg = SIZES[size]
        if not cm.is_fixed(res) or cls_of(res).__name__ != cname: return False
        I = cm.val(imm)
        ext = res.arg
        isize = cm.width(cls_of(imm)) if cm.is_fixed(imm) else 0
        inv = cm.inv(res)
        if size == 'u08': return And(inv, I >= -128, I < 256, (ext - I) % 256 == 0)
        if size == 'u16': return And(inv, I >= 0, I < 65536, (ext - I) % 65536 == 0)
        if size in ('u32', 's32', 's16'): return And(inv, (ext - I) % (1 << 32) == 0)
        if size == 's08':
            c32 = (ext - I) % (1 << 32) == 0
            if isize == 16: return And(inv, Or(c32, (ext - I) % (1 << 16) == 0))
            return And(inv, c32)
        return False
    C['%s:check_imm_size' % A] = Contract('%s:check_imm_size' % A, pre=pre, post=post,
                                          raises={'ValueError': lambda ctx, imm, size: size not in SIZES}, raises_iff=('ValueError',))
    return C

def native(size, kind, I):
    """the real function on concrete values: None when the contract holds, else a message"""
    import miasmx.arch.ia32_arch as A
    import miasmx.tools.modint as M
    imm = I if kind == 'int' else getattr(M, kind)(I)
    Iv = int(imm)
    isize = 0 if kind == 'int' else int(kind.lstrip('uint'))
    try:
        r = A.check_imm_size(imm, size)
    except ValueError:
        return None if size not in SIZES else 'raised ValueError for a known size'
    if size not in SIZES: return 'no ValueError for unknown size %r' % size
    if r is None: return None
    if not spec_ok(Iv, isize, size, type(r).__name__, int(r)):
        return 'check_imm_size(%s(%d), %s) = %s(%d): the stored field does not denote the immediate' % (kind, Iv, size, type(r).__name__, int(r))
    return None

def replay(data):
    common.use_repo()
    if data.get('fn') == 'ad':
        msg = native_ad(data['ad'], dict(tuple(x) for x in data['regs']), data['I'], data['txt'])
        print(msg or 'contract holds on this input')
        return 1 if msg else 0
    msg = native(data['size'], data['kind'], data['I'])
    print(msg or 'contract holds on this input')
    return 1 if msg else 0

def ob_smt(run):
    import z3
    from pyvc import engine
    from pyvc.runner import resolve
    from pyvc.contract import SObj
    import miasmx.tools.modint as M
    C = contracts()
    qn = 'miasmx.arch.ia32_arch:check_imm_size'
    mod, node, seg, path = resolve(qn)
    run.function(qn, seg, path, node.lineno)
    q2 = 'miasmx.arch.ia32_arch:imm_to_generic'
    mod2, node2, seg2, path2 = resolve(q2)
    run.function(q2, seg2, path2, node2.lineno)
    n = 0
    for size in list(SIZES) + ['f32']:
        for kind in IMM_KINDS:
            def make_args(ctx, size=size, kind=kind):
                i = z3.Int('imm')
                imm = i if kind == 'int' else SObj(getattr(M, kind), {'arg': i}, fresh=False)
                return [imm, size], {'imm': i}
            base = 'C02:check_imm_size[%s,%s]' % (size, kind)
            V = engine.verify_function(qn, node, vars(mod), C[qn], C, make_args)
            if V.unsupported:
                run.ob(base + ':generate', DOWNGRADED, 'SMT-A', 'pyvc', detail=V.unsupported); continue
            if not V.cover:
                run.ob(base + ':cover', ENGINE_ERR, 'SMT-A', 'z3', detail='precondition unsatisfiable (vacuous)'); continue
            for cl, d in sorted(V.clauses.items()):
                n += 1
                oid = base + ':' + cl
                if d['status'] == 'unsat':
                    run.ob(oid, DISCHARGED, 'SMT-A', 'z3', d['secs'], func=qn)
                elif d['status'] == 'sat':
                    w = d['witness'] or {}
                    try: I = int(w.get('imm', 0))
                    except Exception: I = 0
                    data = {'size': size, 'kind': kind, 'I': I}
                    msg = native(size, kind, I)
                    rp = run.write_replay(oid, {'obligation': oid, 'inputs': w}, REPLAY % dict(verif=common.VERIF, repo=common.REPO, data=data))
                    if msg is None:
                        # the model does not replay: search the boundary values natively before giving up
                        run.ob(oid, DOWNGRADED, 'SMT-A', 'z3', d['secs'], detail='counter-model %s does not replay on the real function (encoding over uninterpreted operations); bounded twin below' % w)
                    else:
                        run.ob(oid, FAILED, 'SMT-A', 'z3', d['secs'], detail='%s; counterexample %s; native: %s' % (d['detail'], w, msg), witness=rp, confirmed=True, func=qn)
                else:
                    run.ob(oid, DOWNGRADED, 'SMT-A', 'z3', d['secs'], detail='solver unknown')
    # bounded twin: boundary immediates x every size x every kind on the real function
    B = [-(1 << 32) - 1, -(1 << 32), -(1 << 31) - 1, -(1 << 31), -65537, -65536, -32769, -32768, -257, -256, -129, -128, -127, -1, 0, 1, 127, 128, 255, 256, 32767, 32768, 65407, 65408, 65535, 65536,
         (1 << 31) - 1, 1 << 31, (1 << 32) - 129, (1 << 32) - 128, (1 << 32) - 1, 1 << 32, (1 << 32) + 1]
    bad = 0
    cnt = 0
    for size in list(SIZES) + ['f32']:
        for kind in IMM_KINDS:
            for I in B:
                cnt += 1
                msg = native(size, kind, I)
                if msg:
                    bad += 1
                    oid = 'C02:check_imm_size[%s,%s]:twin' % (size, kind)
                    rp = run.write_replay(oid, {'obligation': oid}, REPLAY % dict(verif=common.VERIF, repo=common.REPO, data={'size': size, 'kind': kind, 'I': I}))
                    run.ob(oid, FAILED, 'BND', 'cpython-enum', detail=msg, witness=rp, confirmed=True, func=qn)
                    break
    run.bulk('check_imm_size on boundary immediates (native twin)', cnt - bad, 'BND', 'cpython-enum', 0.0, BOUNDED_OK)
    return n


# ------------------------------------------------------------------------------------------------ ad_to_generic
def ad_contract():
    """ad_to_generic(a): the generic forms of an operand whose displacement/immediate is replaced by a size class.  From the property
       ("a value that does not fit a form excludes that form") and the call site forge_opc (which encodes the value with check_imm_size):
         every returned form keeps every key of a except 'imm', which is dropped (only when the value is 0) or replaced by u08 / s08 / u32;
         s08 only if the value, read as a signed 32-bit number, lies in -128..127;  u08 only if it lies in 0..255 (or, for a memory operand
         without displacement, as the placeholder the table lookup needs);  for a memory operand the u32 form is always present and, when the
         signed value lies in -128..127, so is the s08 form (otherwise the disp8 encoding would be lost: converse direction of C03)."""
    import contracts.modint as cm
    from pyvc.contract import Contract
    from specs.duck import And, Or, Not, Implies, is_sym
    C = dict(cm.CONTRACTS)
    A = 'miasmx.arch.ia32_arch'
    C['%s:imm_to_generic' % A] = Contract('%s:imm_to_generic' % A, inline=True)
    for m in ('__lt__', '__ge__', '__le__', '__gt__'):
        C['miasmx.tools.modint:moduint.%s' % m] = Contract('miasmx.tools.modint:moduint.%s' % m, inline=True)
    def post(ctx, res, a):
        if not isinstance(res, list): return False
        if not res and a.get('ad'): return False          # a memory operand always has its disp32 form; a plain immediate may fit no byte form
        I = a.get('imm')
        J = None
        if I is not None:
            J = ((I + (1 << 31)) % (1 << 32)) - (1 << 31)
        cl = []
        tags = []
        for o in res:
            if not isinstance(o, dict): return False
            ko = set(k for k in o if k != 'imm'); ka = set(k for k in a if k != 'imm')
            if ko != ka: return False
            for k in ka:
                if k == 'ad':
                    if bool(o[k]) != bool(a[k]): return False
                elif o[k] is not a[k] and o[k] != a[k]: return False
            if 'imm' in o:
                t = o['imm']
                if t not in ('u08', 's08', 'u32'): return False
                tags.append(t)
                if I is not None:
                    if t == 's08': cl.append(And(J >= -128, J < 128))
                    if t == 'u08': cl.append(And(I >= 0, I <= 255))
            else:
                tags.append(None)
                if I is not None: cl.append(I == 0)
        if a.get('ad'):
            if 'u32' not in tags: return False
            if I is not None:
                # completeness of the short form (a dropped disp8 candidate is the C03-1 class of defect)
                cl.append(Implies(And(J >= -128, J < 128), 's08' in tags))
        return And(*cl) if cl else True
    qn = '%s:ad_to_generic' % A
    return qn, Contract(qn, pre=lambda ctx, a: True, post=post, frame=['a.ad']), C

def ob_ad(run):
    import z3
    from pyvc import engine
    from pyvc.runner import resolve
    qn, top, C = ad_contract()
    mod, node, seg, path = resolve(qn)
    run.function(qn, seg, path, node.lineno)
    shapes = []
    for ad in (False, 'u32', 'u08', True):
        for regs in ({}, {0: 1}, {3: 1, 6: 2}):
            for imm in (None, 'sym'):
                for txt in (False, True):
                    if not ad and (regs or imm is None): continue       # plain immediates only
                    shapes.append((ad, regs, imm, txt))
    n = 0
    for (ad, regs, imm, txt) in shapes:
        def make_args(ctx, ad=ad, regs=regs, imm=imm, txt=txt):
            ins = {}
            a = {'ad': ad, 'size': 'u32'}
            a.update(regs)
            if imm:
                v = z3.Int('imm'); ins['imm'] = v; a['imm'] = v
            if txt: a['txt'] = 'ebx+esi*2'
            return [a], ins
        base = 'C02:ad_to_generic[ad=%s,regs=%s,%s%s]' % (ad, '+'.join('%d*%d' % kv for kv in sorted(regs.items())) or '-', 'imm' if imm else 'noimm', ',txt' if txt else '')
        V = engine.verify_function(qn, node, vars(mod), top, C, make_args)
        if V.unsupported:
            run.ob(base + ':generate', DOWNGRADED, 'SMT-A', 'pyvc', detail=V.unsupported); continue
        for cl, d in sorted(V.clauses.items()):
            n += 1
            oid = base + ':' + cl
            if d['status'] == 'unsat':
                run.ob(oid, DISCHARGED, 'SMT-A', 'z3', d['secs'], func=qn)
            elif d['status'] == 'sat':
                w = d['witness'] or {}
                try: I = int(w.get('imm', 0))
                except Exception: I = 0
                msg = native_ad(ad, regs, I if imm else None, txt)
                if msg is None:
                    run.ob(oid, DOWNGRADED, 'SMT-A', 'z3', d['secs'], detail='counter-model %s does not replay on the real function; bounded twin below' % w)
                else:
                    data = {'fn': 'ad', 'ad': ad, 'regs': sorted(regs.items()), 'I': I if imm else None, 'txt': txt}
                    rp = run.write_replay(oid, {'obligation': oid, 'inputs': w}, REPLAY % dict(verif=common.VERIF, repo=common.REPO, data=data))
                    run.ob(oid, FAILED, 'SMT-A', 'z3', d['secs'], detail='%s; counterexample %s; native: %s' % (d['detail'], w, msg), witness=rp, confirmed=True, func=qn)
            else:
                run.ob(oid, DOWNGRADED, 'SMT-A', 'z3', d['secs'], detail='solver unknown')
    # twin
    cnt = bad = 0
    for (ad, regs, imm, txt) in shapes:
        for I in ([None] if not imm else [-(1 << 31), -129, -128, -127, -1, 0, 1, 127, 128, 255, 256, (1 << 31) - 1, 1 << 31, (1 << 32) - 129, (1 << 32) - 128, (1 << 32) - 1]):
            cnt += 1
            msg = native_ad(ad, regs, I, txt)
            if msg:
                bad += 1
                oid = 'C02:ad_to_generic[ad=%s,regs=%s,%s%s]:twin' % (ad, '+'.join('%d*%d' % kv for kv in sorted(regs.items())) or '-', 'imm' if imm else 'noimm', ',txt' if txt else '')
                rp = run.write_replay(oid, {'obligation': oid}, REPLAY % dict(verif=common.VERIF, repo=common.REPO, data={'fn': 'ad', 'ad': ad, 'regs': sorted(regs.items()), 'I': I, 'txt': txt}))
                run.ob(oid, FAILED, 'BND', 'cpython-enum', detail=msg, witness=rp, confirmed=True, func=qn)
                break
    run.bulk('ad_to_generic on boundary displacements (native twin)', cnt - bad, 'BND', 'cpython-enum', 0.0, BOUNDED_OK)
    return n

def native_ad(ad, regs, I, txt):
    import miasmx.arch.ia32_arch as A
    a = {'ad': ad, 'size': 'u32'}
    a.update(dict(regs))
    if I is not None: a['imm'] = I
    if txt: a['txt'] = 'ebx+esi*2'
    a0 = dict(a)
    try:
        res = A.ad_to_generic(a)
    except Exception as ex:
        return 'ad_to_generic(%s) raised %s: %s' % (a0, type(ex).__name__, ex)
    J = None if I is None else ((I + (1 << 31)) % (1 << 32)) - (1 << 31)
    tags = []
    for o in res:
        if set(k for k in o if k != 'imm') != set(k for k in a0 if k != 'imm'): return 'ad_to_generic(%s): form %s loses or gains a key' % (a0, o)
        t = o.get('imm', None)
        tags.append(t)
        if 'imm' in o:
            if t not in ('u08', 's08', 'u32'): return 'ad_to_generic(%s): form %s keeps a raw immediate' % (a0, o)
            if I is not None and t == 's08' and not -128 <= J < 128: return 'ad_to_generic(%s) offers the disp8 form for %d' % (a0, J)
            if I is not None and t == 'u08' and not 0 <= I <= 255: return 'ad_to_generic(%s) offers the unsigned byte form for %d' % (a0, I)
        elif I is not None and I != 0: return 'ad_to_generic(%s) drops the non-zero displacement' % (a0,)
    if ad:
        if 'u32' not in tags: return 'ad_to_generic(%s): no 32-bit form' % (a0,)
        if I is not None and -128 <= J < 128 and 's08' not in tags: return 'ad_to_generic(%s): the disp8 form is missing for %d' % (a0, J)
    return None
