"""Shared driver of the assembler-family checks C02, C03, C09, C19 (bounded run-time contracts on asm/asm_att/dis/__str__ over
generated abstract instructions; reference = spec decoder specs/x86dec.py; GNU as executed as an external function)."""
import sys, os, time, random, itertools, multiprocessing, traceback, binascii, collections, io, contextlib, re
from vlib import common
from vlib.common import Run, DISCHARGED, FAILED, BOUNDED_OK, UNDECIDED, DOWNGRADED, ENGINE_ERR, Ob

REPLAY = '''
import sys, os
sys.path.insert(0, %(verif)r); sys.path.insert(0, %(repo)r)
sys.dont_write_bytecode = True
from checks import asmfam
sys.exit(asmfam.replay(%(prop)r, %(item)r, %(clause)r))
'''

def quiet():
    from bounded import x86enum
    x86enum.quiet()

def safe_asm(line, att=False):
    """(candidates list | None if rejected with ValueError, crash class | None)"""
    from miasmx.arch.ia32_arch import x86mnemo
    try:
        with contextlib.redirect_stdout(io.StringIO()), contextlib.redirect_stderr(io.StringIO()):
            r = x86mnemo.asm_att(line) if att else x86mnemo.asm(line)
        return [bytes(x) if not isinstance(x, bytes) else x for x in r], None
    except ValueError:
        return None, None
    except Exception as ex:
        return None, '%s' % type(ex).__name__

def opsig(A):
    out = []
    for o in A['ops']:
        if o[0] == 'reg': out.append('r%d' % o[2])
        elif o[0] == 'mem': out.append('m%s' % (o[6] or ''))
        elif o[0] == 'imm': out.append('i%d' % o[2])
        else: out.append(o[0])
    p = ''.join('%02x' % x for x in A['prefixes'])
    return (p + ':' if p else '') + ','.join(out)

def imm_variants(A):
    """A with its immediate operand replaced by the property's boundary values (those representable at the operand's width)"""
    from bounded import asmgen
    out = [A]
    for k, o in enumerate(A['ops']):
        if o[0] == 'imm' and o[2] in (8, 16, 32) and A['mnem'] not in ('enter', 'int', 'rol', 'ror', 'rcl', 'rcr', 'shl', 'shr', 'sal', 'sar', 'shld', 'shrd', 'in', 'out', 'ret', 'retf', 'aam', 'aad', 'bt', 'bts', 'btr', 'btc'):
            w = o[2]
            for v in asmgen.IMM_BOUNDARY:
                if -(1 << (w - 1)) <= v < (1 << w):
                    B = dict(A)
                    B['ops'] = list(A['ops'])
                    B['ops'][k] = ('imm', v & ((1 << w) - 1), w)
                    out.append(B)
            break
    return out

DISP_BOUNDARY = [-129, -128, -127, 127, 128]
def disp_variants(A):
    """A with the displacement of its register-based memory operand replaced by the signed-8-bit boundary values"""
    out = []
    for k, o in enumerate(A['ops']):
        if o[0] == 'mem' and (o[1] is not None or o[2] is not None) and o[7] == 32:
            for v in DISP_BOUNDARY:
                if (o[4] & 0xffffffff) == (v & 0xffffffff): continue
                B = dict(A)
                B['ops'] = list(A['ops'])
                B['ops'][k] = o[:4] + (v & 0xffffffff,) + o[5:]
                out.append(B)
            break
    return out

def variants(A):
    """A, its immediate boundary variants and its displacement boundary variants"""
    return imm_variants(A) + disp_variants(A)

# ------------------------------------------------------------------------------------------------ per-item checks
def check_C02(b, A):
    """every candidate of asm(line)/asm_att(line) is an encoding of exactly the requested instruction"""
    from bounded import asmgen
    from specs import x86dec
    res = []
    variants = [(V, att, None) for V in globals()['variants'](A) for att in (False, True)]
    if A['mnem'] in ('fadd', 'fmul', 'fsub', 'fsubr', 'fdiv', 'fdivr') and [o[0] for o in A['ops']] == ['st', 'st'] and A['ops'][0][1] == 0:
        # one-operand spelling of the x87 arithmetic register form: "fadd st(i)" denotes "fadd st, st(i)"
        variants.append((A, False, '%s st(%d)' % (A['mnem'], A['ops'][1][1])))
    # every spelling the assembler may be given for the same instruction is an accepted line in its own right: the AT&T variants GNU as
    # accepts, the presentation rewrites of C19 (term order, split displacement, number base ...), the condition-code aliases
    try:
        for t in asmgen.render_att_variants(A)[1:]:
            variants.append((A, True, t))
    except asmgen.Unprintable:
        pass
    try:
        base, vs = spellings(A)
        for (tag, txt, att) in vs:
            if tag in ('index-first', 'disp-first', 'disp-outside', 'disp-middle', 'split-disp', 'split-disp-lead', 'scale-first', 'hex', 'hex-upper', 'signed'):
                variants.append((A, att, txt))
    except asmgen.Unprintable:
        pass
    for alias in cc_aliases(A['mnem']):
        V = dict(A); V['mnem'] = alias
        try:
            variants.append((A, False, asmgen.render_intel(V, {'signed': False})))
            for t in asmgen.render_att_variants(V):
                variants.append((A, True, t))
        except asmgen.Unprintable:
            pass
    seen_lines = set()
    for (V, att, forced) in variants:
        if True:
            try:
                line = forced if forced is not None else (asmgen.render_att(V) if att else asmgen.render_intel(V, {'signed': False}))
            except asmgen.Unprintable:
                continue
            if (att, line) in seen_lines: continue
            seen_lines.add((att, line))
            cands, crash = safe_asm(line, att)
            if cands is None:
                continue
            for c in cands:
                B = x86dec.decode(c)
                tag = 'att' if att else 'intel'
                if B is None:
                    res.append((tag + '-undecodable', line, 'candidate %s of %r is not an IA-32 instruction of the covered maps' % (c.hex(), line)))
                elif B['length'] != len(c):
                    res.append((tag + '-length', line, 'candidate %s of %r decodes with length %d' % (c.hex(), line, B['length'])))
                elif not asmgen.same_instruction(V, B):
                    res.append((tag + '-meaning', line, 'candidate %s of %r is %s' % (c.hex(), line, describe(B))))
    return res

CC_ALIASES = [('o',), ('no',), ('b', 'c', 'nae'), ('ae', 'nb', 'nc'), ('e', 'z'), ('ne', 'nz'), ('be', 'na'), ('a', 'nbe'), ('s',), ('ns',), ('p', 'pe'), ('np', 'po'),
              ('l', 'nge'), ('ge', 'nl'), ('le', 'ng'), ('g', 'nle')]
def cc_aliases(mnem):
    """the other architectural spellings of a conditional mnemonic (jz = je, setpe = setp, cmovnae = cmovb ...)"""
    for stem in ('cmov', 'set', 'j'):
        if mnem.startswith(stem) and mnem not in ('jmp', 'jmpf', 'jecxz', 'jcxz'):
            cc = mnem[len(stem):]
            for grp in CC_ALIASES:
                if cc in grp:
                    return [stem + x for x in grp if x != cc]
    return []

def describe(B):
    from bounded import asmgen
    try:
        return asmgen.render_intel(B)
    except Exception:
        return '%s %s' % (B['mnem'], B['ops'])

def check_C03(b, A, gas_canonical):
    from bounded import asmgen
    from miasmx.arch.ia32_arch import x86mnemo
    res = []
    try:
        line = asmgen.render_intel(A)
    except asmgen.Unprintable:
        return res
    cands, crash = safe_asm(line)
    for c in (cands or []):
        try:
            ins = x86mnemo.dis(c)
        except Exception as ex:
            res.append(('redecode', line, 'dis(%s) raised %s' % (c.hex(), type(ex).__name__))); continue
        if ins is None:
            res.append(('redecode', line, 'candidate %s of %r is rejected by the disassembler' % (c.hex(), line))); continue
        if ins.l != len(c):
            res.append(('relength', line, 'candidate %s of %r: disassembler consumes %d bytes' % (c.hex(), line, ins.l))); continue
        try:
            t = str(ins).strip()
        except Exception as ex:
            res.append(('rerender', line, 'rendering of candidate %s raised %s' % (c.hex(), type(ex).__name__))); continue
        c2, crash2 = safe_asm(t)
        if c2 is None or c not in c2:
            res.append(('fixpoint', line, 'candidate %s of %r renders as %r, which assembles to %s' % (c.hex(), line, t, [x.hex() for x in (c2 or [])][:4] if c2 is not None else 'an error')))
    if gas_canonical:
        try:
            ins = x86mnemo.dis(b)
            t = str(ins).strip() if ins is not None else None
        except Exception:
            ins = t = None
        if ins is not None and ins.l == len(b) and t:
            c2, crash2 = safe_asm(t)
            if c2 is None or b not in c2:
                res.append(('canonical', line, 'canonical encoding %s renders as %r, which assembles to %s' % (b.hex(), t, [x.hex() for x in (c2 or [])][:4] if c2 is not None else 'an error')))
    return res

def check_C09_local(b, A):
    """both renderings of dis(b), fed back to the matching miasmX parser, contain b"""
    from miasmx.arch.ia32_arch import x86mnemo
    res = []
    try:
        ins = x86mnemo.dis(b)
    except Exception:
        return res, None, None, None
    if ins is None or ins.l != len(b):
        return res, None, None, None
    ti = ta = to = None
    try:
        ti = str(ins).strip()
    except Exception:
        pass
    try:
        ta = ins.__str__('att_syntax binutils').strip()
    except Exception:
        pass
    key = '%s %s' % (A['mnem'], opsig(A))
    # a rendering is a function of the instruction: asking again (in either order of the syntaxes) gives the same text
    try:
        ti2 = str(ins).strip(); ta2 = ins.__str__('att_syntax binutils').strip() if ta is not None else None
        if (ti is not None and ti2 != ti) or (ta is not None and ta2 != ta):
            res.append(('render-repeat', key, '%s renders as %r / %r first and as %r / %r when asked again' % (b.hex(), ti, ta, ti2, ta2)))
    except Exception:
        pass
    if ti is not None:
        c, _ = safe_asm(ti)
        if c is None or b not in c:
            res.append(('intel-parse', key, '%s renders (Intel) as %r, which assembles to %s' % (b.hex(), ti, [x.hex() for x in (c or [])][:4] if c is not None else 'an error')))
    if ta is not None:
        c, _ = safe_asm(ta, True)
        if c is None or b not in c:
            res.append(('att-parse', key, '%s renders (AT&T) as %r, which assembles to %s' % (b.hex(), ta, [x.hex() for x in (c or [])][:4] if c is not None else 'an error')))
        # the 'objdump' immediate-format variant of the AT&T rendering (hexadecimal numbers, suffix only where needed)
        try:
            to = ins.__str__('att_syntax objdump').strip()
        except Exception:
            to = None
        # asm_att has no size inference from registers (documented TODO): the objdump format is fed back to it only when it keeps the
        # mnemonic of the binutils format; GNU as gets every objdump-format line (driver)
        mnem = lambda t: re.match(r'^((?:lock |repn?[ze]? |rep |notrack )*)(\S+)', t).group(2)
        if to is not None and to != ta and mnem(to) == mnem(ta):
            c2, _ = safe_asm(to, True)
            if (c2 is None or b not in c2) and not (c is None or b not in c):
                res.append(('att-objdump-parse', key, '%s renders (AT&T, objdump format) as %r, which assembles to %s although the binutils format %r assembles back' % (b.hex(), to, [x.hex() for x in (c2 or [])][:4] if c2 is not None else 'an error', ta)))
    return res, ti, ta, to if ta is not None else None

def spellings(A):
    """presentation-only rewrites of the Intel line of A: list of (tag, text, att?)"""
    from bounded import asmgen
    out = []
    def add(tag, fn, att=False):
        try:
            out.append((tag, fn(), att))
        except asmgen.Unprintable:
            pass
    base = asmgen.render_intel(A)
    add('upper-regs', lambda: re.sub(r'\b(e?[abcd]x|e?[sd]i|e?[sb]p|[abcd][lh]|[cdefgs]s|st)\b', lambda m: m.group(1).upper(), base))
    add('lower-ptr', lambda: asmgen.render_intel(A, {'lower_ptr': True}))
    add('spaces', lambda: re.sub(r',\s*', ' ,   ', base).replace('[', '[ ').replace(']', ' ]').replace('+', ' + ') + '  ')
    add('tabs', lambda: base.replace(' ', '\t', 1))
    add('hex', lambda: asmgen.render_intel(A, {'hex': True}))
    add('signed', lambda: asmgen.render_intel(A, {'signed': True}))
    add('hex-upper', lambda: re.sub(r'\b0x([0-9A-Fa-f]+)\b', lambda m: '0X' + m.group(1), asmgen.render_intel(A, {'hex': True})))
    if any(o[0] == 'mem' and o[1] is not None and o[2] is not None and o[1] != o[2] for o in A['ops']):
        add('index-first', lambda: asmgen.render_intel(A, {'order': 'index_first'}))
    if any(o[0] == 'mem' and (o[1] is not None or o[2] is not None) and 0 < (o[4] & 0xffffffff) < 0x80000000 for o in A['ops']):
        add('disp-first', lambda: asmgen.render_intel(A, {'order': 'disp_first'}))
    if any(o[0] == 'mem' and (o[1] is not None or o[2] is not None) and (o[4] & 0xffffffff) for o in A['ops']):
        add('disp-outside', lambda: asmgen.render_intel(A, {'disp_outside': True}))
        add('disp-middle', lambda: asmgen.render_intel(A, {'order': 'disp_middle'}))
    if any(o[0] == 'mem' and (o[1] is not None or o[2] is not None) and o[7] == 32 for o in A['ops']):
        add('split-disp', lambda: asmgen.render_intel(A, {'order': 'split_disp'}))
        add('split-disp-lead', lambda: asmgen.render_intel(A, {'order': 'split_disp', 'lead': True}))
    if any(o[0] == 'mem' and o[2] is not None and o[3] != 1 for o in A['ops']):
        add('scale-first', lambda: asmgen.render_intel(A, {'order': 'scale_first'}))
    if any(o[0] == 'st' for o in A['ops']):
        add('st0', lambda: asmgen.render_intel(A, {'st0': True}))
    return base, out

def check_C19(b, A):
    from bounded import asmgen
    res = []
    try:
        base, vs = spellings(A)
    except asmgen.Unprintable:
        return res
    c0, crash = safe_asm(base)
    if c0 is None:
        return res
    s0 = set(c0)
    def differ(tag, txt, c):
        only0 = sorted(x.hex() for x in s0 - set(c)); only1 = sorted(x.hex() for x in set(c) - s0)
        res.append((tag + '-differs', A['mnem'], '%r and %r assemble to different sets: only the first gives %s, only the second gives %s (%d common)'
                    % (base, txt, only0[:4], only1[:4], len(s0 & set(c)))))
    for (tag, txt, att) in vs:
        if txt == base and not att: continue
        c, crash = safe_asm(txt, att)
        if c is None:
            res.append((tag + '-rejected', A['mnem'], '%r assembles but its spelling %r is rejected' % (base, txt)))
        elif set(c) != s0:
            differ(tag, txt, c)
    # Intel <-> AT&T: the transliterations GNU as accepts (suffix written or implied by a register, AT&T or Intel mnemonic): at least one is
    # accepted, and every accepted one gives the same set
    try:
        atts = asmgen.render_att_variants(A)
    except asmgen.Unprintable:
        atts = []
    got = [(t, safe_asm(t, True)[0]) for t in atts]
    if atts and all(c is None for (_, c) in got):
        res.append(('att-rejected', A['mnem'], '%r assembles but its AT&T transliteration%s %s rejected' % (base, 's' if len(atts) > 1 else '', ' / '.join(repr(t) for t in atts) + (' are' if len(atts) > 1 else ' is'))))
    for (t, c) in got:
        if c is not None and set(c) != s0:
            differ('att', t, c)
            break
    # the base of a number is presentation in AT&T syntax too: $16 = $0x10 = $0X10, 8(%ebx) = 0x8(%ebx) = 0X8(%ebx)
    for (t, c) in got:
        if c is None or set(c) != s0: continue
        t_up = re.sub(r'%([a-z][a-z0-9]*)', lambda m: '%' + m.group(1).upper(), t)
        if t_up != t:
            c2, crash = safe_asm(t_up, True)
            if c2 is None:
                res.append(('att-upper-regs-rejected', A['mnem'], '%r assembles but its spelling %r is rejected%s' % (t, t_up, (' (%s)' % crash) if crash else '')))
            elif set(c2) != s0:
                differ('att-upper-regs', t_up, c2)
        for tag, pre in (('att-hex', '0x'), ('att-hex-upper', '0X')):
            hx = lambda m: m.group(1) + m.group(2) + pre + '%X' % int(m.group(3))
            t2 = re.sub(r'(\$)(-?)(\d+)\b', hx, t)
            t2 = re.sub(r'((?<![\w%$.]))(-?)(\d+)(?=\()', hx, t2)
            if t2 == t: continue
            c2, crash = safe_asm(t2, True)
            if c2 is None:
                res.append((tag + '-rejected', A['mnem'], '%r assembles but its spelling %r is rejected' % (t, t2)))
            elif set(c2) != s0:
                differ(tag, t2, c2)
        break
    return res

# ------------------------------------------------------------------------------------------------ driver
def _work(job):
    prop, idx, nparts, tier, seed = job
    common.use_repo()
    quiet()
    from bounded import asmgen
    from specs import x86dec
    out = {'n': 0, 'groups': {}, 'ok': 0, 'gas_lines': 0, 'gas_rejected': 0}
    items = list(asmgen.corpus(tier, seed, shard=(idx, nparts)))
    canonical = {}
    gas_i = gas_a = None
    if prop in ('C03', 'C09'):
        # the reference assembler (GNU as, executed) says which byte strings are canonical, and supplies the canonical bytes of the
        # boundary variants (immediates, displacements) of every abstract instruction
        lines, owners = [], []
        for b, A in items:
            try: lines.append(asmgen.render_intel(A))
            except asmgen.Unprintable: lines.append('.error')
            owners.append((b, A))
        for b, A in list(items):
            for V in variants(A)[1:]:
                try: lines.append(asmgen.render_intel(V))
                except asmgen.Unprintable: continue
                owners.append((None, V))
        enc = asmgen.gnu_as(lines, 'intel')
        seen_b = set(b for b, _ in items)
        for (b, A), e in zip(owners, enc):
            if b is not None:
                canonical[b] = (e == b)
            elif e is not None and e not in seen_b:
                A2 = x86dec.decode(e)
                if A2 is not None and A2['length'] == len(e) and asmgen.same_instruction(A, A2):
                    seen_b.add(e)
                    items.append((e, A2))
                    canonical[e] = True
    def fail(clause, key, wit, msg):
        g = out['groups'].setdefault((clause, key), [0, wit, msg])
        g[0] += 1
    pend_i, pend_a, pend_o = [], [], []
    for b, A in items:
        out['n'] += 1
        key = '%s %s' % (A['mnem'], opsig(A))
        try:
            if prop == 'C02': r = check_C02(b, A)
            elif prop == 'C03': r = check_C03(b, A, canonical.get(b, False))
            elif prop == 'C19': r = check_C19(b, A)
            else:
                r, ti, ta, to = check_C09_local(b, A)
                plain = not any(o[0] in ('rel', 'far') or (o[0] == 'mem' and o[1] is None and o[2] is None) for o in A['ops'])
                if plain and canonical.get(b, False):
                    if ti is not None: pend_i.append((b, A, ti))
                    if ta is not None: pend_a.append((b, A, ta))
                    if to is not None and to != ta: pend_o.append((b, A, to))
        except Exception:
            r = [('checker-crash', 'crash', traceback.format_exc()[-300:])]
        if not r: out['ok'] += 1
        for (clause, k2, msg) in r:
            fail(clause, key if prop != 'C09' else k2, {'bytes': b.hex(), 'A': A}, msg)
    if prop in ('C19', 'C02'):
        # x87 register forms: the AT&T spelling has historical quirks (operand order, fsub/fsubr and fdiv/fdivr exchanged for some forms),
        # so the reference assembler decides which AT&T lines are transliterations: those GNU as assembles to the same bytes as the Intel line
        x87 = []
        for b, A in items:
            if A['mnem'].startswith('f') and A['ops'] and all(o[0] == 'st' for o in A['ops']) and not A.get('rep') and not A['prefixes']:
                try: li = asmgen.render_intel(A)
                except asmgen.Unprintable: continue
                m = A['mnem']
                sw = {'fsub': 'fsubr', 'fsubr': 'fsub', 'fdiv': 'fdivr', 'fdivr': 'fdiv', 'fsubp': 'fsubrp', 'fsubrp': 'fsubp', 'fdivp': 'fdivrp', 'fdivrp': 'fdivp'}.get(m)
                ops = ['%%st(%d)' % o[1] for o in A['ops']]
                cands = []
                for mm in ([m] + ([sw] if sw else [])):
                    cands.append('%s %s' % (mm, ', '.join(reversed(ops))))
                    cands.append(('%s %s' % (mm, ', '.join(reversed(ops)))).replace('%st(0)', '%st'))
                    if len(ops) == 2:
                        # one-operand spellings (the other operand is st): "fsubp %st(1)", "fadd %st(2)"
                        cands.append('%s %s' % (mm, ops[0])); cands.append('%s %s' % (mm, ops[1]))
                        if ops[0] == ops[1] == '%st(0)': cands.append('%s %%st' % mm)
                x87.append((b, A, li, sorted(set(cands))))
            elif A['mnem'] in ('fnstsw', 'fstsw') and len(A['ops']) == 1 and A['ops'][0][0] == 'reg' and not A['prefixes']:
                # status word to ax: the register operand may be written or left out
                try: li = asmgen.render_intel(A)
                except asmgen.Unprintable: continue
                x87.append((b, A, li, ['%s %%ax' % A['mnem'], '%s %%AX' % A['mnem'], A['mnem']]))
        gi = asmgen.gnu_as([x[2] for x in x87], 'intel')
        flat = [(k, t) for k, x in enumerate(x87) for t in x[3]]
        ga = asmgen.gnu_as([t for _, t in flat], 'att')
        for (k, t), e in zip(flat, ga):
            b, A, li, _ = x87[k]
            if e is None or gi[k] is None or e != gi[k]: continue           # not a transliteration according to GNU as
            out['gas_lines'] += 1
            c0, _ = safe_asm(li)
            c1, _ = safe_asm(t, True)
            key = '%s %s' % (A['mnem'], opsig(A))
            if prop == 'C02':
                # every candidate of an AT&T line that GNU as reads as this instruction must BE this instruction
                for c in (c1 or []):
                    B = x86dec.decode(c)
                    if B is None or B['length'] != len(c) or not asmgen.same_instruction(A, B):
                        fail('x87-att-meaning', key, {'bytes': b.hex(), 'A': A, 'text': t}, 'candidate %s of %r is %s; GNU as reads the line as %s (%s)' % (c.hex(), t, describe(B) if B else 'no instruction', e.hex(), li))
                continue
            if c0 is None: continue
            if c1 is None:
                fail('x87-att-rejected', key, {'bytes': b.hex(), 'A': A, 'text': t}, '%r assembles but its AT&T transliteration %r (GNU as gives %s for both) is rejected' % (li, t, e.hex()))
            elif set(c1) != set(c0):
                fail('x87-att-differs', key, {'bytes': b.hex(), 'A': A, 'text': t}, '%r -> %s but its AT&T transliteration %r -> %s (GNU as gives %s for both)' % (li, sorted(x.hex() for x in c0)[:3], t, sorted(x.hex() for x in c1)[:3], e.hex()))
    if prop == 'C09':
        # external function: the real GNU as, both syntax modes, one invocation per batch
        for pend, syn in ((pend_i, 'intel'), (pend_a, 'att'), (pend_o, 'att-objdump')):
            enc = asmgen.gnu_as([t for (_, _, t) in pend], 'att' if syn.startswith('att') else syn)
            out['gas_lines'] += len(pend)
            for (b, A, t), e in zip(pend, enc):
                if e is None:
                    out['gas_rejected'] += 1
                    fail('gas-%s-rejects' % syn, '%s %s' % (A['mnem'], opsig(A)), {'bytes': b.hex(), 'A': A, 'text': t}, 'GNU as (%s mode) rejects %r, the rendering of %s' % (syn, t, b.hex()))
                else:
                    B = x86dec.decode(e)
                    if B is None or not asmgen.same_instruction(A, B):
                        fail('gas-%s-differs' % syn, '%s %s' % (A['mnem'], opsig(A)), {'bytes': b.hex(), 'A': A, 'text': t}, 'GNU as (%s mode) assembles %r to %s, not an encoding of %s' % (syn, t, e.hex(), b.hex()))
    return out

def replay(prop, item, clause):
    quiet()
    from bounded import asmgen
    b = binascii.unhexlify(item['bytes'])
    A = item['A']
    A['ops'] = [tuple(o) for o in A['ops']]
    if prop == 'C02' and clause.startswith('x87-att'):
        from specs import x86dec
        t = item['text']
        ga = asmgen.gnu_as([t], 'att')[0]
        c1, _ = safe_asm(t, True)
        print('AT&T %r: GNU as %s, miasmX %s' % (t, ga and ga.hex(), [x.hex() for x in (c1 or [])]))
        bad = 0
        for c in (c1 or []):
            B = x86dec.decode(c)
            if B is None or B['length'] != len(c) or not asmgen.same_instruction(A, B):
                print('candidate %s is %s, not %s' % (c.hex(), describe(B) if B else None, describe(A))); bad = 1
        return bad
    if prop == 'C02': r = check_C02(b, A)
    elif prop == 'C03':
        try:
            canon = asmgen.gnu_as([asmgen.render_intel(A)], 'intel')[0] == b
        except Exception:
            canon = False
        r = check_C03(b, A, canon)
    elif prop == 'C19':
        if clause.startswith('x87-att'):
            li, t = asmgen.render_intel(A), item['text']
            gi, ga = asmgen.gnu_as([li], 'intel')[0], asmgen.gnu_as([t], 'att')[0]
            c0, _ = safe_asm(li); c1, _ = safe_asm(t, True)
            print('Intel %r: GNU as %s, miasmX %s' % (li, gi and gi.hex(), [x.hex() for x in (c0 or [])]))
            print('AT&T  %r: GNU as %s, miasmX %s' % (t, ga and ga.hex(), [x.hex() for x in (c1 or [])] if c1 is not None else 'rejected'))
            if gi is None or gi != ga or c0 is None: return 0
            return 1 if (c1 is None or set(c1) != set(c0)) else 0
        r = check_C19(b, A)
    else:
        r, ti, ta, to = check_C09_local(b, A)
        if clause.startswith('gas-'):
            syn = 'intel' if 'intel' in clause else 'att'
            t = ti if syn == 'intel' else (to if 'objdump' in clause else ta)
            e = asmgen.gnu_as([t], syn)[0]
            print('GNU as (%s): %r -> %s' % (syn, t, e.hex() if e else None))
            from specs import x86dec
            B = x86dec.decode(e) if e else None
            ok = e is not None and B is not None and asmgen.same_instruction(A, B)
            return 0 if ok else 1
    for x in r: print(x)
    return 1 if any(x[0] == clause for x in r) else 0

def run_family(prop, argv, level, rule, explanation, trust, assume, extra=None):
    tier, seed, rest = common.parse_args(argv)
    common.use_repo()
    run = Run(prop, tier, seed, level, 'cd /verif && ./vcheck %s --tier %s' % (prop, tier))
    nparts = 64
    with multiprocessing.get_context('fork').Pool(min(16, os.cpu_count() or 4)) as pool:
        results = pool.map(_work, [(prop, i, nparts, tier, seed) for i in range(nparts)], chunksize=1)
    groups = {}
    for r in results:
        for k, g in r['groups'].items():
            G = groups.setdefault(k, [0, g[1], g[2]])
            G[0] += g[0]
            if len(g[1]['bytes']) < len(G[1]['bytes']): G[1], G[2] = g[1], g[2]
    n = sum(r['n'] for r in results)
    run.bulk('abstract instructions for which every clause held', sum(r['ok'] for r in results), 'BND', 'cpython-enum', 0.0, BOUNDED_OK)
    for (clause, key), (cnt, wit, msg) in sorted(groups.items()):
        oid = '%s:%s[%s]' % (prop, clause, key)
        script = REPLAY % dict(verif=common.VERIF, repo=common.REPO, prop=prop, item=wit, clause=clause)
        rp = run.write_replay(oid, {'obligation': oid, 'detail': msg}, script)
        run.ob(oid, FAILED if clause != 'checker-crash' else ENGINE_ERR, 'BND', 'cpython-enum' if not clause.startswith('gas') else 'gnu-as', detail='%d cases, e.g. %s' % (cnt, msg), witness=rp, confirmed=True, func=clause)
    run.evaluations = n
    run.distinct = n
    run.extra['abstract_instructions'] = n
    run.extra['gnu_as_lines'] = sum(r['gas_lines'] for r in results)
    run.rule, run.explanation = rule, explanation
    for t in trust: run.trust(t)
    for a in assume: run.assume(a)
    run.samples = ['%s:%s (%d)' % (k[0], k[1], v[0]) for k, v in list(sorted(groups.items()))[:5]] or ['all clauses held']
    if extra is not None:
        extra(run)
    return run.finish()
