"""Structural-induction steps over the IR node classes (expression.py), decided by Engine A (pyvc) on the real method bodies.

A law of the form "for every expression tree e: P(e)" is split into one *inductive step* per node class K: the real method body of K is executed
symbolically on a node whose children are opaque symbolic objects; every call of the same method on a child is answered by the induction
hypothesis (a sidecar contract that returns an opaque token/term standing for "the result that P promises for this child"), and the postcondition
is P for the node itself, stated over those tokens.  The base cases (ExprInt, ExprId) have no children.  Depth is therefore unbounded; what is
enumerated is the class of each child (only `isinstance` tests can observe it; the tests found in the verified bodies are listed in the evidence)
and, for ExprOp / ExprCompose, the arity 0..4 (1..4 for compose).

What this module assumes and does not prove: the induction principle itself (finite trees: Python object graphs built by the constructors are
finite and acyclic because fields are assigned once, in __init__), and that `den` of a node is a function of the fields listed in FIELDS (that is
how `liftvc.den` is defined).
"""
import sys, os
from pyvc.contract import Contract, SObj

CHILD_CLASSES = ('ExprInt', 'ExprId', 'ExprCond', 'ExprMem', 'ExprOp', 'ExprSlice', 'ExprCompose')
MOD = 'miasmx.expression.expression'

# per class: (expression-valued fields, scalar fields that take part in the value)
FIELDS = {
    'ExprInt': ((), ('arg',)),
    'ExprId': ((), ('name', 'size', 'is_reg')),
    'ExprAff': (('dst', 'src'), ()),
    'ExprCond': (('cond', 'src1', 'src2'), ()),
    'ExprMem': (('arg', 'segm'), ('size',)),
    'ExprOp': (('args*',), ('op',)),
    'ExprSlice': (('arg',), ('start', 'stop')),
    'ExprCompose': (('args*3',), ()),
}

def E():
    import miasmx.expression.expression as X
    return X

def klass(name):
    return getattr(E(), name)

def child(name, tag, extra=None):
    """an opaque symbolic node of class `name`: no field is readable (the verified body may only use its methods)"""
    o = SObj(klass(name), dict(extra or {}), fresh=False)
    object.__setattr__(o, 'tag', tag)
    return o

def vectors(n, with_aff=False):
    """class vectors for n child positions: every class in every position (rotations), not the full product"""
    cl = CHILD_CLASSES
    if n == 0:
        return [()]
    out = []
    for j in range(len(cl)):
        out.append(tuple(cl[(j + i) % len(cl)] for i in range(n)))
    return out

def isinstance_tests(node):
    """the class names that the body tests with isinstance (what can observe a child's class)"""
    import ast
    out = set()
    for n in ast.walk(node):
        if isinstance(n, ast.Call) and isinstance(n.func, ast.Name) and n.func.id == 'isinstance' and len(n.args) == 2:
            k = n.args[1]
            for kk in (k.elts if isinstance(k, ast.Tuple) else [k]):
                out.add(getattr(kk, 'id', getattr(kk, 'attr', '?')))
    return sorted(out)

# ------------------------------------------------------------------ concrete instances for native replays
def concrete_child(name, i):
    X = E()
    from miasmx.tools.modint import uint32
    a, b = X.ExprId('c%da' % i, 32), X.ExprId('c%db' % i, 32)
    if name == 'ExprInt': return X.ExprInt(uint32(i + 1))
    if name == 'ExprId': return a
    if name == 'ExprCond': return X.ExprCond(a, b, X.ExprInt(uint32(i + 7)))
    if name == 'ExprMem': return X.ExprMem(a, 32)
    if name == 'ExprOp': return X.ExprOp('+', a, b)
    if name == 'ExprSlice': return X.ExprSlice(a, 0, 32)
    if name == 'ExprCompose': return X.ExprCompose([(X.ExprSlice(a, 0, 16), 0, 16), (X.ExprSlice(b, 0, 16), 16, 32)])
    raise ValueError(name)

def concrete_node(K, vec, segm=None):
    """a concrete node of class K whose children have the classes of `vec`"""
    X = E()
    from miasmx.tools.modint import uint32
    ch = [concrete_child(n, i) for i, n in enumerate(vec)]
    if K == 'ExprInt': return X.ExprInt(uint32(5)), []
    if K == 'ExprId': return X.ExprId('x', 32), []
    if K == 'ExprAff': return X.ExprAff(ch[0], ch[1]), ch
    if K == 'ExprCond': return X.ExprCond(ch[0], ch[1], ch[2]), ch
    if K == 'ExprMem':
        if len(ch) == 2:
            return X.ExprMem(ch[0], 32, ch[1]), ch
        return X.ExprMem(ch[0], 32, segm), ch
    if K == 'ExprOp': return X.ExprOp('+' if len(ch) != 1 else '-', *ch), ch
    if K == 'ExprSlice': return X.ExprSlice(ch[0], 0, 8), ch
    if K == 'ExprCompose':
        w = 32 // max(1, len(ch))
        kids = [X.ExprSlice(c, 0, w) for c in ch]
        return X.ExprCompose([(c, i * w, (i + 1) * w) for i, c in enumerate(kids)]), kids
    raise ValueError(K)
