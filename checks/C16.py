"""C16 - expression read sets and pattern matching are semantically exact.

Contracts (run-time twins over enumerated trees; dependency clauses decided by z3 for ALL valuations per tree):
  get_r(mem_read)   : every identifier / memory cell NOT reported must provably not influence the value
  ExprAff.get_w()   : names the destination
  get_expr_ids(e)   : exactly the identifiers occurring in e
  MatchExpr(e,m,tks): e = subst(m, B)  =>  the match succeeds and returns B (on the wildcards of m), a repeated wildcard bound consistently;
                      success => subst(m, result) is structurally e;   mutated non-instances of the same shape => False
"""
import sys, os, time, random, itertools, multiprocessing, traceback
from vlib import common
from vlib.common import Run, DISCHARGED, FAILED, BOUNDED_OK, UNDECIDED, DOWNGRADED, ENGINE_ERR, Ob
from checks.C15 import build, undesc, dstr, sub_descs

REPLAY = '''
import sys, os
sys.path.insert(0, %(verif)r); sys.path.insert(0, %(repo)r)
sys.dont_write_bytecode = True
sys.setrecursionlimit(10000)
from checks import C16
sys.exit(C16.replay(%(law)r, %(args)r))
'''

def leaf_ids(d, under_mem=False, out=None):
    """[(iddesc, inside_memory_address)]"""
    out = [] if out is None else out
    k = d[0]
    if k == 'id': out.append((d, under_mem))
    elif k == 'sreg': out.append((('id', d[1], 16), under_mem))
    elif k == 'mem': leaf_ids(d[1], True, out)
    elif k == 'smem':
        out.append((('id', d[1], 16), True)); leaf_ids(d[2], True, out)
    elif k == 'op':
        for x in d[2]: leaf_ids(x, under_mem, out)
    elif k == 'slice': leaf_ids(d[1], under_mem, out)
    elif k == 'compose':
        for x in d[1]: leaf_ids(x[0], under_mem, out)
    elif k == 'cond':
        for x in d[1:]: leaf_ids(x, under_mem, out)
    elif k == 'aff':
        leaf_ids(d[2], under_mem, out)
        if d[1][0] in ('mem', 'smem'):      # the address of a written cell is read
            pass
    return out

def rs_desc(rs):
    out = set()
    for x in rs:
        u = undesc(x)
        if u[0] == 'id': out.add(('id', u[1], u[2]))
        else: out.add(u)
    return out

def law_reads(d):
    from liftvc import den as D
    import z3
    fails = []
    src = d[2] if d[0] == 'aff' else d
    e = build(d)
    for mem_read in (True, False):
        try:
            rs = rs_desc(e.get_r(mem_read=mem_read))
        except Exception as ex:
            fails.append(('get_r.noraise', 'get_r(mem_read=%s) raised %s: %s' % (mem_read, type(ex).__name__, ex), ('reads', d)))
            continue
        # identifiers
        for (x, under) in set(leaf_ids(src)):
            if under and not mem_read:
                continue
            if ('id', x[1], x[2]) in rs:
                continue
            # not reported: must not influence the value
            st = D.State()
            st2 = st.copy()
            st2.regs = dict(st.regs)
            try:
                v1 = D.den(build(src), st)
                st2.regs = dict(st.regs)
                st2.regs[(x[1], x[2])] = z3.BitVec('other_' + x[1], x[2])
                v2 = D.den(build(src), st2)
            except D.IllTyped:
                continue
            s = z3.SolverFor('QF_AUFBV'); s.set('timeout', 10000)
            s.add(v1 != v2)
            r = s.check()
            if r == z3.sat:
                m = s.model()
                fails.append(('get_r.ids', 'get_r(mem_read=%s) of %s omits %s although the value depends on it (e.g. %s=%s vs %s)' % (
                    mem_read, build(src), x[1], x[1], m.eval(st.reg(x[1], x[2]), model_completion=True), m.eval(st2.regs[(x[1], x[2])], model_completion=True)), ('reads', d)))
            elif r != z3.unsat:
                fails.append(('get_r.ids', None, None))
        # memory cells
        cells = set(x for x in sub_descs(src) if x[0] in ('mem', 'smem'))
        for c in cells:
            if c in rs:
                continue
            # nested cells inside an address are only required when mem_read
            if not mem_read:
                # is c nested inside another cell's address?  then it is an address dependency, not required
                nested = any(c != o and c in sub_descs(o)[1:] for o in cells)
                if nested: continue
            st = D.State()
            try:
                v1 = D.den(build(src), st)
                st2 = st.copy()
                st2.mem = D.mem_write(st.mem, D.address(build(c), st), z3.BitVec('otherbytes', c[-1]), c[-1] // 8)
                v2 = D.den(build(src), st2)
            except D.IllTyped:
                continue
            s = z3.SolverFor('QF_AUFBV'); s.set('timeout', 10000)
            s.add(v1 != v2)
            r = s.check()
            if r == z3.sat:
                fails.append(('get_r.mem', 'get_r(mem_read=%s) of %s omits the memory cell %s although the value depends on its content' % (mem_read, build(src), dstr(c)), ('reads', d)))
            elif r != z3.unsat:
                fails.append(('get_r.mem', None, None))
    # get_expr_ids (of an assignment: the identifiers of destination and source)
    if True:
        from miasmx.expression.expression import get_expr_ids
        e = build(d)
        try:
            got = set((x.name, x.size) for x in get_expr_ids(e))
            want = set((x[1], x[2]) for (x, _) in leaf_ids(d))
            if d[0] == 'aff':       # of an assignment: the identifiers of the destination too
                want |= set((x[1], x[2]) for (x, _) in leaf_ids(d[1]))
            if got != want:
                fails.append(('get_expr_ids', 'get_expr_ids(%s) = %s, identifiers occurring: %s' % (e, sorted(got), sorted(want)), ('reads', d)))
        except Exception as ex:
            fails.append(('get_expr_ids', 'raised %s: %s' % (type(ex).__name__, ex), ('reads', d)))
    # get_w of assignments
    if d[0] == 'aff':
        e = build(d)
        try:
            ws = rs_desc(e.get_w())
            dst = d[1]
            want = ('id', dst[1], dst[2]) if dst[0] == 'id' else dst
            if dst[0] == 'slice':
                want = ('id', dst[1][1], dst[1][2])
            if want not in ws:
                fails.append(('get_w', 'get_w(%s) = %s does not name the destination %s' % (e, sorted(map(str, ws)), dstr(dst)), ('reads', d)))
        except Exception as ex:
            fails.append(('get_w', 'raised %s: %s' % (type(ex).__name__, ex), ('reads', d)))
    return fails

# ------------------------------------------------------------------------------------------------ MatchExpr
def subst_desc(p, B):
    k = p[0]
    if k == 'id' and p in B: return B[p]
    if k in ('id', 'int', 'sreg'): return p
    if k == 'mem': return ('mem', subst_desc(p[1], B), p[2])
    if k == 'smem': return ('smem', p[1], subst_desc(p[2], B), p[3])
    if k == 'op': return ('op', p[1], tuple(subst_desc(x, B) for x in p[2]))
    if k == 'slice': return ('slice', subst_desc(p[1], B), p[2], p[3])
    if k == 'compose': return ('compose', tuple((subst_desc(x, B), lo, hi) for (x, lo, hi) in p[1]))
    if k == 'cond': return ('cond', subst_desc(p[1], B), subst_desc(p[2], B), subst_desc(p[3], B))
    raise ValueError(p)

def patterns(w):
    from bounded import gen
    A, Bw, C = ('id', 'A', w), ('id', 'B', w), ('id', 'C', w)
    K = ('int', w, 3 if w > 1 else 1)
    x = ('id', 'x%d' % w, w)
    P32 = ('id', 'P', 32)
    out = []
    for op in ('+', '*', '^', '&', '|', '-', '<<', '>>', 'a>>', '<<<', '=='):
        out.append((('op', op, (A, Bw)), [A, Bw]))
        out.append((('op', op, (A, A)), [A]))
        out.append((('op', op, (A, K)), [A]))
        out.append((('op', op, (x, A)), [A]))
    for op in ('+', '^', '&'):
        out.append((('op', op, (A, Bw, C)), [A, Bw, C]))
        out.append((('op', op, (A, Bw, A)), [A, Bw]))
        out.append((('op', op, (('op', '&', (A, K)), Bw)), [A, Bw]))
    out.append((('op', '-', (A,)), [A]))
    out.append((('op', 'parity', (A,)), [A]))
    out.append((('cond', A, Bw, C), [A, Bw, C]))
    out.append((('cond', A, Bw, A), [A, Bw]))
    # wildcard-free compound sub-patterns (a sub-match that binds nothing is not a failure)
    out.append((('cond', ('op', '==', (x, K)), A, Bw), [A, Bw]))
    out.append((('cond', ('op', '+', (x, K)), ('op', '*', (x, x)), A), [A]))
    out.append((A, [A]))
    # ... also below an operator, before the first wildcard, and in patterns without any wildcard
    out.append((('op', '+', (('op', '*', (x, x)), A)), [A]))
    out.append((('op', '^', (('op', '+', (x, K)), ('op', '-', (x,)), A)), [A]))
    out.append((('op', '&', (('cond', ('id', 'z1', 1), x, K), A)), [A]))
    out.append((('op', '+', (('op', '*', (x, x)), K)), []))
    out.append((('op', '-', (('op', '+', (x, K)), ('op', '*', (A, x)))), [A]))
    if w >= 8:
        out.append((('mem', P32, w), [P32]))
        out.append((('mem', ('op', '+', (P32, ('int', 32, 0x10))), w), [P32]))
        out.append((('smem', 'fs', P32, w), [P32]))
        out.append((('op', '+', (('mem', P32, w), A)), [P32, A]))
    for w2 in gen.WIDTHS:
        if w2 > w:
            A2 = ('id', 'A2', w2)
            out.append((('slice', A2, 0, w), [A2]))
            out.append((('slice', A2, w2 - w, w2), [A2]))
            break
    for split in gen.compose_splits(w)[:2]:
        pos, slots, wc = 0, [], []
        for i, s in enumerate(split):
            v = ('id', 'S%d' % i, s)
            slots.append((v, pos, pos + s)); wc.append(v); pos += s
        out.append((('compose', tuple(slots)), wc))
        s0 = split[0]
        fixed = (('op', '+', (('id', 'y%d' % s0, s0), ('int', s0, 1))), 0, s0)
        out.append((('compose', (fixed,) + tuple(slots[1:])), wc[1:]))
    return out

def binding_values(w):
    from bounded import gen
    a, b = gen.ids(w)
    vs = [a, b, ('int', w, 1), ('int', w, 3 if w > 1 else 0), ('op', '+', (a, b)), ('op', '*', (b, a)), ('op', '-', (a,)), ('cond', ('id', 'z1', 1), a, b)]
    if w >= 8:
        vs += [('mem', ('id', 'p32', 32), w), ('smem', 'fs', ('id', 'p32', 32), w)]
    return vs

def mutations(e):
    """single-point structural mutations of a description (candidates for non-instances)"""
    out = []
    k = e[0]
    if k == 'op':
        others = {'+': '*', '*': '+', '^': '&', '&': '|', '|': '^', '-': '+', '<<': '>>', '>>': '<<', 'a>>': '>>', '<<<': '>>>', '==': '^', 'parity': '-'}
        out.append(('op', others.get(e[1], '+'), e[2]))
        if len(e[2]) >= 2:
            out.append(('op', e[1], e[2][:-1]))
        out.append(('op', e[1], e[2] + (e[2][-1],)))
        for i, x in enumerate(e[2]):
            for mx in mutations(x)[:2]:
                out.append(('op', e[1], e[2][:i] + (mx,) + e[2][i + 1:]))
    elif k == 'int':
        out.append(('int', e[1], (e[2] + 1) % (1 << e[1])))
    elif k == 'id':
        out.append(('id', e[1] + '_', e[2]))
    elif k == 'mem':
        out.append(('mem', e[1], 8 if e[2] != 8 else 16))
        out.append(('smem', 'fs', e[1], e[2]))
        for mx in mutations(e[1])[:2]: out.append(('mem', mx, e[2]))
    elif k == 'smem':
        out.append(('smem', 'gs', e[2], e[3]))
        out.append(('mem', e[2], e[3]))
    elif k == 'slice':
        if e[2] > 0: out.append(('slice', e[1], e[2] - 1, e[3] - 1))
        out.append(('slice', e[1], e[2], e[3] - 1) if e[3] - e[2] > 1 else ('slice', e[1], e[2] + 1, e[3] + 1))
        if e[2] + 1 < e[3]: out.append(('slice', e[1], e[2] + 1, e[3]))
    elif k == 'compose':
        if len(e[1]) > 1: out.append(('compose', e[1][:-1]))
        x, lo, hi = e[1][0]
        out.append(('compose', ((x, lo, hi),) + e[1]))
        # same slot count and slot starts, another end of the last slot (narrower last part / wider last part)
        xl, lol, hil = e[1][-1]
        if hil - lol > 1:
            out.append(('compose', e[1][:-1] + ((('slice', xl, 0, hil - lol - 1), lol, hil - 1),)))
        out.append(('compose', e[1][:-1] + ((('compose', ((xl, 0, hil - lol), (('int', 8, 0), hil - lol, hil - lol + 8))), lol, hil + 8),)))
    elif k == 'cond':
        out.append(('cond', e[1], e[3], e[2]))
        for mx in mutations(e[2])[:1]: out.append(('cond', e[1], mx, e[3]))
    return out

def wild_mutations(e, W, limit=6):
    """e with one leaf replaced by a wildcard identifier itself (the matched expression may contain the pattern's own wildcard names)"""
    out = []
    def leaves(d, path):
        k = d[0]
        if k in ('id', 'int'): yield path
        elif k == 'mem': yield from leaves(d[1], path + (1,))
        elif k == 'smem': yield from leaves(d[2], path + (2,))
        elif k == 'op':
            for i, x in enumerate(d[2]): yield from leaves(x, path + (2, i))
        elif k == 'slice': yield from leaves(d[1], path + (1,))
        elif k == 'compose':
            for i, (x, lo, hi) in enumerate(d[1]): yield from leaves(x, path + (1, i, 0))
        elif k == 'cond':
            for i in (1, 2, 3): yield from leaves(d[i], path + (i,))
    def put(d, path, v):
        if not path: return v
        i = path[0]
        return d[:i] + (put(d[i], path[1:], v),) + d[i + 1:]
    def get(d, path):
        for i in path: d = d[i]
        return d
    for path in list(leaves(e, ()))[:limit]:
        old = get(e, path)
        for wv in W:
            from bounded import gen
            if gen.dwidth(old) == wv[2] and old != wv:
                out.append(put(e, path, wv))
    return out

def is_instance(e, p, W, B=None):
    """reference matcher on descriptions: returns binding dict or None"""
    B = {} if B is None else B
    if p[0] == 'id' and p in W:
        if p in B: return B if B[p] == e else None
        B[p] = e
        return B
    if p[0] != e[0]: return None
    k = p[0]
    if k in ('id', 'int', 'sreg'): return B if p == e else None
    if k == 'mem':
        return is_instance(e[1], p[1], W, B) if p[2] == e[2] else None
    if k == 'smem':
        return is_instance(e[2], p[2], W, B) if (p[1] == e[1] and p[3] == e[3]) else None
    if k == 'op':
        if p[1] != e[1] or len(p[2]) != len(e[2]): return None
        for x, y in zip(e[2], p[2]):
            if is_instance(x, y, W, B) is None: return None
        return B
    if k == 'slice':
        return is_instance(e[1], p[1], W, B) if (p[2], p[3]) == (e[2], e[3]) else None
    if k == 'compose':
        if len(p[1]) != len(e[1]): return None
        for (x, lo, hi), (y, lo2, hi2) in zip(e[1], p[1]):
            if (lo, hi) != (lo2, hi2) or is_instance(x, y, W, B) is None: return None
        return B
    if k == 'cond':
        for x, y in zip(e[1:], p[1:]):
            if is_instance(x, y, W, B) is None: return None
        return B
    return None

def run_match(ed, pd, W):
    from miasmx.expression.expression import MatchExpr
    e, p = build(ed), build(pd)
    tks = [build(w) for w in W]
    return MatchExpr(e, p, tks)

def check_match(ed, pd, W, expect, history=()):
    """expect: binding dict (instance) or None (non-instance). returns list of failures.
       history: earlier MatchExpr calls of this process (replayed first by the replay script)"""
    fails = []
    _args = ('match', ed, pd, W, tuple(history))
    try:
        r = run_match(ed, pd, W)
    except Exception as ex:
        return [('match.noraise', 'MatchExpr(%s, %s, %s) raised %s: %s' % (dstr(ed), dstr(pd), [dstr(w) for w in W], type(ex).__name__, ex), _args)]
    if expect is None:
        if r is not False:
            fails.append(('match.reject', 'MatchExpr(%s, %s, wildcards %s) = %s although no binding exists' % (
                dstr(ed), dstr(pd), [w[1] for w in W], dict((str(k), str(v)) for k, v in r.items()) if isinstance(r, dict) else r), _args))
        return fails
    if r is False or r is None:
        fails.append(('match.accept', 'MatchExpr(%s, %s, wildcards %s) fails although %s is the pattern under {%s}' % (
            dstr(ed), dstr(pd), [w[1] for w in W], dstr(ed), ', '.join('%s: %s' % (k[1], dstr(v)) for k, v in expect.items())), _args))
        return fails
    if not isinstance(r, dict):
        fails.append(('match.sound', 'MatchExpr(%s, %s, wildcards %s) returned %r, not a table of bindings' % (dstr(ed), dstr(pd), [w[1] for w in W], r), _args))
        return fails
    got = dict((undesc(k), undesc(v)) for k, v in r.items())
    if subst_desc(pd, got) != ed:
        fails.append(('match.sound', 'MatchExpr(%s, %s) returned %s; substituting it into the pattern gives %s' % (
            dstr(ed), dstr(pd), dict((dstr(k), dstr(v)) for k, v in got.items()), dstr(subst_desc(pd, got))), _args))
    for wv, val in expect.items():
        if got.get(wv, wv) != val:          # a wildcard left unbound stands for itself (substitution leaves it in place)
            fails.append(('match.binding', 'wildcard %s bound to %s, expected %s' % (wv[1], got.get(wv) and dstr(got.get(wv)), dstr(val)), _args))
    return fails

def law_match(w, rng, n_bind):
    fails, n = [], 0
    prev = None
    vals = binding_values(w)
    for (pd, W) in patterns(w):
        for t in range(n_bind):
            B = {}
            for wv in W:
                pool = binding_values(wv[2]) if wv[2] != w else vals
                B[wv] = pool[(t * 7 + len(B) * 3 + rng.randrange(len(pool))) % len(pool)]
            ed = subst_desc(pd, B)
            n += 1
            hist = [prev] if prev else []
            fails += check_match(ed, pd, W, dict(B), hist)
            prev = (ed, pd, W)
            # history: a second, different match in the same process must not be influenced by the first
            B2 = dict((wv, vals[(vals.index(B[wv]) + 1) % len(vals)] if B[wv] in vals else B[wv]) for wv in W)
            ed2 = subst_desc(pd, B2)
            n += 1
            fails += check_match(ed2, pd, W, is_instance(ed2, pd, set(W)), [prev])
            prev = (ed2, pd, W)
            for md in mutations(ed) + (wild_mutations(ed, W) if t == 0 else []):
                exp = is_instance(md, pd, set(W))
                n += 1
                fails += check_match(md, pd, W, exp, [prev])
                prev = (md, pd, W)
    return n, fails

def print_alike_cases():
    """a wildcard that occurs twice must be bound CONSISTENTLY: the two matched sub-expressions are equal (==), not merely printed alike.
       Pairs that print alike and differ: a register and a plain identifier of the same name, constants of equal value and different width."""
    from miasmx.expression import expression as E
    from miasmx.tools.modint import uint1, uint8, uint16, uint32
    out = []
    def case(name, mk):
        out.append((name, mk))
    def c1():
        A = E.ExprId('A', 1)
        return E.ExprOp('^', E.ExprId('zf', 1, is_reg=True), E.ExprId('zf', 1)), E.ExprOp('^', A, A), [A], False
    def c2():
        A = E.ExprId('A', 32)
        return E.ExprOp('+', E.ExprId('eax', 32, False, True), E.ExprId('eax', 32)), E.ExprOp('+', A, A), [A], False
    def c3():
        A = E.ExprId('A', 32); x = E.ExprId('x', 32)
        return E.ExprCond(E.ExprInt(uint1(1)), x, E.ExprInt(uint32(1))), E.ExprCond(A, x, A), [A], False
    def c4():
        A = E.ExprId('A', 8)
        e = E.ExprCompose([(E.ExprId('c', 8), 0, 8), (E.ExprId('c', 8, is_reg=True), 8, 16)])
        return e, E.ExprCompose([(A, 0, 8), (A, 8, 16)]), [A], False
    def c5():
        A = E.ExprId('A', 8)
        e = E.ExprCompose([(E.ExprId('c', 8), 0, 8), (E.ExprId('c', 8), 8, 16)])
        return e, E.ExprCompose([(A, 0, 8), (A, 8, 16)]), [A], True
    def c6():
        A = E.ExprId('A', 16)
        return E.ExprOp('&', E.ExprInt(uint16(0x7f)), E.ExprSlice(E.ExprInt(uint32(0x7f)), 0, 16)), E.ExprOp('&', A, E.ExprSlice(A, 0, 16)), [A], False
    for n, f in (('reg-vs-id:1', c1), ('reg-vs-id:32', c2), ('const-width:cond', c3), ('reg-vs-id:compose', c4), ('same:compose', c5), ('const-width:slice', c6)):
        case(n, f)
    return out

def law_print_alike():
    from miasmx.expression.expression import MatchExpr
    fails = []
    for name, mk in print_alike_cases():
        e, m, tks, want = mk()
        try:
            r = MatchExpr(e, m, tks)
        except Exception as ex:
            fails.append(('match.print-alike', 'MatchExpr raised %s: %s' % (type(ex).__name__, ex), name)); continue
        ok = (r is not False and r is not None)
        if ok != want:
            fails.append(('match.print-alike', 'MatchExpr(%s, %s, %s) = %s: the two occurrences of the wildcard meet %s' % (
                e, m, [str(t) for t in tks], r, 'equal sub-expressions' if want else 'sub-expressions that print alike but are different (== is False)'), name))
    return fails

def replay(law, args):
    if args[0] == 'print-alike':
        fails = [f for f in law_print_alike() if f[2] == args[1]]
        for f in fails: print('%s: %s' % (f[0], f[1]))
        return 1 if fails else 0
    if args[0] == 'reads':
        fails = law_reads(args[1])
    elif args[0] == 'matchseq':
        # history-dependent failure: re-run the worker's whole deterministic call sequence
        _, w, seedparam, key = args
        n, fs = law_match(w, random.Random(seedparam), 6 if seedparam % 2 == 0 else 20)
        fails = [f for f in fs if '%s ~ %s' % (dstr(f[2][1]), dstr(f[2][2])) == key]
    else:
        _, ed, pd, W, hist = args
        for (he, hp, hw) in hist:
            try:
                print('earlier call: MatchExpr(%s, %s) = %s' % (dstr(he), dstr(hp), run_match(he, hp, hw)))
            except Exception as ex:
                print('earlier call raised', ex)
        fails = check_match(ed, pd, W, is_instance(ed, pd, set(W)))
    for f in fails:
        if f[1] is not None: print('%s: %s' % (f[0], f[1]))
    return 1 if any(f[0] == law and f[1] is not None for f in fails) else 0

def _work(job):
    kind, items, seed = job
    common.use_repo()
    sys.setrecursionlimit(10000)
    out = {'n': 0, 'fails': [], 'unknown': 0}
    try:
        if kind == 'reads':
            for d in items:
                out['n'] += 4
                for f in law_reads(d):
                    if f[1] is None: out['unknown'] += 1
                    else: out['fails'].append((dstr(d),) + f)
        else:
            n, fs = law_match(items, random.Random(seed), 6 if seed % 2 == 0 else 20)
            out['n'] += n
            for f in fs:
                key = '%s ~ %s' % (dstr(f[2][1]), dstr(f[2][2]))
                out['fails'].append((key, f[0], f[1], ('matchseq', items, seed, key)))
    except Exception:
        out['fails'].append(('crash', 'crash', traceback.format_exc()[-800:], None))
    return out

def main(argv):
    tier, seed, rest = common.parse_args(argv)
    common.use_repo()
    sys.setrecursionlimit(10000)
    run = Run('C16', tier, seed, 'other', 'cd /verif && ./vcheck C16 --tier %s' % tier)
    from checks import C15
    from bounded import gen
    trees = C15.corpus(tier, seed)
    # nested memory reads and assignments with slice destinations
    for w in (8, 16, 32):
        inner = ('mem', ('id', 'p32', 32), 32)
        trees.append(('mem', ('op', '+', (inner, ('id', 'q32', 32))), w))
        trees.append(('mem', ('mem', ('op', '+', (inner, ('int', 32, 4))), 32), w))
        trees.append(('smem', 'fs', ('op', '+', (inner, ('id', 'q32', 32))), w))
        trees.append(('aff', ('id', 'a%d' % w, w), ('mem', ('op', '+', (inner, ('id', 'q32', 32))), w)))
        trees.append(('aff', ('slice', ('id', 'a32', 32), 0, 8), ('id', 'b8', 8)))
        trees.append(('aff', ('slice', ('id', 'a32', 32), 8, 16), ('op', '+', (('id', 'b8', 8), ('id', 'a8', 8)))))
    jobs = [('reads', trees[i:i + 150], 0) for i in range(0, len(trees), 150)]
    for w in gen.WIDTHS:
        jobs.append(('match', w, seed * 2 + (0 if tier == 'quick' else 1)))
    with multiprocessing.get_context('fork').Pool(min(16, os.cpu_count() or 4)) as pool:
        results = pool.map(_work, jobs, chunksize=1)
    total = sum(r['n'] for r in results)
    nfail, seen = 0, set()
    for r in results:
        for (key, law, detail, args) in r['fails']:
            oid = 'C16:%s[%s]' % (law, key)
            if oid in seen: continue
            seen.add(oid)
            if law == 'crash':
                run.ob(oid, ENGINE_ERR, 'BND', 'cpython-enum', detail=detail); continue
            nfail += 1
            if nfail > 30:
                run.ob(oid, FAILED, 'BND', 'cpython-enum', detail=detail, witness={'args': repr(args)}, confirmed=True, func=law.split('.')[0]); continue
            script = REPLAY % dict(verif=common.VERIF, repo=common.REPO, law=law, args=args)
            rp = run.write_replay(oid, {'obligation': oid, 'detail': detail}, script)
            rc, outp = common.native_run(rp, timeout=120)
            if rc == 1:
                run.ob(oid, FAILED, 'BND', 'cpython-enum', detail=detail, witness=rp, confirmed=True, func=law.split('.')[0])
            else:
                run.ob(oid, ENGINE_ERR, 'BND', 'cpython-enum', detail='native replay does not confirm (rc=%s): %s | %s' % (rc, detail, outp[-300:]))
    run.bulk('law instances', total - nfail, 'BND', 'cpython-enum+z3', 0.0, BOUNDED_OK)
    run.bulk('dependency queries with solver unknown', sum(r['unknown'] for r in results), 'BND', 'z3', 0.0, DOWNGRADED)
    # repeated wildcards against sub-expressions that print alike (native, directed)
    pa = law_print_alike()
    for (law, detail, name) in pa:
        oid = 'C16:%s[%s]' % (law, name)
        script = REPLAY % dict(verif=common.VERIF, repo=common.REPO, law=law, args=('print-alike', name))
        rp = run.write_replay(oid, {'obligation': oid, 'detail': detail}, script)
        run.ob(oid, FAILED, 'BND', 'cpython-enum', detail=detail, witness=rp, confirmed=True, func='MatchExpr')
    run.bulk('repeated-wildcard cases with print-alike operands', len(print_alike_cases()) - len(pa), 'BND', 'cpython-enum', 0.0, BOUNDED_OK)
    # inductive per-class steps of get_r / get_w on the real method bodies (Engine A)
    try:
        from checks import C16smt
        nind = C16smt.ob_smt(run) + C16smt.ob_match(run)
    except Exception as ex:
        import traceback
        nind = 0
        run.ob('C16:ind:driver', ENGINE_ERR, 'SMT-A', 'pyvc', detail='%s: %s | %s' % (type(ex).__name__, ex, traceback.format_exc()[-400:]))
    run.evaluations = total
    run.distinct = len(trees)
    run.rule = ('read sets: C15 corpus + nested memory reads + assignments; for every identifier / memory cell of the tree not in get_r(mem_read=True|False) a z3 query proves '
                'non-interference for all valuations; get_w, get_expr_ids compared structurally; matching: %d patterns per width x bindings built by substitution (instances must match '
                'with exactly that binding), a second match with other bindings (history), and single-point mutations classified by an independent reference matcher' % len(patterns(32)))
    run.explanation = ('get_r/get_w: one inductive step per node class proved on the real method body by Engine A (children are opaque objects answered by the induction hypothesis; unbounded depth; '
                       'child classes by rotation, arity of ExprOp/ExprCompose up to 4) and the recursion scheme of MatchExpr per class of the matched node (which child pairs are matched, with which table, what is returned) - %d obligations; plus run-time twins of the contracts of get_r/get_w/get_expr_ids/MatchExpr and dependency clauses by z3 per tree' % nind)
    run.samples = [dstr(d) for d in trees[:3] + trees[-3:]]
    run.trust('z3; liftvc/den.py; the reference matcher is_instance in checks/C16.py')
    run.assume('induction steps (C16smt): finite acyclic expression trees; Dep of a node is the union of its value children (den is a function of them); test_set assumed in the MatchExpr scheme (any of False / True / table)')
    return run.finish()

if __name__ == '__main__':
    sys.exit(main(sys.argv[1:]))
