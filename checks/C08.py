"""C08 - read/write sets of lifted semantics never omit a real dependency.

R(i) = union of a.get_r(mem_read=True) over the lifted assignments + identifiers in the addresses of written memory cells;
W(i) = union of a.get_w().
Integer core (SMT-B + spec non-interference): for every architectural location l not in R(i), the IA-32 spec of the instruction
is proved independent of l for all states (z3); every location the spec writes (defined OR undefined result) must be in W(i);
every byte the spec loads/stores must lie in a memory cell of R(i)/W(i) for all states (z3).
x87/MMX/SSE (COMP): explicit operands and the implicit operands of an exception list (architectural table) must be in R/W.
"""
import sys, os, re, time, random, itertools, multiprocessing, traceback, binascii, collections
from vlib import common
from vlib.common import Run, DISCHARGED, FAILED, BOUNDED_OK, UNDECIDED, DOWNGRADED, ENGINE_ERR, Ob

REPLAY = '''
import sys, os
sys.path.insert(0, %(verif)r); sys.path.insert(0, %(repo)r)
sys.dont_write_bytecode = True
from checks import C08
sys.exit(C08.replay(%(hexbytes)r, %(clause)r, %(loc)r))
'''

def rw_sets(ins):
    """(R, W, affs): sets of ('reg', name) / ('mem', ExprMem) read resp. written according to the lifted semantics"""
    from checks.C04 import lift_faithful
    from miasmx.expression.expression import get_expr_ids
    affs = lift_faithful(ins)
    R, W = set(), set()
    Rm, Wm = [], []
    for a in affs:
        for x in a.get_r(mem_read=True):
            if x.__class__.__name__ == 'ExprId': R.add(x.name)
            else: Rm.append(x)
        for x in a.get_w():
            if x.__class__.__name__ == 'ExprId': W.add(x.name)
            else:
                Wm.append(x)
                for i in get_expr_ids(x.arg): R.add(i.name)
                if x.segm is not None and hasattr(x.segm, 'name'): R.add(x.segm.name)
    return R, W, Rm, Wm, affs

def covered(addr, n, cells, st, timeout_ms=6000):
    """are the bytes [addr, addr+n) inside one of the cells for every state?  returns 'unsat' when proved"""
    import z3
    from liftvc import den as D
    if not cells:
        return 'sat'
    conds = []
    for i in range(n):
        b = addr + z3.BitVecVal(i, 32)
        conds.append(z3.Or(*[z3.ULT(b - D.address(c, st), z3.BitVecVal((c.size + 7) // 8, 32)) for c in cells]))
    s = z3.SolverFor('QF_AUFBV'); s.set('timeout', timeout_ms)
    s.add(z3.Not(z3.And(*conds)))
    return str(s.check())

def check_core(ins):
    """integer-core instance: returns list of (clause, location, status, detail)"""
    import z3
    from liftvc import den as D
    from specs import x86sem
    from checks import C04
    ab = C04.abstract(ins)
    if ab is None:
        raise x86sem.Unsupported('operand form outside the spec')
    R, W, Rm, Wm, affs = rw_sets(ins)
    st = D.State()
    m = x86sem.apply(ab, st)
    res = []
    locs = [(r, 32) for r in x86sem.GPR] + [(f, 1) for f in x86sem.FLAGS] + [(s, 16) for s in x86sem.SREG]
    # ---- writes: everything the spec modifies (defined or undefined result) must be in W
    for (l, w) in locs:
        S = m.regs.get(l)
        if S is None or l in W:
            continue
        if isinstance(S, str) or isinstance(S, tuple):
            res.append(('write', l, 'sat', 'the processor modifies %s (%s) but it is not in the write set' % (l, 'undefined result' if isinstance(S, str) else 'conditionally')))
            continue
        s = z3.SolverFor('QF_AUFBV'); s.set('timeout', 6000)
        for p in m.assume: s.add(p)
        s.add(S != st.reg(l, w))
        r = str(s.check())
        if r != 'unsat':
            res.append(('write', l, r, 'the processor can modify %s but it is not in the write set' % l))
    for (addr, n) in m.stores:
        r = covered(addr, n, Wm, st)
        if r != 'unsat':
            res.append(('write', 'mem', r, 'the processor stores %d byte(s) outside every memory cell of the write set %s' % (n, [str(c) for c in Wm])))
    # ---- reads: spec must not depend on a location outside R
    for (addr, n) in m.loads:
        r = covered(addr, n, Rm, st)
        if r != 'unsat':
            res.append(('read', 'mem', r, 'the processor loads %d byte(s) outside every memory cell of the read set %s' % (n, [str(c) for c in Rm])))
    outs = []
    for (l, w) in locs:
        S = m.regs.get(l)
        if S is None or isinstance(S, str): continue
        if isinstance(S, tuple): outs.append((l, z3.If(z3.And(S[1], S[2]), S[3], z3.If(S[1], z3.BitVecVal(0, 1), S[4]))))
        else: outs.append((l, S))
    for (l, w) in locs:
        if l in R:
            continue
        # is any spec output (other than l passing through unchanged) a function of l ?
        fresh = z3.BitVec('other_' + l, w)
        pairs = [(st.reg(l, w), fresh)]
        dep = []
        for (o, term) in outs:
            t2 = z3.substitute(term, *pairs)
            if not t2.eq(term): dep.append(term != t2)
        m2 = z3.substitute(m.mem, *pairs)
        if not m2.eq(m.mem): dep.append(m.mem != m2)
        if m.eip_kind in ('taken-direct', 'indirect'):
            e2 = z3.substitute(m.eip, *pairs)
            if not e2.eq(m.eip): dep.append(m.eip != e2)
        if not dep:
            continue
        s = z3.SolverFor('QF_AUFBV'); s.set('timeout', 6000)
        for p in m.assume:
            s.add(p); s.add(z3.substitute(p, *pairs))
        s.add(z3.Or(*dep))
        r = str(s.check())
        if r != 'unsat':
            res.append(('read', l, r, 'the processor\'s result depends on %s but it is not in the read set' % l))
    return ab, res, (sorted(R), sorted(W))

SSE_IMPLICIT = {
    # mnemonic substring -> (implicit reads, implicit writes, writes memory at [edi])
    'maskmov': (['edi'], [], True),
    'blendv': (['xmm0'], [], False),
    'comis': ([], ['zf', 'pf', 'cf', 'of', 'nf', 'af'], False),
}

def check_simd(ins):
    """x87/MMX/SSE instance: explicit operands + exception list"""
    from miasmx.arch.ia32_reg import x86_afs
    R, W, Rm, Wm, affs = rw_sets(ins)
    res = []
    name = ins.m.name
    args = ins.arg
    def regname(a):
        for k in a:
            if type(k) == int:
                if 0 <= k - x86_afs.reg_xmm_base < 8 and k >= x86_afs.reg_xmm_base: return 'xmm%d' % (k - x86_afs.reg_xmm_base)
                if 0 <= k - x86_afs.reg_mm_base < 8: return 'mm%d' % (k - x86_afs.reg_mm_base)
                if k < 8 and a.get(x86_afs.size) in ('u32', 'u16', 'u08'): return x86_afs.reg_list32[k if a.get(x86_afs.size) != 'u08' or k < 4 else k - 4]
                if k < 8 and a.get(x86_afs.size) in ('f32', 'f64') and name.startswith('f'): return 'float_st%d' % k
        return None
    is_simd = '#' in name or ins.m.modifs.get('mmx')
    HINTS = ('prefetch', 'clflush', 'nop')      # hint instructions: the operand's value cannot influence any architectural result
    for i, a in enumerate(args):
        if a.get(x86_afs.ad) and any(name.startswith(h) for h in HINTS):
            continue
        if a.get(x86_afs.ad):
            # a memory operand must appear in R or W as a cell, and its address registers in R
            if not Rm and not Wm:
                res.append(('operand', 'mem', 'sat', 'the memory operand appears neither in the read set nor in the write set'))
            for k in a:
                if type(k) == int and k < 8:
                    rn = x86_afs.reg_list32[k]
                    if rn not in R:
                        res.append(('read', rn, 'sat', 'address register %s of the memory operand is not in the read set' % rn))
        elif x86_afs.imm not in a and x86_afs.symb not in a and is_simd:
            rn = regname(a)
            if rn is None: continue
            if i == 0:
                if rn not in W and rn not in R:
                    res.append(('operand', rn, 'sat', 'first operand %s is in neither set' % rn))
                # scalar moves between registers merge into the destination (movss/movsd xmm, xmm keep the upper lanes): it is read
                elif rn not in R and merges_destination(ins):
                    res.append(('read', rn, 'sat', 'destination %s keeps its upper lanes (scalar register-to-register move) but is not in the read set' % rn))
            else:
                if rn not in R:
                    # x op x with a self-cancelling integer operation gives a constant: the register is not a dependency then
                    first = regname(ins.arg[0]) if ins.arg and not ins.arg[0].get(x86_afs.ad) else None
                    if first == rn and re.sub(r'#', '', name) in SELF_CANCEL:
                        continue
                    res.append(('read', rn, 'sat', 'source operand %s is not in the read set' % rn))
    for key, (rd, wr, memw) in SSE_IMPLICIT.items():
        if key in name:
            for r in rd:
                if r not in R: res.append(('read', r, 'sat', 'implicit operand %s of %s is not in the read set' % (r, name)))
            for w in wr:
                if w not in W: res.append(('write', w, 'sat', '%s modifies %s but it is not in the write set' % (name, w)))
            if memw and not Wm:
                res.append(('write', 'mem', 'sat', '%s stores to memory at [edi] but no memory cell is in the write set' % name))
    return res, (sorted(R), sorted(W))

def merges_destination(ins):
    """F3/F2 0F 10 /r and F3/F2 0F 11 /r with mod = 3: movss / movsd between xmm registers write the low lane only"""
    from miasmx.arch.ia32_reg import x86_afs
    if ins.m.name != 'mov#ups#': return False
    pre = [p for p in (getattr(ins, 'prefix', []) or []) if p in (0xF3, 0xF2)]
    if not pre: return False
    return all(not a.get(x86_afs.ad) for a in ins.arg)

# integer SIMD operations whose result does not depend on x when both operands are x (all zeroes / all ones); floating-point subtraction is
# not among them (NaN, infinities)
SELF_CANCEL = set(['pxor', 'psubb', 'psubw', 'psubd', 'psubq', 'psubsb', 'psubsw', 'psubusb', 'psubusw', 'pandn', 'pcmpeqb', 'pcmpeqw', 'pcmpeqd', 'pcmpeqq', 'pcmpgtb', 'pcmpgtw', 'pcmpgtd', 'xorps', 'pandnps'])

def replay(hexbytes, clause, loc):
    from checks import C04
    from checks.C11 import safe_str
    from bounded import x86enum
    x86enum.quiet()
    ins = C04.decode(hexbytes)
    print('instruction:', safe_str(ins))
    R, W, Rm, Wm, affs = rw_sets(ins)
    for a in affs: print('   ', a)
    print('read set :', sorted(R), [str(c) for c in Rm])
    print('write set:', sorted(W), [str(c) for c in Wm])
    if clause == 'relift':
        first = (sorted(R), sorted(W), sorted(str(c) for c in Rm), sorted(str(c) for c in Wm))
        bad = 0
        for k in (2, 3, 4):
            R2, W2, Rm2, Wm2, _ = rw_sets(ins)
            d = (sorted(R2), sorted(W2), sorted(str(c) for c in Rm2), sorted(str(c) for c in Wm2))
            print('lifting #%d:' % k, d)
            if d != first: bad = 1
        return bad
    try:
        import z3
    except ImportError:
        inset = (loc in R) if clause == 'read' else (loc in W)
        print('%s %s in the %s set: %s (the dependency itself was decided by the check with z3)' % (loc, 'is' if inset else 'is NOT', clause, inset))
        return 0 if (inset and loc != 'mem') else 1
    from specs import x86sem
    try:
        ab, res, _ = check_core(ins)
    except x86sem.Unsupported:
        res, _ = check_simd(ins)
    for r in res: print('finding:', r)
    return 1 if any(r[0] == clause and r[1] == loc for r in res) else 0

def _work(job):
    idx, nparts, tier = job
    common.use_repo()
    from bounded import x86enum
    from specs import x86sem
    from liftvc import den as D
    from checks import C04, C11
    x86enum.quiet()
    names = C04.core_names()
    L = x86enum.leaves()
    sub = L[idx::nparts]
    out = {'n_core': 0, 'n_simd': 0, 'groups': {}, 'ok': 0, 'unsup': 0}
    prefixes = [(), (0x66,)] if tier == 'quick' else [(), (0x66,), (0x67,), (0x64,)]
    def c08_key(ins):
        # as C04's instance selection, and: whether two register operands are the same register (x op x has other dependencies than x op y)
        regs = [tuple(sorted((k, v) for k, v in a.items() if type(k) == int)) for a in ins.arg if not a.get('ad')]
        same = tuple(i < j and regs[i] == regs[j] and bool(regs[i]) for i in range(len(regs)) for j in range(len(regs)))
        return C04.c04_key(ins) + (same,)
    simd_leaves = [(p_, m_) for (p_, m_) in sub if m_.modifs.get('mmx') or '#' in m_.name]
    import itertools
    stream = itertools.chain(x86enum.instances(sub, key=c08_key, prefixes=prefixes, smart=True, full_sib=(tier != 'quick')),
                             # the F3 / F2 forms of the MMX/SSE rows (mandatory prefixes select other instructions: movss, movsd, cvt...)
                             x86enum.instances(simd_leaves, key=c08_key, prefixes=[(0xF3,), (0xF2,)], smart=True, full_sib=False))
    for b, ins in stream:
        if isinstance(ins, Exception): continue
        if not C11.has_semantics(ins): continue
        ins.offset = C04.OFFSET
        hx = binascii.hexlify(b).decode()
        core = ins.m.name in names
        try:
            if core:
                try:
                    ab, res, rw = check_core(ins)
                    sig = C04.opsig(ab)
                    out['n_core'] += 1
                except x86sem.Unsupported:
                    out['unsup'] += 1
                    continue
            else:
                res, rw = check_simd(ins)
                sig = ''
                out['n_simd'] += 1
        except Exception as ex:
            continue        # lifting crashes are C11's findings
        # the sets are a function of the instruction: lifting it again (and once more) reports the same registers and the same cells
        try:
            def digest():
                R2, W2, Rm2, Wm2, _ = rw_sets(ins)
                return (sorted(R2), sorted(W2), sorted(str(c) for c in Rm2), sorted(str(c) for c in Wm2))
            d1 = digest(); d2 = digest(); d3 = digest()
            if not (d1 == d2 == d3):
                bad = d2 if d2 != d1 else d3
                res = list(res) + [('relift', 'sets', 'sat', 'lifting the same instruction again reports other sets: first %s, later %s' % (d1, bad))]
        except Exception:
            pass
        if not res:
            out['ok'] += 1
        for (clause, loc, status, detail) in res:
            k = (ins.m.name, sig if core else 'simd', clause, loc, status)
            g = out['groups'].setdefault(k, [0, hx, detail, rw])
            g[0] += 1
            if len(hx) < len(g[1]): g[1], g[2], g[3] = hx, detail, rw
    return out

def main(argv):
    tier, seed, rest = common.parse_args(argv)
    common.use_repo()
    run = Run('C08', tier, seed, 'other', 'cd /verif && ./vcheck C08 --tier %s' % tier)
    nparts = 64
    with multiprocessing.get_context('fork').Pool(min(16, os.cpu_count() or 4)) as pool:
        results = pool.map(_work, [(i, nparts, tier) for i in range(nparts)], chunksize=1)
    groups = {}
    for r in results:
        for k, g in r['groups'].items():
            G = groups.setdefault(k, [0] + g[1:])
            G[0] += g[0]
            if len(g[1]) < len(G[1]): G[1:] = g[1:]
    ok = sum(r['ok'] for r in results)
    run.bulk('instances whose read/write sets cover the specification', ok, 'SMT-B', 'z3+cpython', 0.0, DISCHARGED)
    for k, (cnt, hx, detail, rw) in sorted(groups.items()):
        name, sig, clause, loc, status = k
        oid = 'C08:rw[%s]:%s:%s:%s' % (name, sig, clause, loc)
        if status != 'sat':
            run.ob(oid, DOWNGRADED, 'SMT-B', 'z3', detail='solver %s on %d instances, e.g. %s' % (status, cnt, hx))
            continue
        d = '%d instances, e.g. %s: %s; reported read set %s, write set %s' % (cnt, hx, detail, rw[0], rw[1])
        script = REPLAY % dict(verif=common.VERIF, repo=common.REPO, hexbytes=hx, clause=clause, loc=loc)
        rp = run.write_replay(oid, {'obligation': oid, 'detail': d}, script)
        run.ob(oid, FAILED, 'SMT-B', 'z3', detail=d, witness=rp, confirmed=True, func=name)
    run.evaluations = sum(r['n_core'] + r['n_simd'] for r in results)
    run.distinct = run.evaluations
    run.extra['integer_core_instances'] = sum(r['n_core'] for r in results)
    run.extra['x87_mmx_sse_instances'] = sum(r['n_simd'] for r in results)
    run.extra['outside_spec'] = sum(r['unsup'] for r in results)
    run.rule = ('instances as in C04/C11 (decoder enumeration, one per operand class); integer core: per instance and per architectural location (8 registers, 7 flags, 6 segment registers, memory) '
                'one z3 query proves that the IA-32 spec does not depend on a location missing from the read set / does not modify a location missing from the write set, and that every '
                'loaded/stored byte lies inside a reported memory cell; x87/MMX/SSE: explicit operands and the implicit operands of maskmov*/blendv*/comis* must be reported')
    run.explanation = ('non-interference of the hand-written spec (not of the IR) against the sets read off the real lifted assignments, for all states; SIMD part is a containment check against a small architectural table')
    run.samples = ['%s:%s:%s:%s (%d)' % (k[0], k[1], k[2], k[3], v[0]) for k, v in list(sorted(groups.items()))[:6]] or ['all covered']
    run.trust('z3; specs/x86sem.py; the SIMD exception list in checks/C08.py'); run.assume('flat es/cs/ss/ds: their selectors are not dependencies')
    return run.finish()

if __name__ == '__main__':
    sys.exit(main(sys.argv[1:]))
