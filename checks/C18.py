"""C18 - PowerPC words decode unambiguously and re-encode to themselves.

  uniq     (SMT, proof over all 2^32 words): for every pair of instruction classes, check_a(w) and check_b(w) is unsat, where
           check_c(w) is the formula obtained by pushing a symbolic word through the REAL bm.check_fbits/check_fbits_inv
           (SymWord proxy) and, for bm_set, from its finite field set (validated exhaustively over the field).
  reencode (SMT-B, proof over all 2^32 words): forall w. check_c(w) => bin(ppc_c(w)) == w, with a symbolic word pushed through the
           real ppc_mn.__init__ (decode) and bin() (encode); branches on the word are explored path by path.
  layout   (COMP): the mask fields of every class tile the 32 bits.
  map      (COMP over primary x extended opcode x flag bits x boundary fields): the claiming class and getname() are the ones the
           PowerPC architecture assigns (S-ppc table below, written from the PowerPC UISA), str() does not raise.
  text     (BND over the same enumeration): assembling str(ppc_mn(w)) gives back w.
"""
import sys, os, re, time, random, itertools, struct, traceback, io, contextlib
from vlib import common
from vlib.common import Run, DISCHARGED, FAILED, BOUNDED_OK, UNDECIDED, DOWNGRADED, ENGINE_ERR, Ob

REPLAY = '''
import sys, os
sys.path.insert(0, %(verif)r); sys.path.insert(0, %(repo)r)
sys.dont_write_bytecode = True
from checks import C18
sys.exit(C18.replay(%(clause)r, %(word)r, %(extra)r))
'''

def P():
    import miasmx.arch.ppc_arch as ppc
    return ppc

# ------------------------------------------------------------------------------------------------ S-ppc (PowerPC UISA, 32-bit)
D_FORM = {3: 'TWI', 7: 'MULLI', 8: 'SUBFIC', 10: 'CMPLI', 11: 'CMPI', 12: 'ADDIC', 13: 'ADDIC.', 14: 'ADDI', 15: 'ADDIS', 24: 'ORI', 25: 'ORIS', 26: 'XORI',
          27: 'XORIS', 28: 'ANDI.', 29: 'ANDIS.', 32: 'LWZ', 33: 'LWZU', 34: 'LBZ', 35: 'LBZU', 36: 'STW', 37: 'STWU', 38: 'STB', 39: 'STBU', 40: 'LHZ',
          41: 'LHZU', 42: 'LHA', 43: 'LHAU', 44: 'STH', 45: 'STHU', 46: 'LMW', 47: 'STMW', 48: 'LFS', 49: 'LFSU', 50: 'LFD', 51: 'LFDU', 52: 'STFS',
          53: 'STFSU', 54: 'STFD', 55: 'STFDU', 20: 'RLWIMI', 21: 'RLWINM', 23: 'RLWNM', 17: 'SC'}
X31 = {0: 'CMP', 4: 'TW', 8: 'SUBFC', 10: 'ADDC', 11: 'MULHWU', 19: 'MFCR', 20: 'LWARX', 23: 'LWZX', 24: 'SLW', 26: 'CNTLZW', 28: 'AND', 32: 'CMPL', 40: 'SUBF',
       54: 'DCBST', 55: 'LWZUX', 60: 'ANDC', 75: 'MULHW', 83: 'MFMSR', 86: 'DCBF', 87: 'LBZX', 104: 'NEG', 119: 'LBZUX', 124: 'NOR', 136: 'SUBFE', 138: 'ADDE',
       144: 'MTCRF', 146: 'MTMSR', 150: 'STWCX.', 151: 'STWX', 183: 'STWUX', 200: 'SUBFZE', 202: 'ADDZE', 210: 'MTSR', 215: 'STBX', 232: 'SUBFME', 234: 'ADDME',
       235: 'MULLW', 242: 'MTSRIN', 246: 'DCBTST', 247: 'STBUX', 266: 'ADD', 278: 'DCBT', 279: 'LHZX', 284: 'EQV', 306: 'TLBIE', 310: 'ECIWX', 311: 'LHZUX',
       316: 'XOR', 339: 'MFSPR', 343: 'LHAX', 370: 'TLBIA', 371: 'MFTB', 375: 'LHAUX', 407: 'STHX', 412: 'ORC', 438: 'ECOWX', 439: 'STHUX', 444: 'OR', 459: 'DIVWU',
       467: 'MTSPR', 470: 'DCBI', 476: 'NAND', 491: 'DIVW', 512: 'MCRXR', 533: 'LSWX', 534: 'LWBRX', 535: 'LFSX', 536: 'SRW', 566: 'TLBSYNC', 567: 'LFSUX',
       595: 'MFSR', 597: 'LSWI', 598: 'SYNC', 599: 'LFDX', 631: 'LFDUX', 659: 'MFSRIN', 661: 'STSWX', 662: 'STWBRX', 663: 'STFSX', 695: 'STFSUX', 725: 'STSWI',
       727: 'STFDX', 759: 'STFDUX', 790: 'LHBRX', 792: 'SRAW', 824: 'SRAWI', 854: 'EIEIO', 918: 'STHBRX', 922: 'EXTSH', 954: 'EXTSB', 982: 'ICBI', 983: 'STFIWX',
       1014: 'DCBZ'}
XO9 = set([8, 10, 11, 40, 75, 104, 136, 138, 200, 202, 232, 234, 235, 266, 459, 491])     # XO-form (9-bit extended opcode, OE bit above it)
X19 = {0: 'MCRF', 16: 'BCLR', 33: 'CRNOR', 50: 'RFI', 129: 'CRANDC', 150: 'ISYNC', 193: 'CRXOR', 225: 'CRNAND', 257: 'CRAND', 289: 'CREQV', 417: 'CRORC',
       449: 'CROR', 528: 'BCCTR'}
X63 = {0: 'FCMPU', 12: 'FRSP', 14: 'FCTIW', 15: 'FCTIWZ', 32: 'FCMPO', 38: 'MTFSB1', 40: 'FNEG', 64: 'MCRFS', 70: 'MTFSB0', 72: 'FMR', 134: 'MTFSFI', 136: 'FNABS',
       264: 'FABS', 583: 'MFFS', 711: 'MTFSF'}
A63 = {18: 'FDIV', 20: 'FSUB', 21: 'FADD', 22: 'FSQRT', 23: 'FSEL', 25: 'FMUL', 26: 'FRSQRTE', 28: 'FMSUB', 29: 'FMADD', 30: 'FNMSUB', 31: 'FNMADD'}
A59 = {18: 'FDIVS', 20: 'FSUBS', 21: 'FADDS', 22: 'FSQRTS', 24: 'FRES', 25: 'FMULS', 28: 'FMSUBS', 29: 'FMADDS', 30: 'FNMSUBS', 31: 'FNMADDS'}

def spec_mnemonic(w):
    """base mnemonic the architecture assigns to the word's primary/extended opcode (None: not in the table / reserved)"""
    p = w >> 26
    if p in D_FORM: return D_FORM[p]
    if p == 16: return 'BC'
    if p == 18: return 'B'
    xo10 = (w >> 1) & 0x3ff
    if p == 31:
        if (xo10 & 0x1ff) in XO9 and (xo10 & 0x1ff) in X31: return X31[xo10 & 0x1ff]
        return X31.get(xo10)
    if p == 19: return X19.get(xo10)
    if p == 63:
        if (w >> 1) & 0x1f in A63 and ((w >> 1) & 0x10): return A63[(w >> 1) & 0x1f]
        return X63.get(xo10)
    if p == 59: return A59.get((w >> 1) & 0x1f)
    return None

def normalize_name(n):
    """miasmX decorates the base mnemonic (OE 'O', Rc '.', AA/LK 'A'/'L', condition names): reduce a rendered name to candidates of the base"""
    return n.upper()

# ------------------------------------------------------------------------------------------------ symbolic word proxy
class SW(object):
    """symbolic word / integer: wraps a z3 bit-vector (64 bits, signed; values of interest stay far below 2^63) and refuses whatever
       it cannot represent; truth tests fork the exploration (pyvc Path)"""
    W = 64
    path = None
    def __init__(self, t):
        self.t = t
    @staticmethod
    def lift(x):
        import z3
        if isinstance(x, SW): return x.t
        if isinstance(x, bool): return z3.BitVecVal(int(x), SW.W)
        if isinstance(x, int): return z3.BitVecVal(x, SW.W)
        raise TypeError('SymWord mixed with %r' % (x,))
    def _bin(self, o, f): return SW(f(self.t, SW.lift(o)))
    def __rshift__(self, o): return self._bin(o, lambda a, b: a >> b)
    def __lshift__(self, o): return self._bin(o, lambda a, b: a << b)
    def __and__(self, o): return self._bin(o, lambda a, b: a & b)
    def __rand__(self, o): return self._bin(o, lambda a, b: b & a)
    def __or__(self, o): return self._bin(o, lambda a, b: a | b)
    def __ror__(self, o): return self._bin(o, lambda a, b: b | a)
    def __xor__(self, o): return self._bin(o, lambda a, b: a ^ b)
    def __add__(self, o): return self._bin(o, lambda a, b: a + b)
    def __radd__(self, o): return self._bin(o, lambda a, b: b + a)
    def __sub__(self, o): return self._bin(o, lambda a, b: a - b)
    def __rsub__(self, o): return self._bin(o, lambda a, b: b - a)
    def __neg__(self): return SW(-self.t)
    def __invert__(self): return SW(~self.t)
    def __eq__(self, o): return SB(self.t == SW.lift(o))
    def __ne__(self, o): return SB(self.t != SW.lift(o))
    def __lt__(self, o): return SB(self.t < SW.lift(o))
    def __le__(self, o): return SB(self.t <= SW.lift(o))
    def __gt__(self, o): return SB(self.t > SW.lift(o))
    def __ge__(self, o): return SB(self.t >= SW.lift(o))
    def __hash__(self): return id(self)
    def __bool__(self): return bool(SB(self.t != 0))
    def __index__(self): raise TypeError('symbolic word used as an index')
    def __int__(self): raise TypeError('symbolic word converted to int')

class SB(object):
    def __init__(self, c): self.c = c
    def __bool__(self):
        if SW.path is None: raise TypeError('branch on a symbolic word')
        return SW.path.branch(self.c)
    def __and__(self, o):
        import z3
        return SB(z3.And(self.c, o.c if isinstance(o, SB) else z3.BoolVal(bool(o))))
    def __invert__(self):
        import z3
        return SB(z3.Not(self.c))

def field_formula(m, w):
    """formula of one mask object's check on the symbolic word w (BV64), by running the REAL check method on the proxy"""
    import z3
    ppc = P()
    if m.fbits is None:
        return z3.BoolVal(True)
    if isinstance(m, ppc.bm_set):
        f = z3.Extract(m.l - 1, 0, z3.LShR(w, m.off)) if False else ((w >> m.off) & m.fmask)
        return z3.Or(*[f == v for v in list(m.fbits)])
    r = m.check(SW(w))          # real code: (v>>self.off) & self.fmask == / != self.fbits
    if not isinstance(r, SB):
        raise TypeError('check did not stay symbolic: %r' % (r,))
    return r.c

def class_formula(cls, w):
    """check_c(w): the REAL metaclass check() (loop over the mask objects, their real check methods) is executed on the symbolic word;
       every truth test forks, and the formula is the disjunction of the path conditions under which it returns True"""
    import z3
    from pyvc.engine import Path, PathEnd
    path = Path(timeout_ms=5000)
    accept = []
    n = 0
    while True:
        path.restart()
        SW.path = path
        try:
            r = cls.check(SW(w))
            if isinstance(r, SB):
                r = bool(r)
            if r:
                accept.append(z3.And(*path.pc) if path.pc else z3.BoolVal(True))
        except PathEnd:
            pass
        finally:
            SW.path = None
        n += 1
        if not path.advance():
            break
        if n > 5000:
            raise RuntimeError('path explosion in check of %s' % cls.__name__)
    return z3.Or(*accept) if accept else z3.BoolVal(False)

def word64(name='w'):
    import z3
    w32 = z3.BitVec(name, 32)
    return w32, z3.ZeroExt(32, w32)

# ------------------------------------------------------------------------------------------------ obligations
def ob_layout(run):
    ppc = P()
    for cls in ppc.tab_mn:
        off = 32
        ok = True
        for m in cls.mask_orig:
            off -= m.l if isinstance(m.l, int) else 0
            if not isinstance(m.l, int) or m.l <= 0: ok = False
        oid = 'C18:layout[%s]' % cls.__name__
        if ok and off == 0:
            run.ob(oid, DISCHARGED, 'COMP', 'cpython', func=cls.__name__)
        else:
            run.ob(oid, FAILED, 'COMP', 'cpython', detail='mask fields of %s cover %d bits' % (cls.__name__, 32 - off), confirmed=True, func=cls.__name__)

def ob_bm_set(run):
    """bm_set.check(v) <=> field(v) in fbits, exhaustively over the field with two backgrounds"""
    ppc = P()
    n = 0
    for cls in ppc.tab_mn:
        for m in cls.mask_chk:
            if isinstance(m, ppc.bm_set):
                bad = None
                for f in range(1 << m.l):
                    for bg in (0, 0xffffffff):
                        v = (bg & ~(m.fmask << m.off) | (f << m.off)) & 0xffffffff
                        if bool(m.check(v)) != (f in list(m.fbits)):
                            bad = v
                n += 1
                oid = 'C18:bm_set.check[%s@%d]' % (cls.__name__, m.off)
                if bad is None: run.ob(oid, DISCHARGED, 'COMP', 'cpython', func='bm_set.check')
                else: run.ob(oid, FAILED, 'COMP', 'cpython', detail='bm_set.check(0x%08x) disagrees with membership of the field' % bad, confirmed=True, witness={'word': bad})

def ob_uniq(run):
    import z3
    ppc = P()
    w32, w = word64()
    forms = [(c, class_formula(c, w)) for c in ppc.tab_mn]
    t0 = time.time()
    for (a, fa), (b, fb) in itertools.combinations(forms, 2):
        s = z3.Solver(); s.set('timeout', 20000)
        s.add(fa, fb)
        r = s.check()
        oid = 'C18:uniq[%s,%s]' % (a.__name__, b.__name__)
        if r == z3.unsat:
            run.ob(oid, DISCHARGED, 'SMT-B', 'z3', func='class_from_op')
        elif r == z3.sat:
            wv = s.model().eval(w32, model_completion=True).as_long()
            confirmed = bool(a.check(wv)) and bool(b.check(wv))
            script = REPLAY % dict(verif=common.VERIF, repo=common.REPO, clause='uniq', word=wv, extra=[a.__name__, b.__name__])
            rp = run.write_replay(oid, {'obligation': oid, 'word': '0x%08x' % wv}, script)
            run.ob(oid, FAILED if confirmed else ENGINE_ERR, 'SMT-B', 'z3', detail='word 0x%08x is claimed by both %s and %s' % (wv, a.__name__, b.__name__),
                   witness=rp, confirmed=confirmed, func='class_from_op')
        else:
            run.ob(oid, DOWNGRADED, 'SMT-B', 'z3', detail='solver %s' % r)
    return time.time() - t0

def reencode_paths(cls):
    """push a symbolic word through the real __init__ (decode) and bin(); returns [(path condition list, result term)]"""
    import z3
    from pyvc.engine import Path, PathEnd
    w32, w = word64()
    path = Path(timeout_ms=5000)
    out = []
    while True:
        path.restart()
        SW.path = path
        try:
            i = cls.__new__(cls)
            i.__init__(SW(w), 0)
            r = i.bin()
            out.append((list(path.pc), r.t if isinstance(r, SW) else z3.BitVecVal(r, 64)))
        except PathEnd:
            pass
        finally:
            SW.path = None
        if not path.advance():
            break
        if len(out) > 64:
            raise RuntimeError('path explosion in %s' % cls.__name__)
    return w32, w, out

def ob_reencode(run):
    import z3
    ppc = P()
    for cls in ppc.tab_mn:
        oid = 'C18:reencode[%s]' % cls.__name__
        try:
            w32, w, paths = reencode_paths(cls)
        except Exception as ex:
            run.ob(oid, DOWNGRADED, 'SMT-B', 'z3', detail='symbolic execution of __init__/bin left the supported subset: %r' % (ex,), func=cls.__name__)
            continue
        cf = class_formula(cls, w)
        bad = None
        t0 = time.time()
        unknown = False
        for pc, res in paths:
            s = z3.Solver(); s.set('timeout', 20000)
            s.add(cf)
            for c in pc: s.add(c)
            s.add(res != w)
            r = s.check()
            if r == z3.sat:
                bad = s.model().eval(w32, model_completion=True).as_long(); break
            if r != z3.unsat: unknown = True
        if bad is not None:
            try:
                got = cls_instance(cls, bad).bin()
                confirmed = got != bad
            except Exception as ex:
                got, confirmed = repr(ex), True
            script = REPLAY % dict(verif=common.VERIF, repo=common.REPO, clause='reencode', word=bad, extra=[cls.__name__])
            rp = run.write_replay(oid, {'obligation': oid, 'word': '0x%08x' % bad}, script)
            run.ob(oid, FAILED if confirmed else ENGINE_ERR, 'SMT-B', 'z3', time.time() - t0,
                   detail='word 0x%08x decodes as %s but re-encodes to %s' % (bad, cls.__name__, got if not isinstance(got, int) else '0x%08x' % got), witness=rp, confirmed=confirmed, func=cls.__name__)
        elif unknown:
            run.ob(oid, DOWNGRADED, 'SMT-B', 'z3', time.time() - t0, detail='solver unknown', func=cls.__name__)
        else:
            run.ob(oid, DISCHARGED, 'SMT-B', 'z3', time.time() - t0, detail='%d paths' % len(paths), func=cls.__name__)

def cls_instance(cls, w):
    i = cls.__new__(cls)
    i.__init__(w, 0)
    return i

def enum_words(tier, seed):
    """primary x extended opcode x flag bits x boundary operand fields"""
    rng = random.Random(seed + 18)
    fields = [(0, 0, 0), (1, 1, 1), (31, 31, 31), (3, 0, 31), (0, 31, 1)]
    imms = [0, 1, 0x7fff, 0x8000, 0xffff]
    seen = set()
    for p in range(64):
        for (rt, ra, rb) in fields:
            base = (p << 26) | (rt << 21) | (ra << 16) | (rb << 11)
            for xo in range(1024):
                for low in ((0, 1) if tier == 'quick' else (0, 1)):
                    for oe in (0,):
                        w = base | (xo << 1) | low
                        if w not in seen:
                            seen.add(w); yield w
            for im in imms:
                w = (p << 26) | (rt << 21) | (ra << 16) | im
                if w not in seen:
                    seen.add(w); yield w
    # conditional branches: every BO x BI (x AA/LK) of bc, bclr, bcctr
    for bo in range(32):
        for bi in range(32):
            for low in range(4):
                w = (16 << 26) | (bo << 21) | (bi << 16) | (0x10 << 2) | low
                if w not in seen:
                    seen.add(w); yield w
            for xo in (16, 528):
                for lk in (0, 1):
                    w = (19 << 26) | (bo << 21) | (bi << 16) | (xo << 1) | lk
                    if w not in seen:
                        seen.add(w); yield w
    # instructions whose 10-bit field names a special register (or a mask / segment register): every value of the field
    for xo in (339, 467, 371, 144, 210, 595):
        for fld in range(1024):
            w = (31 << 26) | (3 << 21) | (fld << 11) | (xo << 1)
            if w not in seen:
                seen.add(w); yield w
    for i in range(2000 if tier == 'quick' else 200000):
        w = rng.getrandbits(32)
        if w not in seen:
            seen.add(w); yield w

def ob_map_text(run, tier, seed):
    ppc = P()
    n = dec = 0
    groups = {}
    badwords = set()
    def fail(clause, key, w, msg):
        g = groups.setdefault((clause, key), [0, w, msg])
        g[0] += 1
        badwords.add(w)
    t0 = time.time()
    last = {}
    for w in enum_words(tier, seed):
        n += 1
        claims = [c for c in ppc.tab_mn if c.check(w)]
        if len(claims) > 1:
            fail('uniq-enum', ','.join(c.__name__ for c in claims), w, 'word claimed by %s' % [c.__name__ for c in claims])
            continue
        spec = spec_mnemonic(w)
        # the public dispatcher agrees with the per-class tests (which the uniqueness proof is about): it returns the one claiming class and
        # refuses a word no class claims -- whatever was decoded before in this process
        try:
            disp = ppc.ppc_mn.class_from_op(w)
        except ValueError:
            disp = None
        except Exception as ex:
            disp = ex
        if (disp is None) != (not claims) or (claims and disp is not claims[0]):
            fail('dispatch', (claims[0].__name__ if claims else 'none'), w, 'class_from_op(0x%08x) gives %s, the class tests give %s' % (w, getattr(disp, '__name__', disp), [c.__name__ for c in claims]))
        if not claims:
            continue
        cls = claims[0]
        dec += 1
        # an instruction decoded earlier is an object of its own: decoding / assembling other words of its class does not change it
        prev = last.get(cls)
        if prev is not None:
            pi, pw, pt = prev
            try:
                with contextlib.redirect_stdout(io.StringIO()):
                    nb, nt = pi.bin(), str(pi)
                if nb != pw or nt != pt:
                    fail('alias', cls.__name__, pw, 'the instruction decoded from 0x%08x ("%s") reads 0x%08x / "%s" after other words of %s were decoded' % (pw, pt, nb, nt, cls.__name__))
            except Exception as ex:
                pass
        try:
            i = cls_instance(cls, w)
        except Exception as ex:
            fail('decode', cls.__name__ + ':' + type(ex).__name__, w, 'decoding raises %s: %s' % (type(ex).__name__, ex)); continue
        try:
            b = i.bin()
            if b != w:
                fail('reencode-enum', cls.__name__, w, 're-encodes to 0x%08x' % b)
        except Exception as ex:
            fail('reencode-enum', cls.__name__ + ':' + type(ex).__name__, w, 'bin() raises %s' % ex)
        try:
            base = i.name2str()
        except Exception as ex:
            fail('name', cls.__name__ + ':' + type(ex).__name__, w, 'name2str() raises %s: %s' % (type(ex).__name__, ex)); base = None
        if spec is not None and base is not None:
            if not name_matches(base, spec, w):
                fail('map', '%s:%s!=%s' % (cls.__name__, base, spec), w, 'architecture assigns %s (primary %d, extended %d), miasmX names it %s' % (spec, w >> 26, (w >> 1) & 0x3ff, base))
        if spec is None and base is not None and (w >> 26) in (31, 19, 63, 59):
            fail('map-reserved', '%s:%s@%d/%d' % (cls.__name__, base, w >> 26, (w >> 1) & 0x3ff), w, 'no architected instruction at primary %d extended %d, miasmX decodes %s' % (w >> 26, (w >> 1) & 0x3ff, base))
        try:
            with contextlib.redirect_stdout(io.StringIO()):
                txt = str(i)
        except Exception as ex:
            fail('render', cls.__name__ + ':' + type(ex).__name__, w, 'str() raises %s: %s' % (type(ex).__name__, ex)); continue
        try:
            last[cls] = (i, i.bin(), txt)
        except Exception:
            last.pop(cls, None)
        try:
            with contextlib.redirect_stdout(io.StringIO()):
                back = ppc.ppc_mn.asm(txt)
            bw = struct.unpack('>L', back[0])[0]
            if bw != w:
                fail('text', '%s/%s' % (cls.__name__, text_key(txt, w)), w, '"%s" assembles to 0x%08x' % (txt, bw))
        except Exception as ex:
            fail('text', '%s/%s:%s' % (cls.__name__, text_key(txt, w), type(ex).__name__), w, 'assembling "%s" raises %s: %s' % (txt, type(ex).__name__, str(ex)[:80]))
    return n, dec - len(badwords), groups, time.time() - t0

def text_key(txt, w=None):
    """mnemonic and, when it is a word (a condition or a special register, not a number or a general register), the first operand"""
    t = txt.replace(',', ' ').split()
    if not t: return '?'
    k = t[0]
    if len(t) > 1 and re.match(r'^[A-Z][A-Z]+\d*$', t[1]) and not re.match(r'^(R|FP|CR)\d+$', t[1]) and t[1] != 'SP': k += ' ' + t[1]
    if w is not None and (w >> 26) in (16, 19) and k.startswith('B'):
        # conditional branches: the BO field (it selects the mnemonic, carries hint bits and says whether the condition is used), the
        # condition bit of the CR field (BI mod 4) and whether a CR field other than 0 is named decide what the rendering looks like
        bo, bi = (w >> 21) & 31, (w >> 16) & 31
        k += ' bo%d bi%d%s' % (bo, bi & 3, '+cr' if bi >> 2 else '')
    return k

ALIASES = {'LI': 'ADDI', 'LIS': 'ADDIS', 'BLR': 'BCLR', 'BCTR': 'BCCTR', 'B': 'BC', 'MFFSR': 'MFFS', 'TLBID': 'TLBIA'}
def name_matches(base, spec, w):
    b = base.upper()
    if b == spec: return True
    if ALIASES.get(b) == spec: return True
    # simplified mnemonics of branches (BGE, BDNZ, ...) all denote BC/BCLR/BCCTR
    if spec in ('BC', 'BCLR', 'BCCTR') and b.startswith('B'): return True
    return False

def replay(clause, word, extra):
    ppc = P()
    print('word 0x%08x' % word)
    claims = [c for c in ppc.tab_mn if c.check(word)]
    print('claimed by', [c.__name__ for c in claims])
    if clause == 'uniq' or clause == 'uniq-enum':
        return 1 if len(claims) > 1 else 0
    if not claims: return 0
    cls = claims[0]
    try:
        i = cls_instance(cls, word)
    except Exception as ex:
        print('decode raises', repr(ex)); return 1 if clause == 'decode' else 0
    if clause == 'alias':
        import io, contextlib
        with contextlib.redirect_stdout(io.StringIO()):
            t0 = str(i); b0 = i.bin()
        others = [word ^ 1, word ^ (1 << 21), word ^ (1 << 16), word ^ (3 << 11)]
        for w2 in others:
            for c2 in ppc.tab_mn:
                if c2 is cls and c2.check(w2):
                    try: cls_instance(cls, w2)
                    except Exception: pass
        with contextlib.redirect_stdout(io.StringIO()):
            t1 = str(i); b1 = i.bin()
        print('before: 0x%08x %r   after decoding neighbours of the same class: 0x%08x %r' % (b0, t0, b1, t1))
        return 1 if (t0, b0) != (t1, b1) else 0
    if clause in ('reencode', 'reencode-enum'):
        b = i.bin(); print('bin() = 0x%08x' % b); return 1 if b != word else 0
    if clause == 'name':
        try: i.name2str(); return 0
        except Exception as ex: print('name2str raises', repr(ex)); return 1
    if clause in ('map', 'map-reserved'):
        base = i.name2str(); spec = spec_mnemonic(word)
        print('miasmX: %s   architecture: %s' % (base, spec))
        if clause == 'map-reserved': return 1 if spec is None else 0
        return 0 if (spec is None or name_matches(base, spec, word)) else 1
    try:
        with contextlib.redirect_stdout(io.StringIO()):
            txt = str(i)
        print('text:', txt)
    except Exception as ex:
        print('str() raises', repr(ex)); return 1 if clause == 'render' else 0
    if clause == 'render': return 0
    try:
        with contextlib.redirect_stdout(io.StringIO()):
            back = ppc.ppc_mn.asm(txt)
        bw = struct.unpack('>L', back[0])[0]
        print('assembles to 0x%08x' % bw)
        return 1 if bw != word else 0
    except Exception as ex:
        print('asm raises', repr(ex)); return 1

def main(argv):
    tier, seed, rest = common.parse_args(argv)
    common.use_repo()
    run = Run('C18', tier, seed, 'proof', 'cd /verif && ./vcheck C18 --tier %s' % tier)
    ob_layout(run)
    ob_bm_set(run)
    secs = ob_uniq(run)
    ob_reencode(run)
    n, dec, groups, t = ob_map_text(run, tier, seed)
    okc = {'map': 0}
    for (clause, key), (cnt, w, msg) in sorted(groups.items()):
        oid = 'C18:%s[%s]' % (clause, key)
        script = REPLAY % dict(verif=common.VERIF, repo=common.REPO, clause=clause, word=w, extra=[])
        rp = run.write_replay(oid, {'obligation': oid, 'word': '0x%08x' % w, 'detail': msg}, script)
        mode = 'COMP' if clause.startswith('map') or clause in ('uniq-enum', 'reencode-enum', 'decode', 'name', 'render') else 'BND'
        run.ob(oid, FAILED, mode, 'cpython-enum', detail='%d words, e.g. 0x%08x: %s' % (cnt, w, msg), witness=rp, confirmed=True, func=key.split(':')[0])
    run.bulk('enumerated words consistent with S-ppc, renderable and re-assembled to themselves', dec, 'BND', 'cpython-enum', t, BOUNDED_OK)
    run.evaluations = n
    run.distinct = dec
    run.extra.update({'words_enumerated': n, 'words_decoded': dec, 'classes': len(P().tab_mn), 'pairs': len(P().tab_mn) * (len(P().tab_mn) - 1) // 2})
    run.rule = ('uniq: all class pairs over a symbolic 32-bit word; reencode: one obligation per class over a symbolic word (all paths of the real __init__/bin); '
                'map/text: 64 primary x 1024 extended opcodes x Rc/LK bit x 5 register-field patterns, 5 immediates per primary, plus seeded random words')
    run.explanation = ('uniqueness and re-encoding are proved for all 2^32 words by z3 on formulas obtained by executing the real mask/decode/encode methods on a symbolic word; '
                       'the opcode-map comparison is complete over the enumerated opcode space against a hand-written PowerPC table; the text round trip is bounded')
    run.trust('z3'); run.trust('S-ppc table in checks/C18.py (PowerPC UISA opcode map, written by hand; words whose opcode is not in the table are outside the compared domain)')
    run.assume('SymWord proxy: CPython executes the real methods identically on the proxy and on ints (the proxy refuses indexing/int conversion)')
    return run.finish()

if __name__ == '__main__':
    sys.exit(main(sys.argv[1:]))
