"""SMT-A part of C13: key_expr / key_expr_compose, the sort key behind canonical operand order, by structural induction (checks/exprind.py).

Canonical order needs the key to be (1) totally ordered without TypeError and (2) injective up to ==: two operands get the same key exactly when
they are equal, otherwise the stable sort keeps them in input order and two orderings of the same operands are simplified to different trees.

Inductive step for class K (real body of key_expr on a node with opaque children; key_expr of a child is the opaque token KEY(child); induction
hypothesis: KEY(c) == KEY(c')  <=>  c == c', and keys of children are mutually comparable):
   shape      key_expr(K node) is a list whose first element is an integer tag, and tags of different classes differ (so keys of different classes
              are ordered by the tag and no later element is ever compared);
   comparable two keys of the same class have elements of the same kind (integer / string / child key / (int, child key, int) triple) at every
              common index, so list comparison never raises;
   injective  key(a) == key(b)  <=>  a and b have equal value fields and pairwise equal children   (twin execution on two independent K nodes).
Precondition (well-formed naming, stated in DESIGN): identifiers with the same name and size agree on is_reg - key_expr does not look at
is_reg, while ExprId.__eq__ does (natively: ExprId('a', 32, is_reg=True) and ExprId('a', 32) have the same key and are not equal).
Likewise constants are compared by their modint value only: operands sorted together have the same width (well-typed operator), so two
constants of different width and equal value never meet.  ExprAff is not an operand (key_expr: TODO) and is not covered.
"""
import sys, os, itertools
from vlib import common
from vlib.common import DISCHARGED, FAILED, DOWNGRADED, ENGINE_ERR, BOUNDED_OK
from checks import exprind
from checks.exprind import MOD, CHILD_CLASSES

REPLAY = '''
import sys, os
sys.path.insert(0, %(verif)r); sys.path.insert(0, %(repo)r)
sys.dont_write_bytecode = True
from checks import C13smt
sys.exit(C13smt.replay(%(data)r))
'''
SHAPES = [('ExprInt', [0]), ('ExprId', [0]), ('ExprCond', [3]), ('ExprMem', [1, 2]), ('ExprOp', [0, 1, 2, 3]), ('ExprSlice', [1]), ('ExprCompose', [1, 2, 3])]

class KeyTok(object):
    def __init__(self, obj): self.obj = obj
    def __repr__(self): return 'KEY(%s)' % getattr(self.obj, 'tag', '?')

def native(K, vec):
    """the three clauses on concrete K nodes over children of classes vec, and against nodes of every other class"""
    from checks import C15smt
    X = exprind.E()
    try:
        vs, a, kids = C15smt._variants(K, vec)
        ka = X.key_expr(a)
        if not (isinstance(ka, list) and isinstance(ka[0], int)): return 'key_expr(%s) = %r does not start with a class tag' % (a, ka)
        for (x, y, want, what) in vs:
            if what in ('is_reg', 'is_term') or (K == 'ExprInt' and what == 'size'): continue      # outside the preconditions (see module text)
            kx, ky = X.key_expr(x), X.key_expr(y)
            try:
                lt, gt = kx < ky, ky < kx
            except TypeError as ex:
                return 'keys of %s and %s are not comparable: %s' % (x, y, ex)
            if (kx == ky) != want: return 'key_expr(%s) %s key_expr(%s) although the nodes are %s (differ in: %s)' % (x, '==' if kx == ky else '!=', y, 'equal' if want else 'different', what)
            if not want and not lt and not gt: return 'keys of different nodes %s, %s are unordered' % (x, y)
        for K2 in CHILD_CLASSES:
            if K2 == K: continue
            b = exprind.concrete_child(K2, 5)
            kb = X.key_expr(b)
            try:
                if not ((ka < kb) != (kb < ka)): return 'keys of %s and %s are not strictly ordered' % (a, b)
            except TypeError as ex:
                return 'keys of %s and %s are not comparable: %s' % (a, b, ex)
    except Exception as ex:
        return 'key_expr step on %s%s raised %s: %s' % (K, list(vec), type(ex).__name__, ex)
    return None

def replay(data):
    common.use_repo()
    msg = native(data['K'], tuple(data['vec']))
    print(msg or 'contract holds on the concrete instances of this shape')
    return 1 if msg else 0

def ob_smt(run):
    import z3
    from pyvc import engine
    from pyvc.engine import is_sym
    from pyvc.runner import resolve
    from pyvc.contract import Contract, SObj
    from specs.duck import And, Or, Not
    from checks import C15smt
    QN = '%s:key_expr' % MOD
    mod, node, seg, path = resolve(QN)
    run.function(QN, seg, path, node.lineno)
    m2, n2, s2, p2 = resolve('%s:key_expr_compose' % MOD)
    run.function('%s:key_expr_compose' % MOD, s2, p2, n2.lineno)
    def tag(o): return getattr(o, 'tag', None) or ('o%d' % o.ident)
    def EQ(x, y):
        if x is y: return True
        if not isinstance(x, SObj) or not isinstance(y, SObj): return False
        a, b = sorted([tag(x), tag(y)])
        return z3.Bool('EQ(%s,%s)' % (a, b))
    IH = {QN: Contract(QN, result=lambda ctx, c, *rest: KeyTok(c)),
          '%s:key_expr_compose' % MOD: Contract('%s:key_expr_compose' % MOD, inline=True)}
    def build(K, vec, sfx=''):
        kids = []
        for i, nm in enumerate(vec):
            o = exprind.child(nm, 'c%d%s:%s' % (i, sfx, nm)); kids.append(o)
        sc = lambda nm: z3.Int(nm + sfx)
        if K == 'ExprInt':
            import miasmx.tools.modint as MI
            arg = SObj(MI.uint32, {'size': sc('argsize')}, fresh=False); object.__setattr__(arg, 'tag', 'arg' + sfx)
            f = {'arg': arg}
        elif K == 'ExprId': f = {'name': sc('name'), 'size': sc('size'), 'is_reg': z3.Bool('is_reg' + sfx)}
        elif K == 'ExprCond': f = {'cond': kids[0], 'src1': kids[1], 'src2': kids[2]}
        elif K == 'ExprMem': f = {'arg': kids[0], 'size': sc('size'), 'segm': kids[1] if len(kids) == 2 else None}
        elif K == 'ExprOp': f = {'op': '+', 'args': tuple(kids)}
        elif K == 'ExprSlice': f = {'arg': kids[0], 'start': sc('start'), 'stop': sc('stop')}
        elif K == 'ExprCompose': f = {'args': [(c, sc('lo%d' % i), sc('hi%d' % i)) for i, c in enumerate(kids)]}
        me = SObj(exprind.klass(K), f, fresh=False)
        object.__setattr__(me, 'tag', 'self' + sfx); object.__setattr__(me, 'kids', kids)
        return me
    def kind(x):
        if isinstance(x, KeyTok): return 'key'
        if isinstance(x, SObj): return 'obj:' + x.cls.__mro__[-2].__name__
        if isinstance(x, bool) or (is_sym(x) and z3.is_bool(x)): return 'bool'
        if isinstance(x, int) or (is_sym(x) and z3.is_int(x)): return 'int'
        if isinstance(x, str): return 'str'
        if isinstance(x, (tuple, list)): return type(x).__name__ + '(' + ','.join(kind(y) for y in x) + ')'
        return type(x).__name__
    def keq(a, b):
        """formula: two key values are equal"""
        if isinstance(a, KeyTok) and isinstance(b, KeyTok): return EQ(a.obj, b.obj)
        if isinstance(a, SObj) and isinstance(b, SObj): return EQ(a, b)
        if isinstance(a, (list, tuple)) and isinstance(b, (list, tuple)):
            if type(a) is not type(b) or len(a) != len(b): return False
            return And(*[keq(x, y) for x, y in zip(a, b)]) if a else True
        if is_sym(a) or is_sym(b): return a == b
        return type(a) is type(b) and a == b
    tags = {}
    n = [0]
    def emit(base, V, data):
        if V.unsupported:
            run.ob(base + ':generate', DOWNGRADED, 'SMT-A', 'pyvc', detail=V.unsupported, func=QN); return
        if not V.cover or (V.returns == 0 and not V.raises):
            run.ob(base + ':cover', ENGINE_ERR, 'SMT-A', 'z3', detail='no feasible path', func=QN); return
        for cl, d in sorted(V.clauses.items()):
            n[0] += 1
            oid = base + ':' + cl
            if d['status'] == 'unsat':
                run.ob(oid, DISCHARGED, 'SMT-A', 'z3', d['secs'], func=QN)
            elif d['status'] == 'sat':
                w = d['witness'] or {}
                msg = native(data['K'], tuple(data['vec']))
                rp = run.write_replay(oid, {'obligation': oid, 'inputs': w, 'verifier': d['detail']}, REPLAY % dict(verif=common.VERIF, repo=common.REPO, data=data))
                if msg is None:
                    run.ob(oid, FAILED, 'SMT-A', 'z3', d['secs'], detail='inductive step fails (%s; model %s); the concrete instances of this shape do not show it' % (d['detail'], w), witness=rp, confirmed=False, func=QN)
                else:
                    run.ob(oid, FAILED, 'SMT-A', 'z3', d['secs'], detail='%s; model %s; native: %s' % (d['detail'], w, msg), witness=rp, confirmed=True, func=QN)
            else:
                run.ob(oid, DOWNGRADED, 'SMT-A', 'z3', d['secs'], detail='solver unknown', func=QN)
    for K, arities in SHAPES:
        for ar in arities:
            for vec in exprind.vectors(ar):
                # the twin: same class; same arity, one more operand (ExprOp / ExprCompose), with / without segment (ExprMem)
                twins = [('same', vec)]
                if K in ('ExprOp', 'ExprCompose'): twins.append(('arity', tuple(vec) + ('ExprId',)))
                if K == 'ExprMem': twins.append(('segm', vec[:1] if ar == 2 else tuple(vec) + ('ExprId',)))
                for (what, vec2) in twins:
                    st = {}
                    def make_args(ctx, K=K, vec=vec, vec2=vec2, st=st):
                        me = build(K, vec); st['b'] = build(K, vec2, "'")
                        ins = dict((str(v), v) for o in (me, st['b']) for v in o.fields.values() if is_sym(v))
                        return [me], ins
                    def pre(ctx, me, K=K, st=st):
                        if K == 'ExprId':
                            b = st['b']
                            return Or(Not(And(me.fields['name'] == b.fields['name'], me.fields['size'] == b.fields['size'])), me.fields['is_reg'] == b.fields['is_reg'])
                        return True
                    def post(ctx, res, me, K=K, st=st, what=what):
                        b = st['b']
                        res2 = ctx.interp.run_function(node, [b], vars(mod))
                        if not (isinstance(res, list) and isinstance(res2, list) and res and isinstance(res[0], int) and not isinstance(res[0], bool) and res2[0] == res[0]):
                            return False
                        tags.setdefault(K, set()).add(res[0])
                        for x, y in zip(res, res2):
                            if kind(x) != kind(y): return False
                        ka, kb = C15kids(me), C15kids(b)
                        if what == 'same':
                            want = And(scalars(K, me, b), *[EQ(x, y) for x, y in zip(ka, kb)])
                        else:
                            want = False
                        k = keq(res, res2)
                        k = k if is_sym(k) else z3.BoolVal(bool(k)); want = want if is_sym(want) else z3.BoolVal(bool(want))
                        return k == want
                    def C15kids(o):
                        f = o.fields; Kn = o.cls.__name__
                        if Kn == 'ExprCond': return [f['cond'], f['src1'], f['src2']]
                        if Kn == 'ExprMem': return [f['arg']] + ([f['segm']] if isinstance(f.get('segm'), SObj) else [])
                        if Kn == 'ExprOp': return list(f['args'])
                        if Kn == 'ExprSlice': return [f['arg']]
                        if Kn == 'ExprCompose': return [x[0] for x in f['args']]
                        return []
                    def scalars(K, a, b):
                        cl = []
                        if K == 'ExprInt': cl += [EQ(a.fields['arg'], b.fields['arg'])]
                        if K == 'ExprId': cl += [a.fields[x] == b.fields[x] for x in ('name', 'size', 'is_reg')]
                        if K == 'ExprMem': cl.append(a.fields['size'] == b.fields['size'])
                        if K == 'ExprOp': cl.append(a.fields['op'] == b.fields['op'])
                        if K == 'ExprSlice': cl += [a.fields[x] == b.fields[x] for x in ('start', 'stop')]
                        if K == 'ExprCompose':
                            for x, y in zip(a.fields['args'], b.fields['args']): cl += [x[1] == y[1], x[2] == y[2]]
                        return And(*cl) if cl else True
                    top = Contract(QN, pre=pre, post=post)
                    V = engine.verify_function(QN, node, vars(mod), top, IH, make_args)
                    emit('C13:ind:key_expr[%s(%s)|%s]' % (K, ','.join(vec) or '-', what), V, {'K': K, 'vec': list(vec)})
    # tags of different classes differ (so that keys of different classes are ordered by the first element alone)
    flat = [(K, t) for K, ts in tags.items() for t in ts]
    clash = [(a, b) for a, b in itertools.combinations(flat, 2) if a[0] != b[0] and a[1] == b[1]]
    multi = [K for K, ts in tags.items() if len(ts) != 1]
    run.ob('C13:ind:key_expr:class-tags-distinct', FAILED if (clash or multi) else DISCHARGED, 'COMP', 'pyvc', confirmed=bool(clash or multi),
           detail=('class tags clash: %s %s' % (clash, multi)) if (clash or multi) else None, func=QN)
    # native twin
    cnt = nbad = 0
    for K, arities in SHAPES:
        for ar in arities:
            vs = list(itertools.product(CHILD_CLASSES, repeat=ar)) if ar <= 2 else exprind.vectors(ar)
            for vec in vs:
                cnt += 1
                msg = native(K, vec)
                if msg:
                    nbad += 1
                    if nbad <= 4:
                        oid = 'C13:ind:key_expr[%s(%s)]:twin' % (K, ','.join(vec))
                        rp = run.write_replay(oid, {'obligation': oid}, REPLAY % dict(verif=common.VERIF, repo=common.REPO, data={'K': K, 'vec': list(vec)}))
                        run.ob(oid, FAILED, 'BND', 'cpython-enum', detail=msg, witness=rp, confirmed=True, func=QN)
    run.bulk('key_expr steps on concrete nodes for every child-class vector (native twin)', cnt - nbad, 'BND', 'cpython-enum', 0.0, BOUNDED_OK)
    return n[0]
