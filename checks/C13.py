"""C13 - simplifier output is canonical: idempotent, order-insensitive, seed-independent.

Contracts (bounded, on the C05 shapes):
  idem : expr_simp(fresh copy of expr_simp(e)) is structurally identical to expr_simp(e)
  perm : for every permutation and re-association of the operands of + * ^ & | : identical result (structure and str)
  seed : str(expr_simp(e)), lifted semantics strings, dump_id()/dump_mem() are identical in processes with
         PYTHONHASHSEED in {0,1,2,3,random}   (a property of processes: bounded over configurations)
Proved sub-contract (SMT-A style closed check over the key space): key_expr keys are totally ordered lists and
equal keys imply structurally equal expressions on the enumerated operand pool (COMP).
"""
import sys, os, time, random, itertools, multiprocessing, traceback, zlib, subprocess, hashlib, json
from vlib import common
from vlib.common import Run, DISCHARGED, FAILED, BOUNDED_OK, UNDECIDED, DOWNGRADED, ENGINE_ERR, Ob

REPLAY = '''
import sys, os
sys.path.insert(0, %(verif)r); sys.path.insert(0, %(repo)r)
sys.dont_write_bytecode = True
sys.setrecursionlimit(10000)
from bounded import gen
from checks.C13 import build_x
from miasmx.expression.expression_helper import expr_simp
d1, d2 = %(d1)r, %(d2)r
r1 = expr_simp(build_x(d1))
if d2 is None:
    r2 = expr_simp(build_x(gen.undesc(r1)) if not %(xdesc)r else build_x(%(xdesc)r))
    print('simplified once :', r1); print('simplified twice:', r2)
else:
    r2 = expr_simp(build_x(d2))
    print('spelling 1:', build_x(d1), '->', r1); print('spelling 2:', build_x(d2), '->', r2)
from checks.C13 import undesc_x
sys.exit(1 if (undesc_x(r1) != undesc_x(r2) or str(r1) != str(r2)) else 0)
'''

# extended descriptions: ('smem', seg, addrdesc, w) = segmented memory cell
def build_x(d):
    from bounded import gen
    from miasmx.expression import expression as E
    k = d[0]
    if k == 'smem':
        seg = E.ExprId(d[1], 16, is_reg=True) if isinstance(d[1], str) else build_x(d[1])       # a register name or a selector expression
        return E.ExprMem(build_x(d[2]), d[3], seg)
    if k == 'mem': return E.ExprMem(build_x(d[1]), d[2])
    if k == 'op': return E.ExprOp(d[1], *[build_x(x) for x in d[2]])
    if k == 'slice': return E.ExprSlice(build_x(d[1]), d[2], d[3])
    if k == 'compose': return E.ExprCompose([(build_x(x), lo, hi) for (x, lo, hi) in d[1]])
    if k == 'cond': return E.ExprCond(build_x(d[1]), build_x(d[2]), build_x(d[3]))
    return gen.build(d)

def undesc_x(e):
    n = e.__class__.__name__
    if n == 'ExprMem' and e.segm is not None:
        return ('smem', e.segm.name if e.segm.__class__.__name__ == 'ExprId' else undesc_x(e.segm), undesc_x(e.arg), e.size)
    if n == 'ExprMem': return ('mem', undesc_x(e.arg), e.size)
    if n == 'ExprOp': return ('op', e.op, tuple(undesc_x(a) for a in e.args))
    if n == 'ExprSlice': return ('slice', undesc_x(e.arg), e.start, e.stop)
    if n == 'ExprCompose': return ('compose', tuple((undesc_x(x[0]), x[1], x[2]) for x in e.args))
    if n == 'ExprCond': return ('cond', undesc_x(e.cond), undesc_x(e.src1), undesc_x(e.src2))
    from bounded import gen
    return gen.undesc(e)

def operand_pool(w):
    from bounded import gen
    a, b = gen.ids(w)
    pool = [a, b, ('int', w, 1), ('int', w, (1 << w) - 1 if w > 1 else 1)]
    if w >= 8:
        pool += [('mem', ('id', 'p32', 32), w), ('smem', 'ds', ('id', 'p32', 32), w), ('smem', 'es', ('id', 'p32', 32), w),
                 ('smem', 'fs', ('id', 'p32', 32), w)]
    z = ('id', 'z1', 1)
    pool += [('cond', z, a, b), ('cond', z, a, ('int', w, 1)), ('cond', z, b, a),
             ('op', '-', (a,)), ('op', 'parity', (b,)) if w > 1 else ('op', '-', (b,)),
             ('op', '<<', (a, ('int', w, 1))), ('op', '>>>', (b, a)), ('op', '>>', (a, b)), ('op', '>>', (b, a))]
    for w2 in gen.WIDTHS:
        if w2 > w:
            pool.append(('slice', ('id', 'a%d' % w2, w2), 0, w))
            pool.append(('slice', ('id', 'a%d' % w2, w2), w2 - w, w2))
            break
    for split in gen.compose_splits(w)[:1]:
        pos, slots = 0, []
        for i, s in enumerate(split):
            slots.append((('id', 'c%d_%d' % (s, i), s), pos, pos + s)); pos += s
        pool.append(('compose', tuple(slots)))
    if w >= 8:
        # two concatenations with the same bit layout and different contents (the order key must look inside)
        pool.append(('compose', ((('id', 'zf', 1), 0, 1), (('id', 'h%d' % (w - 1), w - 1), 1, w))))
        pool.append(('compose', ((('id', 'cf', 1), 0, 1), (('id', 'h%d' % (w - 1), w - 1), 1, w))))
    return pool

def bracketings(op, xs):
    """all re-associations (binary/n-ary nestings) of the operand sequence xs, order kept"""
    if len(xs) == 1:
        return [xs[0]]
    out = [('op', op, tuple(xs))]
    n = len(xs)
    if n >= 3:
        # nest one contiguous group
        for i in range(n):
            for j in range(i + 2, n + 1):
                if j - i == n: continue
                inner = ('op', op, tuple(xs[i:j]))
                out.append(('op', op, tuple(xs[:i]) + (inner,) + tuple(xs[j:])))
    if n == 4:
        out.append(('op', op, (('op', op, tuple(xs[:2])), ('op', op, tuple(xs[2:])))))
        out.append(('op', op, (('op', op, (('op', op, tuple(xs[:2])), xs[2])), xs[3])))
        out.append(('op', op, (xs[0], ('op', op, (xs[1], ('op', op, tuple(xs[2:])))))))
    return out

def perm_groups(tier, seed):
    from bounded import gen
    rng = random.Random(seed + 13)
    groups = []
    widths = (8, 32) if tier == 'quick' else (1, 8, 16, 32, 64)
    for w in widths:
        pool = operand_pool(w)
        for op in gen.ASSOC:
            for k in (2, 3):
                combos = list(itertools.combinations(range(len(pool)), k))
                if tier == 'quick' and k == 3:
                    combos = [c for i, c in enumerate(combos) if i % 4 == 0]
                for c in combos:
                    groups.append((op, tuple(pool[i] for i in c)))
            n4 = 40 if tier == 'quick' else 400
            for _ in range(n4):
                c = rng.sample(range(len(pool)), 4)
                groups.append((op, tuple(pool[i] for i in c)))
    return groups

def check_group(g):
    """all permutations x bracketings of one operand multiset must simplify to the identical expression"""
    from miasmx.expression.expression_helper import expr_simp
    op, xs = g
    ref = None
    n = 0
    for perm in itertools.permutations(xs):
        for d in bracketings(op, list(perm)):
            n += 1
            r = expr_simp(build_x(d))
            key = (undesc_x(r), str(r))
            if ref is None:
                ref = (key, d)
            elif key != ref[0]:
                return n, ('perm', 'operand order/nesting changes the simplified form: %s -> %s but %s -> %s' % (
                    build_x(ref[1]), expr_simp(build_x(ref[1])), build_x(d), r), {'d1': ref[1], 'd2': d, 'xdesc': None})
    return n, None

def special_sets(w):
    """(name, variants): spellings of ONE operand multiset that the small groups cannot reach - long operand lists (more than 8 operands with a
       duplicate / an opposite pair), operands that differ only far below the root (pointer chains of 40 links)"""
    out = []
    xs = [('id', 'x%d_%d' % (w, i), w) for i in range(8)]
    for op in ('+', '^', '|', '&', '*'):
        extra = [xs[0], ('op', '-', (xs[1],))] if op == '+' else [xs[0], xs[3]]
        L = xs + extra
        vs = [('op', op, tuple(L)), ('op', op, tuple(reversed(L))),
              ('op', op, (('op', op, tuple(L[:5])), ('op', op, tuple(L[5:])))),
              ('op', op, (('op', op, (L[0], L[8])), ('op', op, (L[1], L[9])), ('op', op, tuple(L[2:8])))),
              ('op', op, tuple(L[5:] + L[:5]))]
        out.append(('long-%s' % op, vs))
    if w == 32:
        def chain(leaf, n):
            d = leaf
            for _ in range(n):
                d = ('mem', ('op', '+', (d, ('int', 32, 4))), 32)
            return d
        for n in (16, 40):
            cx, cy = chain(('id', 'x32_0', 32), n), chain(('id', 'x32_1', 32), n)
            for op in ('+', '^'):
                out.append(('deep%d-%s' % (n, op), [('op', op, (cx, cy)), ('op', op, (cy, cx)), ('op', op, (cx, cy, xs[2])), ('op', op, (xs[2], cy, cx))][:2]))
                out.append(('deep%d-%s-3' % (n, op), [('op', op, (cx, cy, xs[2])), ('op', op, (xs[2], cy, cx)), ('op', op, (cy, ('op', op, (xs[2], cx))))]))
    return out

def check_special(it):
    from miasmx.expression.expression_helper import expr_simp
    name, vs = it
    ref = None
    n = 0
    for d in vs:
        n += 1
        r = expr_simp(build_x(d))
        key = (undesc_x(r), str(r))
        if ref is None: ref = (key, d)
        elif key != ref[0]:
            return n, ('perm-' + name, 'operand order/nesting changes the simplified form (%s): %s -> %s but %s -> %s' % (
                name, str(build_x(ref[1]))[:200], str(expr_simp(build_x(ref[1])))[:200], str(build_x(d))[:200], str(r)[:200]), {'d1': ref[1], 'd2': d, 'xdesc': None})
    return n, None

def contexts(w):
    """enclosing constructors: a permuted operand list must also simplify identically BELOW another node (visit() of every node class)"""
    a = ('id', 'q%d' % w, w)
    c1 = ('id', 'c1', 1)
    out = [('cond-else', lambda d: ('cond', c1, a, d)), ('cond-then', lambda d: ('cond', c1, d, a)),
           ('minus', lambda d: ('op', '-', (a, d))), ('neg', lambda d: ('op', '-', (d,))), ('shift', lambda d: ('op', '<<', (d, ('int', w, 1)))),
           ('assoc-other', lambda d: ('op', '^', (('op', '-', (d,)), a)))]
    if w > 1:
        out.append(('cond-cond', lambda d: ('cond', ('slice', d, 0, 1), a, a if False else ('int', w, 0))))
        out.append(('slice', lambda d: ('slice', d, 0, max(1, w // 2))))
    if w == 32:
        out.append(('mem', lambda d: ('mem', d, 8)))
        out.append(('mem-in-op', lambda d: ('op', '+', (('mem', d, 32), a))))
        # a slice of a memory read, not starting at bit 0 (the low slices are rewritten to narrower reads): the address is still reached
        out.append(('slice-of-mem', lambda d: ('slice', ('mem', d, 32), 8, 16)))
        out.append(('topbit-of-mem', lambda d: ('slice', ('mem', d, 32), 31, 32)))
        out.append(('slice-of-cond-of-mem', lambda d: ('slice', ('cond', c1, ('mem', d, 32), ('id', 'q32', 32)), 8, 16)))
        out.append(('compose-of-mem', lambda d: ('compose', ((('mem', d, 16), 0, 16), (('id', 'q16', 16), 16, 32)))))
    if w in (8, 16, 32):
        out.append(('compose', lambda d: ('compose', ((d, 0, w), (('int', w, 0), w, 2 * w)))))
    # a computed segment selector (any expression may stand there)
    out.append(('selector', lambda d: ('smem', d, ('id', 'p32', 32), 32)))
    return out

def dwidth_x(d):
    from bounded import gen
    return d[3] if d[0] == 'smem' else gen.dwidth(d)

def check_group_ctx(g):
    """the same, below each enclosing constructor (two orders and one nesting suffice per context)"""
    from miasmx.expression.expression_helper import expr_simp
    op, xs = g
    w = dwidth_x(xs[0])
    perms = list(itertools.permutations(xs))
    variants = [('op', op, tuple(perms[0])), ('op', op, tuple(perms[-1]))]
    if len(xs) >= 3:
        variants.append(('op', op, (perms[1][0], ('op', op, tuple(perms[1][1:])))))
    n = 0
    for cname, ctx in contexts(w):
        ref = None
        for d in variants:
            n += 1
            t = ctx(d)
            r = expr_simp(build_x(t))
            key = (undesc_x(r), str(r))
            if ref is None: ref = (key, t)
            elif key != ref[0]:
                return n, ('perm-' + cname, 'operand order/nesting below %s changes the simplified form: %s -> %s but %s -> %s' % (
                    cname, build_x(ref[1]), expr_simp(build_x(ref[1])), build_x(t), r), {'d1': ref[1], 'd2': t, 'xdesc': None})
    return n, None

def idem_extra():
    """concatenations of adjacent slices of one source (the slice-merging path), with and without further parts"""
    out = []
    for w in (16, 32):
        x = ('id', 'x%d' % w, w); y = ('id', 'y16', 16); z8 = ('id', 'z8', 8)
        h = w // 2
        out.append(('compose', ((('slice', x, 0, h), 0, h), (('slice', x, h, w), h, w), (y, w, w + 16))))
        out.append(('compose', ((y, 0, 16), (('slice', x, 0, h), 16, 16 + h), (('slice', x, h, w), 16 + h, 16 + w))))
        out.append(('compose', ((('slice', x, 0, 8), 0, 8), (('slice', x, 8, 16), 8, 16), (z8, 16, 24))))
        if h > 8: out.append(('compose', ((('slice', x, 0, 8), 0, 8), (('slice', x, 8, h), 8, h), (('slice', x, h, w), h, w))))
        out.append(('op', '^', (('compose', ((('slice', x, 0, 8), 0, 8), (('slice', x, 8, 16), 8, 16))), ('id', 'w16', 16))))
        out.append(('compose', ((('slice', x, 4, 8), 0, 4), (('slice', x, 8, 12), 4, 8), (z8, 8, 16))))
    return out

def check_idem(d):
    from miasmx.expression.expression_helper import expr_simp
    r1 = expr_simp(build_x(d))
    x = undesc_x(r1)
    r2 = expr_simp(build_x(x))      # a fresh copy: the .simp memo would make the test vacuous
    if undesc_x(r2) != x or str(r2) != str(r1):
        return ('idem', 'not a fixpoint: %s -> %s -> %s' % (build_x(d), r1, r2), {'d1': d, 'd2': None, 'xdesc': x})
    return None

def _work(job):
    kind, items = job
    common.use_repo()
    sys.setrecursionlimit(10000)
    out = {'n': 0, 'ok': 0, 'fails': []}
    for it in items:
        try:
            if kind == 'perm':
                n, f = check_group(it)
                if f is None:
                    n2, f = check_group_ctx(it)
                    n += n2
                out['n'] += n
                if f is None: out['ok'] += 1
                else: out['fails'].append(('%s[%s over %s]' % (f[0] if f[0].startswith('perm-') else 'perm', it[0], ','.join(dstr_x(x) for x in it[1])), 'perm') + f[1:])
            elif kind == 'special':
                n, f = check_special(it)
                out['n'] += n
                if f is None: out['ok'] += 1
                else: out['fails'].append(('%s[w%d]' % (f[0], dwidth_x(it[1][0])), 'perm') + f[1:])
            else:
                out['n'] += 1
                f = check_idem(it)
                if f is None: out['ok'] += 1
                else: out['fails'].append(('idem[%s]' % dstr_x(it),) + f)
        except Exception:
            out['fails'].append(('%s[%s]' % (kind, str(it)[:200]), 'crash', traceback.format_exc()[-600:], None))
    return out

def dstr_x(d):
    from bounded import gen
    if d[0] == 'smem':
        return '%s:@%d[%s]' % (d[1], d[3], dstr_x(d[2]))
    if d[0] == 'op':
        if len(d[2]) == 1: return '(%s %s)' % (d[1], dstr_x(d[2][0]))
        return '(' + (' %s ' % d[1]).join(dstr_x(x) for x in d[2]) + ')'
    if d[0] == 'cond': return '(%s?%s:%s)' % (dstr_x(d[1]), dstr_x(d[2]), dstr_x(d[3]))
    if d[0] == 'mem': return '@%d[%s]' % (d[2], dstr_x(d[1]))
    if d[0] == 'slice': return '%s[%d:%d]' % (dstr_x(d[1]), d[2], d[3])
    if d[0] == 'compose': return '{' + ','.join('%s,%d,%d' % (dstr_x(x), lo, hi) for (x, lo, hi) in d[1]) + '}'
    return gen.dstr(d)

SEED_SCRIPT = r'''
import sys, hashlib
sys.path.insert(0, %(verif)r); sys.path.insert(0, %(repo)r)
sys.dont_write_bytecode = True
sys.setrecursionlimit(10000)
import binascii
from checks import C13, C05
from bounded import gen
from miasmx.expression.expression_helper import expr_simp
h = hashlib.sha256()
lines = []
def emit(tag, s):
    lines.append('%%s\t%%s' %% (tag, s))
trees = C05.corpus('quick', %(seed)d)[:%(ntrees)d]
for d in trees:
    try:
        emit('T ' + gen.dstr(d), str(expr_simp(gen.build(d))))
    except Exception as ex:
        emit('T ' + gen.dstr(d), 'EXC ' + type(ex).__name__)
for g in C13.perm_groups('quick', %(seed)d)[::%(gstep)d]:
    d = ('op', g[0], g[1])
    emit('G ' + C13.dstr_x(d), str(expr_simp(C13.build_x(d))))
# lifted semantics and machine dumps of integer-core instructions
from miasmx.arch.ia32_arch import x86mnemo
from miasmx.tools import emul_helper
from miasmx.tools.modint import uint32
from miasmx.expression.expression import ExprInt
code = ['01d8','29c8','11d0','19cb','f7d9','31d2','0fc1d1','f7d2','d3c8','c1c006','09d0','21d0','8b4424 04'.replace(' ',''),'894c2408','50','5b',
        '0fb6c3','0fbfc8','8d0488','d3e0','c1e803','d1f8','0fa4d005','0fadd0','f7e3','f7fb','0fafc3','0fbcc3','0fbdc3','0f94c0','0f4cc3',
        '0fb1cb','a4','ab','ae','c9','e802000000','c3','7402','e2fe','9c','9d','60','61','86c4','0fc8','98','99','d7','0fa3c3','0fabc3']
machine = emul_helper.x86_machine()
for hx in code:
    try:
        ins = x86mnemo.dis(binascii.unhexlify(hx))
        emit('I ' + hx, str(ins))
        exprs = emul_helper.get_instr_expr(ins, ExprInt(uint32(0x1000)), [])
        emit('L ' + hx, ' ; '.join(str(x) for x in exprs))
        emit('S ' + hx, ' ; '.join(str(expr_simp(x)) for x in exprs))
        if hx not in ('a4','ab','ae'):
            emul_helper.emul_lines(machine, [ins])
    except Exception as ex:
        emit('I ' + hx, 'EXC ' + type(ex).__name__)
emit('DUMP_ID', ' | '.join(machine.dump_id()))
try:
    emit('DUMP_MEM', ' | '.join(machine.dump_mem()))
except Exception as ex:
    emit('DUMP_MEM', 'EXC ' + type(ex).__name__)
out = open(sys.argv[1], 'w')
out.write('\n'.join(lines))
out.close()
'''

def seed_runs(run, tier, seed):
    tmp = common.private_tmp()
    seeds = ['0', '1', '2', '3', 'random'] if tier == 'quick' else ['0', '1', '2', '3', '4', '5', '6', '7', 'random', 'random']
    script = os.path.join(tmp, 'seedrun.py')
    open(script, 'w').write(SEED_SCRIPT % dict(verif=common.VERIF, repo=common.REPO, seed=seed,
                                                ntrees=6000 if tier == 'quick' else 60000, gstep=3 if tier == 'quick' else 1))
    procs = []
    for i, s in enumerate(seeds):
        env = dict(os.environ)
        env['PYTHONHASHSEED'] = s
        env['PYTHONPATH'] = '%s:%s' % (common.VERIF, common.REPO)
        env['TMPDIR'] = tmp
        outp = os.path.join(tmp, 'seed_%d.txt' % i)
        procs.append((s, outp, subprocess.Popen([common.VT_PY, '-B', script, outp], env=env, stdout=subprocess.PIPE, stderr=subprocess.PIPE)))
    outs = []
    for s, outp, p in procs:
        so, se = p.communicate(timeout=1500)
        if p.returncode != 0 or not os.path.exists(outp):
            run.ob('C13:seed[%s]:run' % s, ENGINE_ERR, 'BND', 'cpython-subprocess', detail=(se.decode()[-600:]))
            return 0
        outs.append((s, open(outp).read().split('\n')))
    ref = outs[0][1]
    nlines = len(ref)
    bad = {}
    for s, lines in outs[1:]:
        if len(lines) != nlines:
            bad['<line count>'] = (s, str(len(lines)), str(nlines))
            continue
        for a, b in zip(ref, lines):
            if a != b:
                tag = a.split('\t')[0]
                if tag not in bad:
                    bad[tag] = (s, a.split('\t', 1)[-1][:300], b.split('\t', 1)[-1][:300])
    for tag, (s, a, b) in list(bad.items())[:50]:
        oid = 'C13:seed[%s]:identical' % tag
        payload = {'obligation': oid, 'hashseed_0': a, 'hashseed_%s' % s: b,
                   'how_to_replay': 'run the expression through expr_simp/str in two processes with PYTHONHASHSEED=0 and PYTHONHASHSEED=%s' % s}
        rp = run.write_replay(oid, payload)
        run.ob(oid, FAILED, 'BND', 'cpython-subprocess', detail='output differs between PYTHONHASHSEED=0 and %s: %r vs %r' % (s, a[:120], b[:120]),
               witness=rp, confirmed=True, func='expr_simp/str')
    run.bulk('rendered outputs identical across %d hash seeds' % len(seeds), nlines - len(bad), 'BND', 'cpython-subprocess', 0.0, BOUNDED_OK)
    return nlines * len(seeds)

def key_order_laws(run, tier):
    """COMP: on the operand pools, key_expr yields comparable keys (no TypeError), and equal keys imply equal structure
       (so that sorting by key is a canonical order).  Complete over the pool x pool pairs."""
    from miasmx.expression import expression as E
    from bounded import gen
    t0 = time.time()
    n = 0
    bad = []
    for w in gen.WIDTHS:
        pool = operand_pool(w)
        objs = [(d, build_x(d)) for d in pool]
        keys = []
        for d, o in objs:
            try:
                keys.append((d, E.key_expr(o)))
            except Exception as ex:
                bad.append(('key_expr raises %s on %s' % (type(ex).__name__, dstr_x(d)), d, None))
        for (d1, k1), (d2, k2) in itertools.combinations(keys, 2):
            n += 1
            try:
                lt, gt = k1 < k2, k2 < k1
            except TypeError as ex:
                bad.append(('keys not comparable: %s vs %s (%s)' % (dstr_x(d1), dstr_x(d2), ex), d1, d2))
                continue
            if not lt and not gt and d1 != d2:
                bad.append(('distinct operands with equal sort key: %s vs %s' % (dstr_x(d1), dstr_x(d2)), d1, d2))
    return n, bad, time.time() - t0

def main(argv):
    tier, seed, rest = common.parse_args(argv)
    common.use_repo()
    sys.setrecursionlimit(10000)
    run = Run('C13', tier, seed, 'other', 'cd /verif && ./vcheck C13 --tier %s' % tier)
    from bounded import gen
    from checks import C05
    groups = perm_groups(tier, seed)
    trees = C05.corpus(tier, seed)
    if tier == 'quick':
        trees = trees[::3]
    trees = idem_extra() + trees
    spec = [x for w in ((8, 32) if tier == 'quick' else (8, 16, 32, 64)) for x in special_sets(w)]
    jobs = [('perm', groups[i:i + 40]) for i in range(0, len(groups), 40)] + [('idem', trees[i:i + 400]) for i in range(0, len(trees), 400)] + [('special', spec[i:i + 4]) for i in range(0, len(spec), 4)]
    with multiprocessing.get_context('fork').Pool(min(16, os.cpu_count() or 4)) as pool:
        results = pool.map(_work, jobs, chunksize=1)
    evals = sum(r['n'] for r in results)
    run.bulk('permutation/re-association groups and idempotence trees', sum(r['ok'] for r in results), 'BND', 'cpython-enum', 0.0, BOUNDED_OK)
    nf = 0
    for r in results:
        for f in r['fails']:
            key, clause, detail, wit = f
            oid = 'C13:expr_simp:%s' % key
            if clause == 'crash':
                run.ob(oid, ENGINE_ERR, 'BND', 'cpython-enum', detail=detail); continue
            nf += 1
            if nf > 30:
                run.ob(oid, FAILED, 'BND', 'cpython-enum', detail=detail, witness={'d1': repr(wit['d1'])}, confirmed=True, func='expr_simp'); continue
            script = REPLAY % dict(verif=common.VERIF, repo=common.REPO, d1=wit['d1'], d2=wit['d2'], xdesc=wit['xdesc'])
            rp = run.write_replay(oid, {'obligation': oid, 'detail': detail}, script)
            rc, outp = common.native_run(rp, timeout=60)
            if rc == 1:
                run.ob(oid, FAILED, 'BND', 'cpython-enum', detail=detail, witness=rp, confirmed=True, func='expr_simp')
            else:
                run.ob(oid, ENGINE_ERR, 'BND', 'cpython-enum', detail='native replay does not confirm (rc=%s): %s | %s' % (rc, detail, outp[-300:]))
    n, bad, secs = key_order_laws(run, tier)
    for (msg, d1, d2) in bad:
        oid = 'C13:key_expr:%s' % msg[:150]
        rp = run.write_replay(oid, {'obligation': oid, 'd1': repr(d1), 'd2': repr(d2), 'detail': msg,
                                    'replay': 'from checks.C13 import build_x; from miasmx.expression.expression import key_expr; key_expr(build_x(d1)) vs key_expr(build_x(d2))'})
        run.ob(oid, FAILED, 'COMP', 'cpython', detail=msg, witness=rp, confirmed=True, func='key_expr')
    run.bulk('key_expr order laws on operand pool pairs', n - len(bad), 'COMP', 'cpython', secs, DISCHARGED)
    # inductive steps of key_expr on the real body (Engine A): class tags, comparability, injectivity up to ==
    try:
        from checks import C13smt
        nind = C13smt.ob_smt(run)
    except Exception as ex:
        import traceback
        run.ob('C13:ind:driver', ENGINE_ERR, 'SMT-A', 'pyvc', detail='%s: %s | %s' % (type(ex).__name__, ex, traceback.format_exc()[-400:]))
    evals += seed_runs(run, tier, seed)
    run.evaluations = evals
    run.distinct = len(groups) + len(trees)
    run.rule = ('perm: operand multisets of size 2,3 (all combinations of a %d-element pool per width: ids, constants, plain and segmented memory cells, conditionals sharing '
                'condition/arm, slices, composes, non-associative sub-terms) and seeded 4-subsets x every permutation x every re-association; idem: C05 corpus trees, '
                'second simplification on a fresh structural copy; seed: sub-processes with PYTHONHASHSEED in {0,1,2,3,random}; non-trivial = distinct groups + trees' % len(operand_pool(32)))
    run.explanation = ('bounded run-time contracts on expr_simp (idempotence, order-insensitivity) over enumerated shapes, plus process-level determinism across hash seeds; '
                       'no contract on a single call can express seed independence (DESIGN 6), and canonicity would follow only from a functional proof of _expr_simp that is not attempted')
    run.samples = ['%s over %s' % (g[0], [dstr_x(x) for x in g[1]]) for g in groups[:3] + groups[-3:]]
    run.trust('CPython sub-processes honour PYTHONHASHSEED')
    run.assume('bounded in operand pool, arity <= 4, tree shapes of the C05 generator, 5 hash seeds')
    run.assume('induction steps of key_expr (C13smt): identically named identifiers of one size agree on is_reg; constants sorted together have one width; finite trees')
    return run.finish()

if __name__ == '__main__':
    sys.exit(main(sys.argv[1:]))
