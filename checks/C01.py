"""C01 - x86 decoding agrees with the IA-32 instruction set.

Contract on x86_mn._dis (BND, structurally exhaustive): result => abstract(result) == spec_decode(bytes)   (specs/x86dec.py, written from the
SDM opcode maps): length, mnemonic, per operand kind/register/base/index/scale/displacement/segment/immediate/size; .l == bytes consumed and
.b == that prefix of the input.  Enumeration: every opcode path of the decoder trie x prefix class x every ModRM x SIB grid x data paddings.
Proved helper contracts (COMP, complete): the ModRM/SIB tables built by init_pre_modrm against SDM tables 2-1..2-3 (all 256 ModRM x 256 SIB
entries, 32- and 16-bit), and the reverse table fd_afs.
"""
import sys, os, time, random, itertools, multiprocessing, traceback, binascii, collections, re
from vlib import common
from vlib.common import Run, DISCHARGED, FAILED, BOUNDED_OK, UNDECIDED, DOWNGRADED, ENGINE_ERR, Ob

REPLAY = '''
import sys, os
sys.path.insert(0, %(verif)r); sys.path.insert(0, %(repo)r)
sys.dont_write_bytecode = True
from checks import C01
sys.exit(C01.replay(%(hexbytes)r, %(clause)r))
'''

CCMAP = {}
for i, names in enumerate([["o"], ["no"], ["nae", "c", "b"], ["nb", "nc", "ae"], ["z", "e"], ["nz", "ne"], ["be", "na"], ["a", "nbe"], ["s"], ["ns"], ["pe", "p"], ["po", "np"],
                           ["nge", "l"], ["nl", "ge"], ["ng", "le"], ["nle", "g"]]):
    for n in names: CCMAP[n] = i
# pure naming conventions (documented): miasmX name -> SDM name used by the spec
ALIAS = {'pause': 'pause', 'sal': 'shl', 'iretd': 'iret', 'setalc': 'salc', 'icebp': 'int1', 'int1': 'int1', 'pushaw': 'pusha', 'popaw': 'popa', 'pushfw': 'pushf', 'popfw': 'popf', 'fwait': 'wait',
         'loopz': 'loope', 'loopnz': 'loopne', 'repz': 'rep', 'xlatb': 'xlat', 'retn': 'ret', 'int 3': 'int3'}

def canon_mnem(n):
    n = n.lower()
    n = ALIAS.get(n, n)
    for pre in ('j', 'set', 'cmov'):
        if n.startswith(pre) and n[len(pre):] in CCMAP and not (pre == 'j' and n in ('jmp', 'jmpf', 'jecxz', 'jcxz')):
            return '%s<cc%d>' % (pre, CCMAP[n[len(pre):]])
    return n

SZ = {'u08': 8, 'u16': 16, 'u32': 32, 'f32': 32, 'f64': 64, 'f80': 80, 'mm': 64, 'xmm': 128, 'u64': 64}

def miasm_abstract(ins):
    """abstract operands read from the decoded operand dictionaries (independent of the Intel printer)"""
    from miasmx.arch.ia32_reg import x86_afs
    ops = []
    adsz = {'u32': 32, 'u16': 16}.get(ins.admode, 32)
    for a in ins.arg:
        regs = [(k, v) for k, v in a.items() if type(k) == int]
        if a.get(x86_afs.ad):
            ad = a.get(x86_afs.ad)
            size = None if ad is True else SZ.get(ad, ad)
            coef = {}
            for k, v in regs: coef[k] = coef.get(k, 0) + v
            disp = int(a[x86_afs.imm]) if x86_afs.imm in a else 0
            ops.append(('mem', coef, disp, a.get(x86_afs.segm), size))
        elif x86_afs.imm in a:
            v = a[x86_afs.imm]
            ops.append(('imm', int(v), getattr(v, 'size', None)))
        elif x86_afs.symb in a:
            ops.append(('sym',))
        else:
            if len(regs) != 1:
                ops.append(('?', str(a))); continue
            n = regs[0][0]
            sz = a.get(x86_afs.size)
            if sz == x86_afs.size_seg or (0x400 <= n < 0x500): ops.append(('sreg', n & 7))
            elif 0x100 <= n < 0x200: ops.append(('creg', n & 7))
            elif 0x200 <= n < 0x300: ops.append(('dreg', n & 7))
            elif sz in ('f32', 'f64') and n < 8: ops.append(('st', n))
            elif n >= 0x40: ops.append(('simd', n))
            else: ops.append(('reg', n, SZ.get(sz, sz)))
    return ops

def spec_norm(sp):
    ops = []
    for o in sp['ops']:
        if o[0] == 'mem':
            _, base, index, scale, disp, seg, size, adsize = o
            coef = {}
            if base is not None: coef[base] = coef.get(base, 0) + 1
            if index is not None: coef[index] = coef.get(index, 0) + scale
            ops.append(('mem', coef, disp, seg, size))
        elif o[0] == 'rel':
            ops.append(('imm', o[1], o[2]))
        elif o[0] == 'far':
            ops.append(('far', o[1], o[2]))
        else:
            ops.append(o)
    return ops

X87_IMPLICIT = True

def compare(ins, sp, bs):
    """list of (clause, detail) disagreements between miasmX's decoding and the spec's"""
    out = []
    if ins.l != sp['length']:
        out.append(('length', 'miasmX %d, IA-32 %d' % (ins.l, sp['length'])))
        return out
    if ins.b != bytes(bs[:ins.l]):
        out.append(('rawbytes', 'reported bytes are not the consumed prefix'))
    m1, m2 = canon_mnem(ins.m.name), canon_mnem(sp['mnem'])
    if sp['mnem'] == 'int3' and ins.m.name == 'int' and len(ins.arg) == 1 and int(ins.arg[0].get('imm', -1)) == 3:
        return out
    if sp['mnem'] in ('callf', 'jmpf') and ins.m.name in ('call', 'jmp') and sp['ops'] and sp['ops'][0][0] == 'far':
        m1 = m2
    if m1 != m2:
        out.append(('mnemonic', 'miasmX %s, IA-32 %s' % (ins.m.name, sp['mnem'])))
        return out
    mo, so = miasm_abstract(ins), spec_norm(sp)
    # conventions: int3 is "int 3"; fnstsw ax keeps its implicit ax for the printer; a far pointer is two immediates (segment:offset)
    if sp['mnem'] == 'fnstsw' and so == [('reg', 0, 16)] and mo == []:
        return out
    if so and so[0][0] == 'far':
        if len(mo) == 2 and mo[0][0] == 'imm' and mo[1][0] == 'imm' and sorted([mo[0][1], mo[1][1]]) == sorted([so[0][1], so[0][2]]):
            return out
        out.append(('farptr', 'miasmX %s, IA-32 %04x:%x' % (mo, so[0][1], so[0][2]))); return out
    if sp['mnem'].startswith('f') and so and all(o[0] == 'st' for o in so):
        # x87 register forms: miasmX keeps only st(i) in .arg and adds the implicit st in the printer: compare through the rendering
        txt = str(ins)
        got = [t.strip() for t in txt.split(None, 1)[1].split(',')] if len(txt.split(None, 1)) > 1 else []
        got = ['st(0)' if g == 'st' else g for g in got]
        want = ['st(%d)' % o[1] for o in so]
        if got != want:
            out.append(('x87-operands', 'miasmX renders %s, IA-32 %s %s' % (txt.strip(), sp['mnem'], ', '.join(want))))
        return out
    if sp['mnem'][:4] in ('movs', 'cmps', 'stos', 'lods', 'scas', 'insb', 'insw', 'insd', 'outs'):
        return out      # implicit string operands: compared by C04 semantics
    if len(mo) != len(so):
        # immediate 1 of shift-by-one forms and implicit operands are conventions: compare after dropping spec's constant 1
        so2 = [o for o in so if not (o[0] == 'imm' and o[1] == 1 and o[2] == 8 and sp['mnem'] in ('rol', 'ror', 'rcl', 'rcr', 'shl', 'shr', 'sal', 'sar'))]
        mo2 = [o for o in mo if not (o[0] == 'imm' and o[1] == 1 and sp['mnem'] in ('rol', 'ror', 'rcl', 'rcr', 'shl', 'shr', 'sal', 'sar'))]
        if len(mo2) != len(so2):
            out.append(('operand-count', 'miasmX %d operands %s, IA-32 %d %s' % (len(mo), mo, len(so), so)))
            return out
        mo, so = mo2, so2
    for k, (a, b) in enumerate(zip(mo, so)):
        if a[0] != b[0]:
            out.append(('op%d.kind' % k, 'miasmX %s, IA-32 %s' % (a[0], b[0]))); continue
        if a[0] == 'reg':
            if a[1] != b[1]: out.append(('op%d.reg' % k, 'miasmX register %s, IA-32 %s' % (a[1], b[1])))
            if a[2] != b[2]: out.append(('op%d.size' % k, 'miasmX %s bits, IA-32 %s' % (a[2], b[2])))
        elif a[0] in ('sreg', 'creg', 'dreg', 'st'):
            if a[1] != b[1]: out.append(('op%d.reg' % k, 'miasmX %s%s, IA-32 %s%s' % (a[0], a[1], b[0], b[1])))
        elif a[0] == 'imm':
            w = b[2]
            if (a[1] - b[1]) % (1 << w) != 0:
                out.append(('op%d.imm' % k, 'miasmX 0x%x, IA-32 0x%x (%d bits)' % (a[1] & 0xffffffff, b[1] & ((1 << w) - 1), w)))
            elif w < 32 and sp['opsize'] == 32 and a[2] == 32 and any(t in ('rel',) for t in ()) :
                pass
        elif a[0] == 'mem':
            ad = sp['adsize']
            if a[1] != b[1]: out.append(('op%d.addr' % k, 'miasmX registers %s, IA-32 %s' % (a[1], b[1])))
            if (a[2] - b[2]) % (1 << ad) != 0: out.append(('op%d.disp' % k, 'miasmX 0x%x, IA-32 0x%x' % (a[2] & 0xffffffff, b[2])))
            if a[3] != b[3]: out.append(('op%d.seg' % k, 'miasmX %s, IA-32 %s' % (a[3], b[3])))
            if b[4] is not None and a[4] is not None and a[4] != b[4]:
                out.append(('op%d.size' % k, 'miasmX %s bits, IA-32 %s' % (a[4], b[4])))
    # rel operands: displacement must be sign-extended (value compared modulo 2^32 above only catches width; check the sign explicitly)
    for k, o in enumerate(sp['ops']):
        if o[0] == 'rel' and k < len(mo) and mo[k][0] == 'imm':
            if (mo[k][1] - o[1]) % (1 << 32) != 0 and sp['opsize'] == 32:
                out.append(('op%d.rel' % k, 'displacement miasmX 0x%x, IA-32 0x%x' % (mo[k][1] & 0xffffffff, o[1] & 0xffffffff)))
    return out

R32N = ['eax', 'ecx', 'edx', 'ebx', 'esp', 'ebp', 'esi', 'edi']
def text_clause(ins, sp):
    """the property speaks of the instruction "as shown by its Intel-syntax rendering": the rendering is the same each time it is asked
       for, and the memory operand it shows is the one the bytes encode"""
    from checks import C01sse
    import re
    out = []
    pre0 = list(getattr(ins, 'prefix', []) or [])
    try:
        t1 = str(ins); t2 = str(ins)
    except Exception:
        return out                  # rendering crashes are C10's findings
    if t1 != t2 or list(getattr(ins, 'prefix', []) or []) != pre0:
        out.append(('render-repeat', 'first rendering %r, second rendering %r (prefix list %s -> %s)' % (t1, t2, pre0, list(getattr(ins, 'prefix', []) or []))))
        return out
    for o in sp['ops']:
        if o[0] != 'mem' or o[7] != 32 or (o[1] is None and o[2] is None): continue
        terms = []
        if o[1] is not None: terms.append(R32N[o[1]])
        if o[2] is not None: terms.append('%s*%d' % (R32N[o[2]], o[3]))
        d = o[4] & 0xffffffff
        want = C01sse.canon_mem('+'.join(terms) + ('+%d' % d if d else ''))
        got = [C01sse.canon_mem(x.lower()) for x in re.findall(r'\[([^\]]*)\]', t1)]
        if got and want not in got:
            out.append(('text.mem', 'rendered %r, the bytes encode [%s]' % (t1, want)))
    return out

def prefix_is_superfluous(bs, sp, pfx):
    """an operand/address-size prefix is meaning-free when the same bytes without it denote the same instruction"""
    from specs import x86dec
    i = bs.index(bytes([pfx])) if bytes([pfx]) in bs[:len(sp['prefixes'])] else -1
    if i < 0: return False
    sp2 = x86dec.decode(bs[:i] + bs[i + 1:])
    if sp2 is None: return False
    def strip(o):
        return tuple(x for j, x in enumerate(o) if not (o[0] == 'mem' and j == 7))
    return sp2['mnem'] == sp['mnem'] and [strip(o) for o in sp2['ops']] == [strip(o) for o in sp['ops']] and sp2['length'] == sp['length'] - 1

def meaningful_prefixes(sp, bs=None):
    if bs is not None:
        for pfx in (0x66, 0x67):
            if pfx in sp['prefixes'] and prefix_is_superfluous(bs, sp, pfx): return False
        if 0x66 in sp['prefixes'] and sp['mnem'] == 'bswap': return False      # bswap r16 is undefined
    return _meaningful(sp)

def _meaningful(sp):
    """no superfluous prefix: segment override only with a memory operand, rep only on string instructions, lock only with a memory destination"""
    string = sp['mnem'] in ('movsb', 'movsw', 'movsd', 'cmpsb', 'cmpsw', 'cmpsd', 'stosb', 'stosw', 'stosd', 'lodsb', 'lodsw', 'lodsd', 'scasb', 'scasw', 'scasd',
                            'insb', 'insw', 'insd', 'outsb', 'outsw', 'outsd') and not any(o[0] == 'xmm' for o in sp['ops'])
    has_mem = any(o[0] == 'mem' for o in sp['ops']) or (string and sp['mnem'][:4] in ('movs', 'cmps', 'lods', 'outs'))
    if sp['seg'] is not None and not has_mem: return False
    if sp['rep'] is not None and not string and not (sp['rep'] == 0xF3 and sp['mnem'] == 'nop' and not sp['ops']): return False
    if sp['lock'] and not (sp['ops'] and sp['ops'][0][0] == 'mem' and sp['mnem'] in ('add', 'or', 'adc', 'sbb', 'and', 'sub', 'xor', 'not', 'neg', 'inc', 'dec', 'xchg', 'xadd', 'cmpxchg', 'cmpxchg8b', 'bts', 'btr', 'btc')): return False
    if len(sp['prefixes']) != len(set(sp['prefixes'])): return False
    return True

def opkey(sp, bs):
    n = len(sp['prefixes'])
    k = bs[n:n + 1].hex()
    if bs[n] == 0x0F: k = bs[n:n + 2].hex()
    pre = ''.join('%02x' % p for p in sp['prefixes'])
    return (pre + ':' if pre else '') + k

def replay(hexbytes, clause):
    from miasmx.arch.ia32_arch import x86mnemo
    from bounded import x86enum
    from specs import x86dec
    x86enum.quiet()
    bs = binascii.unhexlify(hexbytes)
    ins = x86mnemo.dis(bs)
    sp = x86dec.decode(bs)
    print('bytes      :', hexbytes)
    if ins is None or sp is None:
        print('miasmX     :', ins); print('IA-32 spec :', sp); return 0
    d = compare(ins, sp, bs)
    if not d: d = text_clause(ins, sp)          # before any other rendering of this object: the clause is about repeated renderings
    print('miasmX     :', (str(ins).strip(), 'length %d' % ins.l, miasm_abstract(ins)))
    print('IA-32 spec :', sp)
    for x in d: print('disagreement:', x)
    return 1 if any(x[0] == clause for x in d) else 0

def _work(job):
    idx, nparts, tier = job
    common.use_repo()
    from bounded import x86enum
    from specs import x86dec
    from miasmx.arch.ia32_arch import x86mnemo
    x86enum.quiet()
    L = x86enum.leaves()
    sub = L[idx::nparts]
    out = {'n': 0, 'both': 0, 'outside': 0, 'superfluous': 0, 'ok': 0, 'groups': {}, 'exc': 0}
    prefixes = [(), (0x66,), (0x67,), (0x64,), (0xF3,), (0xF0,)] if tier == 'quick' else x86enum.PREFIX_SETS + [(0xF2,), (0x26,), (0x66, 0x67, 0x2E)]
    for path, m in sub:
        seen = set()
        for bs in x86enum.candidates(path, full_sib=(tier != 'quick'), pads=2 if tier == 'quick' else 4, prefixes=prefixes, m=m, smart=(tier == 'quick')):
            try:
                ins = x86mnemo.dis(bs)
            except Exception:
                out['exc'] += 1; continue       # crashes are C10's findings
            if ins is None: continue
            if ins.b in seen: continue
            seen.add(ins.b)
            out['n'] += 1
            sp = x86dec.decode(bs)
            if sp is None:
                out['outside'] += 1; continue
            if not meaningful_prefixes(sp, bs):
                out['superfluous'] += 1; continue
            out['both'] += 1
            try:
                d = compare(ins, sp, bs)
                if not d: d = text_clause(ins, sp)
            except Exception as ex:
                d = [('compare-crash', '%s: %s' % (type(ex).__name__, str(ex)[:80]))]
            if not d: out['ok'] += 1
            for (clause, detail) in d:
                k = (opkey(sp, bs), clause)
                g = out['groups'].setdefault(k, [0, bs[:max(ins.l, sp['length'])].hex(), detail])
                g[0] += 1
    return out

def modrm_tables(run):
    """COMP: init_pre_modrm() against the SDM ModRM/SIB tables, complete over all entries"""
    from miasmx.arch.ia32_arch import x86mndb
    from miasmx.arch.ia32_reg import x86_afs
    from specs import x86dec
    n = bad = 0
    def view(d):
        coef = dict((k, v) for k, v in d.items() if type(k) == int)
        return (bool(d.get(x86_afs.ad)), coef, d.get(x86_afs.imm))
    t0 = time.time()
    for modrm in range(256):
        mod, rm = modrm >> 6, modrm & 7
        ent = x86mndb.db_afs[modrm]
        sibs = range(256) if type(ent) == list else [None]
        for sib in sibs:
            d = ent[sib] if sib is not None else ent
            n += 1
            if mod == 3:
                want = (False, {rm: 1}, None)
            else:
                data = bytes([modrm] + ([sib] if sib is not None else []) + [0x11, 0x22, 0x33, 0x44, 0x55])
                rd = x86dec.Rd(data, 1)
                base, index, scale, disp = x86dec.modrm_mem(rd, modrm, 32, None)
                coef = {}
                if base is not None: coef[base] = coef.get(base, 0) + 1
                if index is not None: coef[index] = coef.get(index, 0) + scale
                used = rd.pos - 1 - (1 if sib is not None else 0)
                want = (True, coef, {0: None, 1: 's08', 4: 'u32'}[used])
            got = view(d)
            if got != want:
                bad += 1
                oid = 'C01:init_pre_modrm[modrm=%02x%s]' % (modrm, (',sib=%02x' % sib) if sib is not None else '')
                if bad <= 20:
                    run.ob(oid, FAILED, 'COMP', 'cpython', detail='table entry %s, SDM %s' % (got, want), confirmed=True, witness={'modrm': modrm, 'sib': sib}, func='init_pre_modrm')
        # 16-bit table
        d = x86mndb.db_afs_16[modrm]
        n += 1
        if mod == 3: want = (False, {rm: 1}, None)
        else:
            rd = x86dec.Rd(bytes([modrm, 0x11, 0x22, 0x33]), 1)
            base, index, scale, disp = x86dec.modrm_mem(rd, modrm, 16, None)
            coef = {}
            if base is not None: coef[base] = 1
            if index is not None: coef[index] = coef.get(index, 0) + 1
            want = (True, coef, {0: None, 1: 's08', 2: 'u16'}[rd.pos - 1])
        got = view(d)
        if got != want:
            bad += 1
            run.ob('C01:init_pre_modrm16[modrm=%02x]' % modrm, FAILED, 'COMP', 'cpython', detail='16-bit table entry %s, SDM %s' % (got, want), confirmed=True, witness={'modrm': modrm}, func='init_pre_modrm')
    # reverse table
    rev_bad = 0
    for key, lst in x86mndb.fd_afs.items():
        for (m_, s_) in lst:
            ent = x86mndb.db_afs[m_]
            if m_ >= 0xc0 and s_ is None and any(type(k) == int and k >= 0x40 for k, v in key):
                # mm/xmm register files: the reverse entry of register i is the one ModRM byte 11 000 iii (forge_opc ORs the other
                # operand's reg field into it; any further entry yields encodings of other registers)
                n += 1
                regs = [k for k, v in key if type(k) == int]
                if len(regs) != 1 or m_ != 0xc0 + (regs[0] & 7):
                    rev_bad += 1
                    if rev_bad <= 5:
                        run.ob('C01:fd_afs[%s]' % str(key)[:80], FAILED, 'COMP', 'cpython', detail='reverse entry of an mm/xmm register maps to ModRM %02x (expected %02x only)' % (m_, 0xc0 + (regs[0] & 7) if regs else 0), confirmed=True, func='init_pre_modrm')
                continue
            d = ent[s_] if s_ is not None else ent
            n += 1
            k2 = tuple((a, b) for (a, b) in x86mndb.modrm_key(d) if a != 'txt')
            k1 = tuple((a, b) for (a, b) in key if a != 'txt')
            if k1 != k2:
                rev_bad += 1
                if rev_bad <= 5:
                    run.ob('C01:fd_afs[%s]' % str(key)[:80], FAILED, 'COMP', 'cpython', detail='reverse entry (%s,%s) does not map back' % (m_, s_), confirmed=True, func='init_pre_modrm')
    run.bulk('ModRM/SIB table entries equal to SDM tables 2-1..2-3 (32-bit: 256 x SIB, 16-bit: 256) and reverse table entries', n - bad - rev_bad, 'COMP', 'cpython', time.time() - t0, DISCHARGED)

def imm_helpers(run):
    """COMP: get_im_fmt and intsize over their whole (finite) domain: width and signedness of an immediate field as the architecture fixes
       them from the w / s bits and the operand size"""
    import struct
    from miasmx.arch import ia32_arch as A
    from miasmx.tools import modint as M
    db = A.x86mndb
    n = bad = 0
    for se_ in (False, True):
        for w8_ in (False, True):
            for mode in (A.u32, A.u16):
                for im in (A.imm, A.ims):
                    n += 1
                    modifs = {A.se: se_, A.w8: w8_}
                    if se_: want = (1, True)
                    elif w8_: want = (1, im == A.ims)
                    else: want = (4 if mode == A.u32 else 2, im == A.ims)
                    try:
                        size, fmt, t = db.get_im_fmt(modifs, mode, im)
                        got = (size, fmt.islower())
                        okt = t in {(1, True): (A.s08,), (1, False): (A.u08,), (2, True): (A.s16,), (2, False): (A.u16,), (4, True): (A.s32,), (4, False): (A.u32,)}[want]
                        if got != want or struct.calcsize(fmt) != size or not okt:
                            raise AssertionError('returns (%s, %r, %s)' % (size, fmt, t))
                    except Exception as ex:
                        bad += 1
                        run.ob('C01:get_im_fmt[se=%s,w8=%s,%s,%s]' % (se_, w8_, mode, im), FAILED, 'COMP', 'cpython', detail='%s; the field is %d byte(s), %s' % (ex, want[0], 'signed' if want[1] else 'unsigned'), confirmed=True, func='get_im_fmt')
    class _M(object): pass
    for w8_ in (False, True):
        for mode in (A.u32, A.u16):
            for ext in (False, True):
                n += 1
                i = A.x86_mn.__new__(A.x86_mn); i.__init__({'opmode': mode})
                i.m = _M(); i.m.modifs = {A.w8: w8_}
                want = (32 if mode == A.u32 else 16) if (ext or not w8_) else 8
                try:
                    r = i.intsize(0x1ff, ext)
                    if type(r).__name__ != 'uint%d' % want or int(r) != 0x1ff % (1 << want): raise AssertionError('returns %s(%#x)' % (type(r).__name__, int(r)))
                except Exception as ex:
                    bad += 1
                    run.ob('C01:intsize[w8=%s,%s,ext=%s]' % (w8_, mode, ext), FAILED, 'COMP', 'cpython', detail='%s; expected an unsigned %d-bit value' % (ex, want), confirmed=True, func='intsize')
    run.bulk('get_im_fmt / intsize over their whole domain', n - bad, 'COMP', 'cpython', 0.0, DISCHARGED)

def main(argv):
    tier, seed, rest = common.parse_args(argv)
    common.use_repo()
    run = Run('C01', tier, seed, 'other', 'cd /verif && ./vcheck C01 --tier %s' % tier)
    modrm_tables(run)
    imm_helpers(run)
    nparts = 64
    with multiprocessing.get_context('fork').Pool(min(16, os.cpu_count() or 4)) as pool:
        results = pool.map(_work, [(i, nparts, tier) for i in range(nparts)], chunksize=1)
    groups = {}
    for r in results:
        for k, g in r['groups'].items():
            G = groups.setdefault(k, [0, g[1], g[2]])
            G[0] += g[0]
            if len(g[1]) < len(G[1]): G[1], G[2] = g[1], g[2]
    run.bulk('byte strings decoded identically by miasmX and the IA-32 spec', sum(r['ok'] for r in results), 'BND', 'cpython-enum', 0.0, BOUNDED_OK)
    for (key, clause), (cnt, hx, detail) in sorted(groups.items()):
        oid = 'C01:dec[%s]:%s' % (key, clause)
        script = REPLAY % dict(verif=common.VERIF, repo=common.REPO, hexbytes=hx, clause=clause)
        rp = run.write_replay(oid, {'obligation': oid, 'detail': detail, 'bytes': hx}, script)
        run.ob(oid, FAILED, 'BND', 'cpython-enum', detail='%d strings, e.g. %s: %s' % (cnt, hx, detail), witness=rp, confirmed=True, func='_dis')
    tot = sum(r['n'] for r in results)
    run.evaluations = tot
    run.distinct = sum(r['both'] for r in results)
    run.extra.update({'strings_accepted_by_miasmx': tot, 'in_spec_domain': sum(r['both'] for r in results), 'outside_spec_tables': sum(r['outside'] for r in results),
                      'superfluous_prefix_skipped': sum(r['superfluous'] for r in results), 'decoder_exceptions_seen': sum(r['exc'] for r in results)})
    run.rule = ('every opcode path of the decoder trie x prefix sets x every value of the byte after the opcode (ModRM) x SIB grid x paddings {00.., 7f 80 ff 01.., ff.., 80 00..}; '
                'strings miasmX accepts are compared with the spec decoder when the spec covers the opcode (one-byte map, integer/system 0F map, x87) and no prefix is superfluous; '
                'disagreements are grouped by (prefixes:opcode, field)')
    run.explanation = ('structurally exhaustive, data-bounded comparison of the real decoder with an independent IA-32 decoder; table builders checked completely (COMP); '
                       '_dis itself (380 lines over heterogeneous dictionaries) is outside any verifier available here')
    run.samples = ['%s %s (%d strings, e.g. %s)' % (k[0], k[1], v[0], v[1]) for k, v in list(sorted(groups.items()))[:6]] or ['no disagreement']
    run.trust('specs/x86dec.py (IA-32 decoder written from the SDM; MMX/SSE not covered)')
    run.assume('strings whose opcode is outside the spec tables or that carry a superfluous prefix are outside the compared domain of the spec decoder')
    # MMX/SSE maps: the reference decoder is GNU objdump, executed
    from checks import C01sse
    C01sse.ob_sse(run, tier)
    run.assume('MMX/SSE strings: compared only when objdump accepts the string as one instruction without a superfluous prefix')
    return run.finish()

if __name__ == '__main__':
    sys.exit(main(sys.argv[1:]))
