"""C14 - fixed-width integers implement arithmetic modulo 2^n  (mode SMT-A, proof)."""
import sys, os, time, itertools
from vlib import common
from vlib.common import Run, DISCHARGED, FAILED, BOUNDED_OK, Ob
from pyvc.runner import Case

CM = 'contracts.modint'

def _mod():
    common.use_repo()
    import miasmx.tools.modint as m
    return m

def case_from_key(key):
    """key = (method, C1name, C2name|'int'|None)"""
    import z3
    from pyvc.contract import SObj
    from pyvc.engine import find_method
    import contracts.modint as cm
    m = _mod()
    meth, c1n, c2n = key
    C1 = getattr(m, c1n)
    if meth == 'maxcast':
        C2 = getattr(m, c2n)
        def make_args(ctx):
            b = z3.Int('y.arg')
            return [C1, SObj(C2, {'arg': b}, fresh=False)], {'y.arg': b}
        def native(mv):
            return [c1n, '%s(%s)' % (c2n, mv.get('y.arg', 0))]
        def twin():
            for b in cm.boundary(C2):
                yield {'y.arg': b}
        return Case('%s:moduint.maxcast' % cm.M, '%s,%s' % (c1n, c2n), make_args, native, twin_inputs=twin)
    owner = find_method(C1, '__%s__' % meth)[0]
    qn = '%s:%s.__%s__' % (cm.M, owner.__qualname__, meth)
    if meth == 'init':
        if c2n == 'int':
            def make_args(ctx):
                b = z3.Int('arg')
                return [SObj(C1, {}, fresh=False), b], {'arg': b}
            def native(mv):
                return [c1n, str(mv.get('arg', 0))]
            def twin():
                for b in cm.int_boundary() + cm.boundary(C1):
                    yield {'arg': b}
        else:
            C2 = getattr(m, c2n)
            def make_args(ctx):
                b = z3.Int('arg.arg')
                return [SObj(C1, {}, fresh=False), SObj(C2, {'arg': b}, fresh=False)], {'arg.arg': b}
            def native(mv):
                return [c1n, '%s(%s)' % (c2n, mv.get('arg.arg', 0))]
            def twin():
                for b in cm.boundary(C2):
                    yield {'arg.arg': b}
        return Case(qn, '%s,%s' % (c1n, c2n), make_args, native, twin_inputs=twin)
    if c2n is None:
        def make_args(ctx):
            a = z3.Int('self.arg')
            return [SObj(C1, {'arg': a}, fresh=False)], {'self.arg': a}
        def native(mv):
            return ['%s(%s)' % (c1n, mv.get('self.arg', 0))]
        def twin():
            vs = cm.boundary(C1)
            if cm.width(C1) == 8 or cm.width(C1) == 1:
                vs = range(cm.lo(C1), cm.hi(C1))
            for a in vs:
                yield {'self.arg': a}
        return Case(qn, c1n, make_args, native, twin_inputs=twin)
    if c2n == 'int':
        def make_args(ctx):
            a, b = z3.Int('self.arg'), z3.Int('y')
            return [SObj(C1, {'arg': a}, fresh=False), b], {'self.arg': a, 'y': b}
        def native(mv):
            return ['%s(%s)' % (c1n, mv.get('self.arg', 0)), str(mv.get('y', 0))]
        def twin():
            ys = cm.int_boundary()
            if meth in ('lshift', 'rshift', 'pow'):
                ys = [y for y in ys if 0 <= y <= 300]
            for a in cm.boundary(C1):
                for b in ys:
                    if meth in ('rlshift', 'rpow') and a > 300:
                        continue
                    if meth == 'rpow' and abs(b) > (1 << 32):
                        continue
                    yield {'self.arg': a, 'y': b}
    else:
        C2 = getattr(m, c2n)
        def make_args(ctx):
            a, b = z3.Int('self.arg'), z3.Int('y.arg')
            return [SObj(C1, {'arg': a}, fresh=False), SObj(C2, {'arg': b}, fresh=False)], {'self.arg': a, 'y.arg': b}
        def native(mv):
            return ['%s(%s)' % (c1n, mv.get('self.arg', 0)), '%s(%s)' % (c2n, mv.get('y.arg', 0))]
        def twin():
            exh = os.environ.get('VERIF_TIER') == 'thorough' and cm.width(C1) == 8 and cm.width(C2) == 8
            A = range(cm.lo(C1), cm.hi(C1)) if exh else cm.boundary(C1)
            B = range(cm.lo(C2), cm.hi(C2)) if exh else cm.boundary(C2)
            for a in A:
                for b in B:
                    if meth in ('lshift', 'pow') and b > 300: continue
                    if meth in ('rlshift', 'rpow') and a > 300: continue
                    yield {'self.arg': a, 'y.arg': b}
    return Case(qn, '%s,%s' % (c1n, c2n), make_args, native, twin_inputs=twin)

def keys():
    import contracts.modint as cm
    ks = []
    for c1 in cm.NAMES:
        for c2 in cm.NAMES:
            ks.append(('maxcast', c1, c2))
        for c2 in cm.NAMES + ['int']:
            ks.append(('init', c1, c2))
            for meth in cm.BINARY + cm.COMPARE:
                if meth == 'rpow' and c2 != 'int':
                    continue    # `fixed ** fixed` dispatches to __pow__; __rpow__ is reached only with a plain int base
                ks.append((meth, c1, c2))
        for meth in cm.UNARY:
            ks.append((meth, c1, None))
    return ks

def hash_lemma(run):
    """equal values hash equally: two-call lemma over the __eq__ and __hash__ contracts
       (hash(int) is an uninterpreted function; the lemma is congruence)."""
    import z3
    from specs import duck
    import contracts.modint as cm
    m = _mod()
    from pyvc.contract import SObj
    from pyvc.engine import Ctx
    t0 = time.time()
    n = 0
    for c1 in cm.NAMES:
        for c2 in cm.NAMES + ['int']:
            a, b = z3.Int('a'), z3.Int('b')
            x = SObj(getattr(m, c1), {'arg': a}, fresh=False)
            y = SObj(getattr(m, c2), {'arg': b}, fresh=False) if c2 != 'int' else b
            eqc = cm.CONTRACTS['%s:moduint.__eq__' % cm.M]
            hc = cm.CONTRACTS['%s:moduint.__hash__' % cm.M]
            e, h1, h2 = z3.Bool('e'), z3.Int('h1'), z3.Int('h2')
            s = z3.Solver()
            s.add(eqc.pre(None, x, y), eqc.post(None, e, x, y), hc.post(None, h1, x))
            if c2 != 'int':
                s.add(hc.post(None, h2, y))
            else:
                s.add(h2 == duck.pyhash(b))
            s.add(e, h1 != h2)
            r = s.check()
            oid = 'C14:lemma.eq_implies_hash[%s,%s]' % (c1, c2)
            if r == z3.unsat:
                run.ob(oid, DISCHARGED, 'SMT-A', 'z3', 0.0, func='lemma')
            else:
                run.ob(oid, FAILED, 'SMT-A', 'z3', 0.0, detail='lemma refuted: %s' % s.model(), confirmed=False, func='lemma')
            n += 1
    return n

def main(argv):
    tier, seed, rest = common.parse_args(argv)
    os.environ['VERIF_TIER'] = tier
    common.use_repo()
    sys.setrecursionlimit(10000)
    run = Run('C14', tier, seed, 'proof', 'cd /verif && ./vcheck C14 --tier %s' % tier)
    from pyvc import harness
    ks = keys()
    evals = harness.verify_cases(run, 'C14', CM, 'checks.C14', 'case_from_key', ks, timeout_ms=20000)
    hash_lemma(run)
    run.evaluations = evals
    run.rule = ('every operator method of moduint/modint x 11 classes x (11 classes + plain int) operand kinds: one SMT-A obligation per '
                'contract clause (post, noraise, frame, call-site preconditions, asserts), each over ALL operand values; plus a bounded '
                'run-time twin per case on the boundary set {0,1,2,3,2^(n-1)-1,2^(n-1),2^n-2,2^n-1} (exhaustive 2^16 pairs at 8 bits in the thorough tier)')
    run.explanation = ('SMT-A: the AST of every method is re-read from /repo, symbolically executed per path with callee contracts; '
                       'postcondition = exact mathematical result reduced mod 2^n into the range of the wider operand class')
    run.trust('z3 5.1 (unsat answers)'); run.trust('pyvc encoding of Python ints as z3 Int (floor div/mod), audited by the native twins')
    run.trust('spec functions norm/wider in /verif/contracts/modint.py')
    run.assume('& | ^ << >> ** on unbounded Python ints are uninterpreted functions shared by code and spec side (congruence); '
               'masks 2^k-1 and constant shifts are encoded exactly')
    run.assume('shift counts and exponents are required non-negative, % requires a non-zero divisor (domain of "mathematically exact result")')
    run.assume('__div__/__rdiv__/__long__/__hex__/__repr__ are Python-2 only / not in the property operator list: not claimed')
    run.extra['twin_evaluations'] = evals
    return run.finish()

if __name__ == '__main__':
    sys.exit(main(sys.argv[1:]))
