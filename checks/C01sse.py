"""C01, MMX/SSE part: the byte strings of the MMX/SSE opcode maps lie outside the hand-written spec decoder specs/x86dec.py; for them the
reference decoder the property speaks of is the real GNU objdump (-D -b binary -m i386 -M intel), executed as an external function on the
structurally enumerated byte strings (each in its own 16-byte slot padded with NOPs, so that a length disagreement cannot desynchronise the
sweep).  Compared for every string both decoders accept as one instruction: length, mnemonic, and the operand text after a syntactic
normalisation (blanks, number base, size keywords).
"""
import sys, os, re, subprocess, tempfile, binascii, collections, shutil
from vlib import common

SLOT = 16

def objdump_slots(blobs):
    """[(length, text)] or None ((bad) / nothing decoded at the slot start) per byte string"""
    if not blobs: return []
    tmp = tempfile.mkdtemp(prefix='objd_')
    path = os.path.join(tmp, 'in.bin')
    with open(path, 'wb') as f:
        for b in blobs:
            assert len(b) <= 15
            f.write(b + b'\x90' * (SLOT - len(b)))
    p = subprocess.run(['objdump', '-D', '-b', 'binary', '-m', 'i386', '-M', 'intel', '--insn-width=16', path], capture_output=True, text=True, timeout=1200)
    shutil.rmtree(tmp, ignore_errors=True)
    out = [None] * len(blobs)
    seen_any = False
    for row in p.stdout.split('\n'):
        m = re.match(r'^\s*([0-9a-f]+):\t((?:[0-9a-f]{2} )+)\s*\t?(.*)$', row)
        if not m: continue
        seen_any = True
        addr = int(m.group(1), 16)
        if addr % SLOT: continue
        k = addr // SLOT
        nbytes = len(m.group(2).split())
        text = m.group(3).strip()
        if k < len(out):
            out[k] = None if '(bad)' in text or not text else (nbytes, text)
    if not seen_any:
        raise RuntimeError('objdump output not understood: %s' % (p.stdout[:200] + p.stderr[:200]))
    return out

NUM = re.compile(r'(?<![\w.])(-?)(0x[0-9a-fA-F]+|\d+)(?![\w.])')
def canon_mem(inner):
    """canonical form of the inside of a bracket: sorted register terms (coefficient 1 implicit, eiz dropped) + displacement mod 2^32"""
    terms = re.findall(r'([+-]?)\s*([^+-]+)', inner)
    regs = {}
    disp = 0
    for sg, t in terms:
        t = t.strip()
        if not t: continue
        m = re.match(r'^(0x[0-9a-f]+|\d+)$', t)
        if m:
            v = int(t, 0)
            disp += -v if sg == '-' else v
            continue
        m = re.match(r'^(\w+)(?:\*(\d+))?$', t)
        if m:
            r, c = m.group(1), int(m.group(2) or 1)
            if r == 'eiz': continue
            regs[r] = regs.get(r, 0) + c
            continue
        return None
    out = '+'.join('%s*%d' % (r, c) if c != 1 else r for r, c in sorted(regs.items()))
    disp &= 0xffffffff
    if disp or not out: out += ('+' if out else '') + str(disp)
    return out

def norm_ops(t):
    t = t.strip().lower()
    t = re.sub(r'\s*,\s*', ',', t)
    t = re.sub(r'\s+', ' ', t)
    t = t.replace('ds:', '')
    def br(m):
        c = canon_mem(m.group(1))
        return '[' + (c if c is not None else m.group(1)) + ']'
    t = re.sub(r'\[([^\]]*)\]', br, t)
    def num(m):
        v = int(m.group(2), 0)
        if m.group(1): v = -v
        return str(v & 0xffffffff)
    # numbers outside brackets (immediates)
    parts = re.split(r'(\[[^\]]*\])', t)
    t = ''.join(p if p.startswith('[') else NUM.sub(num, p) for p in parts)
    # an absolute address is printed without brackets by miasmX ("XMMWORD PTR 0") and as ds:0x0 by objdump: one spelling
    t = re.sub(r'\[(\d+)\]', r'\1', t)
    return t

CMP_PRED = ['eq', 'lt', 'le', 'unord', 'neq', 'nlt', 'nle', 'ord']
PCLMUL = {'lql': 0x00, 'hql': 0x01, 'lqh': 0x10, 'hqh': 0x11}
def unpseudo(mn, ops):
    """objdump prints pseudo-ops for fixed immediates: back to the architectural mnemonic + immediate"""
    m = re.match(r'^cmp(eq|lt|le|unord|neq|nlt|nle|ord)(ps|pd|ss|sd)$', mn)
    if m: return 'cmp' + m.group(2), ops + ',%d' % CMP_PRED.index(m.group(1))
    m = re.match(r'^pclmul(lql|hql|lqh|hqh)qdq$', mn)
    if m: return 'pclmulqdq', ops + ',%d' % PCLMUL[m.group(1)]
    return mn, ops

def tolerate_size(mine, ref):
    """the rendering may omit the size keyword of a memory operand (MMX forms); a DIFFERENT keyword is a difference"""
    a, b = mine.split(','), ref.split(',')
    if len(a) != len(b): return ref
    out = []
    for x, y in zip(a, b):
        if 'ptr' not in x and 'ptr' in y:
            y = re.sub(r'^\w+ ptr ', '', y)
        out.append(y)
    return ','.join(out)

def split(text):
    text = text.strip()
    # prefixes objdump prints as words
    parts = text.split(None, 1)
    mn = parts[0]
    ops = parts[1] if len(parts) > 1 else ''
    while mn in ('rep', 'repz', 'repnz', 'lock', 'data16', 'addr16', 'notrack', 'bnd') and ops:
        parts = ops.split(None, 1)
        mn = mn + ' ' + parts[0]
        ops = parts[1] if len(parts) > 1 else ''
    return mn.lower(), norm_ops(ops)

IMPLICIT_XMM0 = ('blendvps', 'blendvpd', 'pblendvb')

def compare(b, length, text, ref):
    """None (agree / outside the compared domain) or (clause, detail)"""
    if ref is None or re.match(r'^(rep|repz|repnz|data16|addr16|lock)\b', ref[1]):
        return None                                  # the reference rejects the string or reports a superfluous prefix: outside the domain
    if text is None:
        return ('render', 'rendering raised an exception; reference: %s' % ref[1])
    if 'INVALID' in text:
        return ('invalid-name', 'rendered as %r; reference decoder: %r' % (text, ref[1]))
    if ref[0] != length:
        return ('length', 'length %d, reference %d (%s vs %s)' % (length, ref[0], text, ref[1]))
    mn, ops = split(text)
    rmn, rops = split(ref[1])
    rmn, rops = unpseudo(rmn, rops)
    if mn != rmn:
        return ('mnemonic', '%r, reference %r' % (text, ref[1]))
    if rmn in IMPLICIT_XMM0 and rops.endswith(',xmm0') and ops.count(',') + 1 == rops.count(','):
        rops = rops[:-5]                             # the implicit xmm0 operand may be left out
    rops = tolerate_size(ops, rops)
    if ops != rops:
        return ('operands', '%r, reference %r' % (text, ref[1]))
    return None

def _work(job):
    idx, nparts, tier = job
    common.use_repo()
    from bounded import x86enum
    x86enum.quiet()
    from miasmx.arch.ia32_arch import x86mnemo
    L = [(p, m) for p, m in x86enum.leaves() if m.modifs.get('mmx') or '#' in m.name][idx::nparts]
    items, seen, repeat = [], set(), []
    for path, m in L:
        for bs in x86enum.candidates(path, full_sib=(tier == 'thorough'), pads=1, prefixes=[(), (0x66,), (0xF2,), (0xF3,)], m=m, smart=True):
            try: ins = x86mnemo.dis(bs)
            except Exception: continue
            if ins is None or ins.b in seen: continue
            seen.add(ins.b)
            try: txt = str(ins)
            except Exception: txt = None
            try: txt2 = str(ins)
            except Exception: txt2 = txt
            items.append((bytes(ins.b), ins.l, txt, m.name))
            if txt2 != txt:
                repeat.append((m.name, bytes(ins.b).hex(), 'first rendering %r, second rendering %r' % (txt, txt2)))
    ref = objdump_slots([x[0] for x in items])
    groups = {}
    for (tn, hx, detail) in repeat:
        g = groups.setdefault(('render-repeat', tn), [0, hx, detail]); g[0] += 1
    n_cmp = n_out = 0
    for (b, l, txt, tn), r in zip(items, ref):
        if r is None or re.match(r'^(rep|repz|repnz|data16|addr16|lock)\b', r[1]):
            n_out += 1; continue
        n_cmp += 1
        v = compare(b, l, txt, r)
        if v is not None:
            g = groups.setdefault((v[0], tn), [0, b.hex(), v[1]])
            g[0] += 1
            if len(b.hex()) < len(g[1]): g[1], g[2] = b.hex(), v[1]
    return n_cmp, n_out, groups

def replay(hexbytes, clause):
    common.use_repo()
    from bounded import x86enum
    x86enum.quiet()
    from miasmx.arch.ia32_arch import x86mnemo
    b = binascii.unhexlify(hexbytes)
    ins = x86mnemo.dis(b)
    try: txt = str(ins)
    except Exception: txt = None
    ref = objdump_slots([b])[0]
    v = compare(b, ins.l, txt, ref)
    if clause == 'render-repeat':
        try: txt2 = str(ins)
        except Exception: txt2 = None
        print('%s: first rendering %r, second rendering %r' % (hexbytes, txt, txt2))
        return 1 if txt2 != txt else 0
    print('%s: miasmX %r (length %s); objdump %r' % (hexbytes, txt, ins.l, ref))
    print(v)
    return 1 if v is not None and v[0] == clause else 0

REPLAY = '''
import sys, os
sys.path.insert(0, %(verif)r); sys.path.insert(0, %(repo)r)
sys.dont_write_bytecode = True
from checks import C01sse
sys.exit(C01sse.replay(%(hexbytes)r, %(clause)r))
'''

def ob_sse(run, tier):
    import multiprocessing
    from vlib.common import FAILED, BOUNDED_OK
    nparts = 48
    with multiprocessing.get_context('fork').Pool(min(16, os.cpu_count() or 4)) as pool:
        res = pool.map(_work, [(i, nparts, tier) for i in range(nparts)], chunksize=1)
    n_cmp = sum(r[0] for r in res); n_out = sum(r[1] for r in res)
    groups = {}
    for r in res:
        for k, g in r[2].items():
            G = groups.setdefault(k, [0, g[1], g[2]])
            G[0] += g[0]
            if len(g[1]) < len(G[1]): G[1], G[2] = g[1], g[2]
    bad = sum(g[0] for g in groups.values())
    run.bulk('MMX/SSE byte strings on which miasmX and GNU objdump agree (length, mnemonic, operands)', n_cmp - bad, 'BND', 'objdump', 0.0, BOUNDED_OK)
    for (clause, tn), (cnt, hx, detail) in sorted(groups.items()):
        oid = 'C01:sse-%s[%s]' % (clause, tn)
        rp = run.write_replay(oid, {'obligation': oid, 'detail': detail}, REPLAY % dict(verif=common.VERIF, repo=common.REPO, hexbytes=hx, clause=clause))
        run.ob(oid, FAILED, 'BND', 'objdump', detail='%d strings, e.g. %s: %s' % (cnt, hx, detail), witness=rp, confirmed=True, func='x86_mn._dis')
    run.extra['sse_strings_compared_with_objdump'] = n_cmp
    run.extra['sse_strings_outside_reference_domain'] = n_out
    run.trust('GNU objdump 2.40 (-M intel) as the reference decoder of the MMX/SSE maps; the text normalisation of checks/C01sse.py (number base, blanks, eiz, +0, absolute addresses, pseudo-op mnemonics, implicit xmm0, an omitted size keyword is tolerated)')
    return n_cmp
