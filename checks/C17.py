"""C17 - control-flow metadata agrees with the instruction's architectural behaviour.

  SMT-A : x86_mn.getnextflow() == offset + l ;  x86_mn.getdstflow() for one immediate operand == [(offset + l + imm) mod 2^opsize]
          (VCs from the AST, callee contracts of modint.__radd__/__and__ from C14) for all offsets, lengths and displacements.
  COMP  : for every mnemonic of the opcode table: (breakflow, splitflow, dstflow) == S-x86-flow classification -- complete over the table.
  BND   : every direct jcc/jmp/call/loop/jecxz encoding x operand-size prefix x displacement boundary values x offsets incl. near 2^32:
          getnextflow() == offset + length, getdstflow() == offset + length + sext(disp) truncated to the operand size (spec decoder).
"""
import sys, os, time, random, itertools, binascii, traceback
from vlib import common
from vlib.common import Run, DISCHARGED, FAILED, BOUNDED_OK, UNDECIDED, DOWNGRADED, ENGINE_ERR, Ob

REPLAY = '''
import sys, os
sys.path.insert(0, %(verif)r); sys.path.insert(0, %(repo)r)
sys.dont_write_bytecode = True
from checks import C17
sys.exit(C17.replay(%(kind)r, %(data)r))
'''

def contracts():
    import contracts.modint as cm
    from pyvc.contract import Contract, SObj, cls_of
    from specs.duck import And, is_sym
    C = dict(cm.CONTRACTS)
    A = 'miasmx.arch.ia32_arch'
    C['%s:is_imm' % A] = Contract('%s:is_imm' % A, inline=True)
    def nf_post(ctx, res, self):
        return res == self.offset + self.l
    C['%s:x86_mn.getnextflow' % A] = Contract('%s:x86_mn.getnextflow' % A, pre=lambda ctx, self: And(self.offset >= 0, self.l >= 1), post=nf_post)
    def df_pre(ctx, self):
        imm = self.arg[0]['imm']
        return And(self.offset >= 0, self.offset < (1 << 32), self.l >= 1, self.l <= 15, cm.inv(imm))
    def df_post(ctx, res, self):
        if not isinstance(res, list) or len(res) != 1: return False
        d = res[0]
        if not cm.is_fixed(d): return False
        w = {'u32': 32, 'u16': 16}[self.opmode]
        return cm.val(d) % (1 << w) == (self.offset + self.l + self.arg[0]['imm'].arg) % (1 << w)
    C['%s:x86_mn.getdstflow' % A] = Contract('%s:x86_mn.getdstflow' % A, pre=df_pre, post=df_post)
    return C

def ob_smt(run):
    import z3
    from pyvc import engine
    from pyvc.runner import resolve
    from pyvc.contract import SObj
    import miasmx.arch.ia32_arch as A
    import miasmx.tools.modint as M
    C = contracts()
    for qn, cases in (('miasmx.arch.ia32_arch:x86_mn.getnextflow', [('u32', 'uint32')]),
                      ('miasmx.arch.ia32_arch:x86_mn.getdstflow', [('u32', 'uint32'), ('u16', 'uint16'), ('u16', 'uint32')])):     # (u32, uint16) is not a shape the decoder produces: intsize() gives uint32 under opmode u32
        mod, node, seg, path = resolve(qn)
        run.function(qn, seg, path, node.lineno)
        for (opmode, icls) in cases:
            def make_args(ctx, opmode=opmode, icls=icls):
                off, l, i = z3.Int('offset'), z3.Int('l'), z3.Int('imm')
                imm = SObj(getattr(M, icls), {'arg': i}, fresh=False)
                m = SObj(A.mnemonic, {'name': 'jmp'}, fresh=False)
                o = SObj(A.x86_mn, {'offset': off, 'l': l, 'opmode': opmode, 'm': m, 'arg': [{'imm': imm, 'ad': False, 'size': opmode}]}, fresh=False)
                return [o], {'offset': off, 'l': l, 'imm': i}
            V = engine.verify_function(qn, node, vars(mod), C[qn], C, make_args)
            base = 'C17:%s[%s,%s]' % (qn.split(':')[1], opmode, icls)
            if V.unsupported:
                run.ob(base + ':generate', DOWNGRADED, 'SMT-A', 'pyvc', detail=V.unsupported); continue
            for cl, d in sorted(V.clauses.items()):
                if d['status'] == 'unsat':
                    run.ob(base + ':' + cl, DISCHARGED, 'SMT-A', 'z3', d['secs'], func=qn)
                elif d['status'] == 'sat':
                    w = d['witness'] or {}
                    data = {'opmode': opmode, 'icls': icls, 'offset': int(w.get('offset', 0)), 'l': int(w.get('l', 1)), 'imm': int(w.get('imm', 0)), 'fn': qn.split('.')[-1]}
                    ok = native_flow(data)
                    script = REPLAY % dict(verif=common.VERIF, repo=common.REPO, kind='flowfn', data=data)
                    rp = run.write_replay(base + ':' + cl, {'obligation': base + ':' + cl, 'inputs': w}, script)
                    if (w or {}).get('_uf') and ok is None:
                        run.ob(base + ':' + cl, DOWNGRADED, 'SMT-A', 'z3', d['secs'], detail='model over uninterpreted bit operations does not replay; bounded stand-in: BND clause below')
                    else:
                        run.ob(base + ':' + cl, FAILED, 'SMT-A', 'z3', d['secs'], detail='%s; counterexample %s; native: %s' % (d['detail'], w, ok), witness=rp, confirmed=ok is not None, func=qn)
                else:
                    run.ob(base + ':' + cl, DOWNGRADED, 'SMT-A', 'z3', d['secs'], detail='solver unknown')

def native_flow(data):
    """native evaluation of getnextflow/getdstflow on a synthetic instruction object; returns a message when the contract is violated, else None"""
    import miasmx.arch.ia32_arch as A
    import miasmx.tools.modint as M
    from miasmx.arch.ia32_reg import x86_afs
    i = A.x86_mn.__new__(A.x86_mn)
    i.__init__({'opmode': data['opmode']})
    i.offset, i.l = data['offset'], data['l']
    i.m = A.x86mndb.mnemo_lookup['jmp'][0]
    i.arg = [{x86_afs.imm: getattr(M, data['icls'])(data['imm']), x86_afs.ad: False, x86_afs.size: data['opmode']}]
    w = {'u32': 32, 'u16': 16}[data['opmode']]
    if data['fn'] == 'getnextflow':
        r = i.getnextflow()
        return None if r == data['offset'] + data['l'] else 'getnextflow() = %r' % r
    r = i.getdstflow()
    want = (data['offset'] + data['l'] + int(getattr(M, data['icls'])(data['imm']))) % (1 << w)
    if not isinstance(r, list) or len(r) != 1 or int(r[0]) % (1 << w) != want:
        return 'getdstflow() = %r, expected [0x%x]' % (r, want)
    return None

def spec_flow(name):
    from specs import x86dec
    from checks.C01 import canon_mnem
    n = canon_mnem(name)
    nofall = set(canon_mnem(x) for x in x86dec.NO_FALLTHROUGH)
    cond = set(canon_mnem(x) for x in x86dec.COND_OR_CALL)
    if n in nofall: return (True, False, n in ('jmp', 'jmpf'))
    if n in cond: return (True, True, True)
    return (False, False, False)

def ob_table(run):
    from miasmx.arch.ia32_arch import x86mndb, bkf, spf, dtf
    from specs import x86dec
    n = 0
    for name, rows in sorted(x86mndb.mnemo_lookup.items()):
        if name in x86dec.EXCLUDED: continue
        want = spec_flow(name)
        for r in rows:
            got = (bool(r.modifs[bkf]), bool(r.modifs[spf]), bool(r.modifs[dtf]))
            n += 1
            bad = []
            if got[0] != want[0]: bad.append('breakflow %s (architecture: %s)' % (got[0], want[0]))
            if got[1] != want[1]: bad.append('splitflow %s (architecture: %s)' % (got[1], want[1]))
            if want[1] and not got[2]: bad.append('dstflow False for an instruction with a destination')
            if not want[0] and got[2]: bad.append('dstflow True for an instruction that always continues')
            oid = 'C17:flowattr[%s %s]' % (name, ''.join('%02x' % b for b in r.opc if isinstance(b, int)))
            if bad:
                data = {'name': name}
                script = REPLAY % dict(verif=common.VERIF, repo=common.REPO, kind='attr', data=data)
                rp = run.write_replay(oid, {'obligation': oid, 'detail': bad}, script)
                run.ob(oid, FAILED, 'COMP', 'cpython', detail='; '.join(bad), witness=rp, confirmed=True, func='flowattr')
            else:
                run.ob(oid, DISCHARGED, 'COMP', 'cpython', func='flowattr')
    return n

BR_OPS = [[0x70 + i] for i in range(16)] + [[0x0F, 0x80 + i] for i in range(16)] + [[0xE0], [0xE1], [0xE2], [0xE3], [0xE8], [0xE9], [0xEB]]
DISP = {1: [0x00, 0x01, 0x7F, 0x80, 0xFF, 0xFE], 2: [0x0000, 0x0001, 0x7FFF, 0x8000, 0xFFFF], 4: [0, 1, 0x7F, 0x80, 0x7FFFFFFF, 0x80000000, 0xFFFFFFFF, 0xFFFFFF00]}
OFFS = [0, 0x1000, 0xFFFF, 0x10000, 0x7FFFFFFF, 0xFFFFFFFA, 0xFFFFFFFF - 2, 0xFFFFFFFF]

def check_branch(bs, off):
    from miasmx.arch.ia32_arch import x86mnemo
    from specs import x86dec
    sp = x86dec.decode(bs)
    ins = x86mnemo.dis(bs)
    if sp is None or ins is None: return None
    out = []
    if ins.l != sp['length']:
        return [('length', 'miasmX consumes %d bytes, the architecture %d' % (ins.l, sp['length']))]
    ins.offset = off
    try:
        nf = ins.getnextflow()
        if nf != off + sp['length']: out.append(('next', 'getnextflow() = 0x%x, offset+length = 0x%x' % (nf, off + sp['length'])))
    except Exception as ex:
        out.append(('next', 'getnextflow raised %r' % (ex,)))
    rel = [o for o in sp['ops'] if o[0] == 'rel']
    if rel:
        want = (off + sp['length'] + rel[0][1]) % (1 << sp['opsize'])
        try:
            d = ins.getdstflow()
            if not isinstance(d, list) or len(d) != 1 or int(d[0]) != want:
                out.append(('target', 'getdstflow() = %s, architectural target 0x%x' % (['0x%x' % int(x) for x in d] if isinstance(d, list) else d, want)))
        except Exception as ex:
            out.append(('target', 'getdstflow raised %s: %s' % (type(ex).__name__, ex)))
    if sp['mnem'] in x86dec.EXCLUDED:
        return out          # syscall/sysenter/sysexit/sysret: either classification is defensible (property text)
    want = spec_flow(sp['mnem'])
    got = (bool(ins.breakflow()), bool(ins.splitflow()), bool(ins.dstflow()))
    if got[0] != want[0] or got[1] != want[1] or (want[1] and not got[2]):
        out.append(('class', 'breakflow/splitflow/dstflow %s, architecture %s' % (got, want)))
    return out

def ob_branches(run, tier):
    from bounded import x86enum
    x86enum.quiet()
    n = 0
    groups = {}
    for op in BR_OPS:
        for pre in ([], [0x66], [0x2E], [0x3E], [0x67], [0x66, 0x66], [0x67, 0x67], [0x66, 0x2E], [0x2E, 0x66], [0x66, 0x67], [0x66, 0x66, 0x66]):     # a repeated size prefix is idempotent, not a toggle
            for size in (1, 2, 4):
                for d in DISP[size]:
                    bs = bytes(pre + op) + d.to_bytes(size, 'little') + b'\x90' * 4
                    for off in OFFS:
                        r = check_branch(bs, off)
                        if r is None: continue
                        n += 1
                        for (clause, msg) in r:
                            key = ('%s%s' % (''.join('%02x' % p for p in pre) + ':' if pre else '', ''.join('%02x' % b for b in op)), clause)
                            g = groups.setdefault(key, [0, bs.hex(), off, msg])
                            g[0] += 1
    # other block-ending / continuing instructions through the decoder: classification end to end
    for hx in ['c3', 'c20400', 'cb', 'ca0400', 'cf', 'f4', '0f0b', 'cc', 'cd80', 'ce', 'ffe0', 'ff20', 'ffd0', 'ff10', 'ff28', 'ff18', 'ea000000000000', '9a000000000000', '90', '01d8', 'a4', 'd8c1', '0f58c1', '0f05', '0f34']:
      for pre in ('', '66', 'f366', '2e'):       # the same instructions under an operand-size prefix (other table rows / substitute mnemonics: iret, ret, pushf ...)
        bs = binascii.unhexlify(pre + hx)
        for off in (0, 0xFFFFFFF0):
            r = check_branch(bs + b'\x90' * 4, off)
            if r is None: continue
            n += 1
            for (clause, msg) in r:
                g = groups.setdefault((pre + hx, clause), [0, (bs + b'\x90' * 4).hex(), off, msg])
                g[0] += 1
    # history: decodes in 16-bit address / operand size share table entries (operand descriptors) with the 32-bit forms; after them every
    # plain encoding must still give what it gave before
    from miasmx.arch.ia32_arch import x86mnemo, u16
    for hx in HISTORY:
        try: x86mnemo.dis(binascii.unhexlify(hx))
        except Exception: pass
        try: x86mnemo.dis(binascii.unhexlify(hx), {'opmode': u16, 'admode': u16})
        except Exception: pass
    for op in BR_OPS:
        for size in (1, 2, 4):
            for d in DISP[size][:3]:
                bs = bytes(op) + d.to_bytes(size, 'little') + b'\x90' * 4
                r = check_branch(bs, OFFS[0])
                if r is None: continue
                n += 1
                for (clause, msg) in r:
                    key = (''.join('%02x' % b for b in op), clause)
                    if key in groups: continue          # already failing before the history: not a history effect
                    g = groups.setdefault((key[0], clause + '@after-16bit-decodes'), [0, bs.hex(), OFFS[0], msg + ' (only after decoding %s in 16-bit modes in the same process)' % ' '.join(HISTORY)])
                    g[0] += 1
    return n, groups

HISTORY = ['67e80000', '670f840000', '670f850000', '67e90000', '67eb00', '66e80000', '67e2fe', '67e300', '6667e80000']

def replay(kind, data):
    from bounded import x86enum
    x86enum.quiet()
    if kind == 'branch' and data['clause'].endswith('@after-16bit-decodes'):
        from miasmx.arch.ia32_arch import x86mnemo, u16
        for hx in HISTORY:
            try: x86mnemo.dis(binascii.unhexlify(hx))
            except Exception: pass
            try: x86mnemo.dis(binascii.unhexlify(hx), {'opmode': u16, 'admode': u16})
            except Exception: pass
        r = check_branch(binascii.unhexlify(data['hex']), data['offset'])
        for x in r or []: print(x)
        return 1 if any(x[0] + '@after-16bit-decodes' == data['clause'] for x in (r or [])) else 0
    if kind == 'flowfn':
        r = native_flow(data); print(r); return 1 if r else 0
    if kind == 'attr':
        from miasmx.arch.ia32_arch import x86mndb, bkf, spf, dtf
        want = spec_flow(data['name'])
        bad = 0
        for r in x86mndb.mnemo_lookup[data['name']]:
            got = (bool(r.modifs[bkf]), bool(r.modifs[spf]), bool(r.modifs[dtf]))
            print(data['name'], r.opc, 'attributes', got, 'architecture', want)
            if got[0] != want[0] or got[1] != want[1] or (want[1] and not got[2]) or (not want[0] and got[2]): bad = 1
        return bad
    r = check_branch(binascii.unhexlify(data['hex']), data['offset'])
    for x in r or []: print(x)
    return 1 if any(x[0] == data['clause'] for x in (r or [])) else 0

def main(argv):
    tier, seed, rest = common.parse_args(argv)
    common.use_repo()
    sys.setrecursionlimit(10000)
    run = Run('C17', tier, seed, 'other', 'cd /verif && ./vcheck C17 --tier %s' % tier)
    ob_smt(run)
    nt = ob_table(run)
    n, groups = ob_branches(run, tier)
    for (key, clause), (cnt, hx, off, msg) in sorted(groups.items()):
        oid = 'C17:branch[%s]:%s' % (key, clause)
        script = REPLAY % dict(verif=common.VERIF, repo=common.REPO, kind='branch', data={'hex': hx, 'offset': off, 'clause': clause})
        rp = run.write_replay(oid, {'obligation': oid, 'detail': msg}, script)
        run.ob(oid, FAILED, 'BND', 'cpython-enum', detail='%d cases, e.g. %s at offset 0x%x: %s' % (cnt, hx, off, msg), witness=rp, confirmed=True, func='getdstflow')
    run.bulk('(encoding, displacement, offset) cases with the architectural target/classification', n - sum(g[0] for g in groups.values()), 'BND', 'cpython-enum', 0.0, BOUNDED_OK)
    run.evaluations = n + nt
    run.distinct = n + nt
    run.rule = ('table: every row of every mnemonic; branches: 39 direct-branch opcodes x prefixes {none,66,2E,3E} x rel8/rel16/rel32 boundary displacements x 8 offsets incl. 2^32-1; plus 25 other instructions')
    run.explanation = 'address arithmetic of getnextflow/getdstflow proved from the AST for all values; attribute table decided completely; displacement decoding end to end bounded'
    run.trust('z3, pyvc; specs/x86dec.py (flow classification and rel decoding); contracts.modint (proved in C14)')
    return run.finish()

if __name__ == '__main__':
    sys.exit(main(sys.argv[1:]))
