"""C05 - expression simplification preserves meaning and terminates.

Proved sub-contracts (SMT-A): parity().   Deciding contract on expr_simp (shape-bounded SMT): for every
enumerated well-typed tree e (built fresh), width(expr_simp(e)) == width(e) and
forall valuation. den(expr_simp(e)) == den(e)  -- one z3 query per tree, all valuations at once.
"""
import sys, os, time, random, signal, itertools, multiprocessing, traceback, json
from vlib import common
from vlib.common import Run, DISCHARGED, FAILED, BOUNDED_OK, UNDECIDED, DOWNGRADED, ENGINE_ERR, Ob

REPLAY = '''
import sys, os
sys.path.insert(0, %(verif)r); sys.path.insert(0, %(repo)r)
sys.dont_write_bytecode = True
sys.setrecursionlimit(10000)
from bounded import gen
from specs import irsem
from miasmx.expression.expression_helper import expr_simp
d = %(desc)r
val = %(val)r
e = gen.build(d)
print('expression :', e)
try:
    r = expr_simp(gen.build(d))
except Exception as ex:
    print('expr_simp raised %%r' %% (ex,)); sys.exit(1 if %(expect_raise)r else 3)
print('simplified :', r)
if %(frame)r:
    e2 = gen.build_shared(d) if %(shared)r else gen.build(d)
    expr_simp(e2)
    print('argument after the call:', e2)
    sys.exit(1 if gen.undesc(e2) != d else 0)
if %(shared)r:
    r = expr_simp(gen.build_shared(d))
    print('simplified (shared nodes):', r)
if val is None:
    issues = irsem.welltyped(r)
    print('typing issues of the result:', issues)
    if issues: sys.exit(1)
    w1, w2 = irsem.width(e), irsem.width(r)
    print('widths', w1, w2); sys.exit(1 if w1 != w2 else 0)
st = irsem.CState(val['regs'], dict((int(k), v) for k, v in val['mem'].items()), memdefault=lambda a: 0)
v1, v2 = irsem.ev(e, st), irsem.ev(r, st)
print('valuation  :', val)
print('value of original   : 0x%%x' %% v1)
print('value of simplified : 0x%%x' %% v2)
sys.exit(1 if v1 != v2 else 0)
'''

HISTORY_REPLAY = '''
import sys, os
sys.path.insert(0, %(verif)r); sys.path.insert(0, %(repo)r)
sys.dont_write_bytecode = True
sys.setrecursionlimit(10000)
from bounded import gen as _gen
from miasmx.expression.expression_helper import expr_simp as _simp
for _d in %(hist)r:
    try: _simp(_gen.build(_d))
    except Exception: pass
'''

class _Timeout(Exception):
    pass
def _alarm(sig, frm):
    raise _Timeout()

def check_tree(d, timeout_ms=10000):
    """returns (status, clause, detail, witness)"""
    from bounded import gen
    from liftvc import equiv, den as D
    from miasmx.expression.expression_helper import expr_simp
    e1 = gen.build(d)
    e2 = gen.build(d)
    signal.signal(signal.SIGALRM, _alarm)
    signal.alarm(5)
    try:
        r = expr_simp(e2)
        signal.alarm(0)
    except _Timeout:
        # a second, patient attempt on a fresh copy before non-termination is claimed (bounded observation: 60 s, more on a busy machine)
        e2 = gen.build(d)
        signal.alarm(common.patience(60))
        try:
            r = expr_simp(e2)
            signal.alarm(0)
        except _Timeout:
            return ('failed', 'terminates', 'expr_simp did not return within %d s (bounded observation)' % common.patience(60), {'desc': d, 'val': None, 'raise': True})
        except Exception as ex:
            signal.alarm(0)
            return ('failed', 'noraise', 'expr_simp raised %s: %s' % (type(ex).__name__, ex), {'desc': d, 'val': None, 'raise': True})
    except RecursionError:
        signal.alarm(0)
        return ('failed', 'terminates', 'expr_simp: RecursionError', {'desc': d, 'val': None, 'raise': True})
    except Exception as ex:
        signal.alarm(0)
        return ('failed', 'noraise', 'expr_simp raised %s: %s' % (type(ex).__name__, ex), {'desc': d, 'val': None, 'raise': True})
    finally:
        signal.alarm(0)
    # frame: expr_simp must not modify the nodes of its argument (the .simp memo aside)
    if gen.undesc(e2) != d:
        return ('failed', 'frame', 'expr_simp modified its argument in place: now %s' % e2, {'desc': d, 'val': None, 'raise': False, 'frame': True})
    res = _compare(d, e1, r, timeout_ms, shared=False)
    if res[0] != 'ok':
        return res
    if gen.has_repeat(d):
        # the same tree as a DAG (equal sub-terms are one object, as in lifted semantics)
        e3 = gen.build_shared(d)
        signal.alarm(5)
        try:
            r3 = expr_simp(e3)
        except _Timeout:
            e3 = gen.build_shared(d)
            signal.alarm(common.patience(60))
            try:
                r3 = expr_simp(e3)
                signal.alarm(0)
            except _Timeout:
                return ('failed', 'terminates', 'expr_simp (shared nodes) did not return within %d s' % common.patience(60), {'desc': d, 'val': None, 'raise': True, 'shared': True})
            except Exception as ex:
                signal.alarm(0)
                return ('failed', 'noraise', 'expr_simp (shared nodes) raised %s: %s' % (type(ex).__name__, ex), {'desc': d, 'val': None, 'raise': True, 'shared': True})
        except Exception as ex:
            return ('failed', 'noraise', 'expr_simp (shared nodes) raised %s: %s' % (type(ex).__name__, ex), {'desc': d, 'val': None, 'raise': True, 'shared': True})
        finally:
            signal.alarm(0)
        if gen.undesc(e3) != d:
            return ('failed', 'frame', 'expr_simp modified its (shared-node) argument in place: now %s' % e3, {'desc': d, 'val': None, 'raise': False, 'frame': True, 'shared': True})
        res3 = _compare(d, e1, r3, timeout_ms, shared=True)
        if res3[0] != 'ok':
            return res3
    return res

def _compare(d, e1, r, timeout_ms, shared):
    from bounded import gen
    from liftvc import equiv
    verdict, info, st = equiv.prove_equal(e1, r, timeout_ms)
    tag = ' (shared nodes)' if shared else ''
    if verdict == 'equal':
        return ('ok', 'sem', info, None)
    if verdict == 'width':
        return ('failed', 'width', 'width changes%s: %s' % (tag, info), {'desc': d, 'val': None, 'raise': False, 'shared': shared})
    if verdict == 'illtyped':
        return ('failed', 'welltyped', 'result is ill-typed%s: %s' % (tag, info), {'desc': d, 'val': None, 'raise': False, 'shared': shared})
    if verdict == 'different':
        differs, v1, v2 = equiv.concrete_differs(gen.build(d), r, info)
        if differs:
            return ('failed', 'sem', '%s simplifies%s to %s; valuation %s gives 0x%x vs 0x%x' % (gen.build(d), tag, r, info['regs'], v1, v2),
                    {'desc': d, 'val': info, 'raise': False, 'shared': shared})
        return ('engine', 'sem', 'z3 model does not replay in the concrete interpreter: %s -> %s, %s' % (e1, r, info), None)
    return _fallback(d, r, info, st)

def _fallback(d, r, info, st):
    from bounded import gen
    # unknown: bounded fallback on random valuations
    import zlib
    rng = random.Random(zlib.crc32(gen.dstr(d).encode()))
    names = sorted(st.regs.keys())
    for i in range(200):
        regs = dict((n, rng.choice([0, 1, (1 << s) - 1, 1 << (s - 1), rng.getrandbits(s)]) & ((1 << s) - 1)) for (n, s) in names)
        seed = rng.getrandbits(32)
        val = {'regs': regs, 'mem': {}}
        from specs import irsem
        cst = irsem.CState(regs, {}, memdefault=lambda a, seed=seed: (a * 2654435761 + seed) >> 7 & 0xff)
        v1, v2 = irsem.ev(gen.build(d), cst), irsem.ev(r, cst)
        if v1 != v2:
            return ('unknown-failed', 'sem', 'random valuation differs', None)
    return ('downgraded', 'sem', 'z3 %s; 200 random valuations agree' % info, None)

def _work(batch):
    common.use_repo()
    sys.setrecursionlimit(10000)
    from bounded import gen
    out = {'ok': 0, 'syntactic': 0, 'secs': 0.0, 'fails': [], 'down': 0, 'n': 0, 'changed': 0}
    t0 = time.time()
    for d in batch:
        out['n'] += 1
        try:
            status, clause, detail, wit = check_tree(d)
        except Exception:
            status, clause, detail, wit = 'engine', 'crash', traceback.format_exc()[-800:], None
        if status == 'ok':
            out['ok'] += 1
            if detail != 'syntactic':
                out['changed'] += 1
        elif status == 'downgraded':
            out['down'] += 1
        else:
            if wit is not None: wit = dict(wit, pos=out['n'] - 1)
            out['fails'].append((gen.dstr(d), status, clause, detail, wit))
    out['secs'] = time.time() - t0
    return out

def corpus(tier, seed):
    from bounded import gen
    rng = random.Random(seed)
    seen = set()
    trees = []
    def add(d):
        k = gen.dstr(d)
        if k not in seen:
            seen.add(k)
            trees.append(d)
    widths = (8, 32) if tier == 'quick' else gen.WIDTHS
    for w in gen.WIDTHS:
        for d in gen.templates(w):
            add(d)
    for w in widths:
        for d in gen.depth1(w, small=(tier == 'quick' and w != 8)):
            add(d)
    for w in ((8,) if tier == 'quick' else (1, 8, 32)):
        for d in gen.depth2(w):
            add(d)
    n_rand = 6000 if tier == 'quick' else 150000
    for i in range(n_rand):
        w = rng.choice(gen.WIDTHS)
        add(gen.random_tree(rng, w, rng.choice((2, 3, 3, 4))))
    return trees

def parity_contract(run):
    """SMT-A: parity(a) == 1 iff a & 0xFF has an even number of one bits, for all Python ints a
       (loop bounded by 8 iterations because tmp < 256: unrolled with the unwinding assertion on)."""
    import z3
    from pyvc.contract import Contract
    from pyvc import engine
    from pyvc.runner import resolve
    qn = 'miasmx.expression.expression_helper:parity'
    def post(ctx, res, a):
        from specs.duck import is_sym
        if is_sym(a):
            lo = a % 256
            bits = [(lo / (1 << i)) % 2 for i in range(8)]
            s = sum(bits[1:], bits[0])
            return res == z3.If(s % 2 == 0, 1, 0)
        return res == (1 if bin(a & 0xff).count('1') % 2 == 0 else 0)
    c = Contract(qn, pre=lambda ctx, a: True, post=post)
    mod, node, seg, path = resolve(qn)
    run.function(qn, seg, path, node.lineno)
    def make_args(ctx):
        a = z3.Int('a')
        return [a], {'a': a}
    V = engine.verify_function(qn, node, vars(mod), c, {qn: c}, make_args, timeout_ms=60000, loop_bound=9)
    return V

def main(argv):
    tier, seed, rest = common.parse_args(argv)
    common.use_repo()
    sys.setrecursionlimit(10000)
    run = Run('C05', tier, seed, 'other', 'cd /verif && ./vcheck C05 --tier %s' % tier)
    from bounded import gen
    trees = corpus(tier, seed)
    nproc = min(16, os.cpu_count() or 4)
    B = 200
    batches = [trees[i:i + B] for i in range(0, len(trees), B)]
    ctx = multiprocessing.get_context('fork')
    with ctx.Pool(nproc) as pool:
        results = pool.map(_work, batches, chunksize=1)
    n_ok = sum(r['ok'] for r in results)
    n_changed = sum(r['changed'] for r in results)
    secs = sum(r['secs'] for r in results)
    run.bulk('expr_simp trees', n_ok, 'SMT-shape', 'z3', secs, DISCHARGED)
    run.bulk('expr_simp trees (solver unknown; 200 random valuations)', sum(r['down'] for r in results), 'BND', 'cpython-random', 0.0, DOWNGRADED)
    for bi, r in enumerate(results):
        for (k, status, clause, detail, wit) in r['fails']:
            oid = 'C05:expr_simp[%s]:%s' % (k, clause)
            if status == 'engine':
                run.ob(oid, ENGINE_ERR, 'SMT-shape', 'z3', detail=detail)
                continue
            rp = None
            confirmed = False
            n_fail_seen = getattr(run, '_nfail', 0)
            run._nfail = n_fail_seen + 1
            if wit is not None and n_fail_seen >= 30:
                # already confirmed in-process by the concrete interpreter on the real expr_simp result;
                # only the first 30 get a native replay script (only 40 VIOLATION lines are printed)
                run.ob(oid, FAILED, 'SMT-shape', 'z3', detail=detail, witness={'desc': repr(wit['desc']), 'val': wit['val']}, confirmed=True, func='expr_simp')
                continue
            if wit is not None:
                script = REPLAY % dict(verif=common.VERIF, repo=common.REPO, desc=wit['desc'], val=wit['val'], expect_raise=wit['raise'], frame=wit.get('frame', False), shared=wit.get('shared', False))
                rp = run.write_replay(oid, {'obligation': oid, 'detail': detail}, script)
                rc, outp = common.native_run(rp, timeout=60)
                confirmed = rc == 1
                if not confirmed and rc == 0 and wit.get('pos') is not None:
                    # correct in a fresh process, wrong in the worker: the result depends on the trees simplified before it in the same
                    # process.  Replay the worker's history up to the failing tree.
                    hist = batches[bi][:wit['pos']]
                    script2 = HISTORY_REPLAY % dict(verif=common.VERIF, repo=common.REPO, hist=hist) + script.split("sys.setrecursionlimit(10000)", 1)[1]
                    rp = run.write_replay(oid, {'obligation': oid, 'detail': detail + ' [only after the %d trees simplified before it in the same process]' % len(hist)}, script2)
                    rc, outp = common.native_run(rp, timeout=300)
                    confirmed = rc == 1
                    if confirmed:
                        detail += ' -- only after %d other trees were simplified in the same process (history-dependent result)' % len(hist)
                if not confirmed:
                    run.ob(oid, ENGINE_ERR, 'SMT-shape', 'z3', detail='native replay does not confirm (rc=%s): %s | %s' % (rc, detail, outp[-300:]))
                    continue
            run.ob(oid, FAILED, 'SMT-shape', 'z3', detail=detail, witness=rp, confirmed=confirmed, func='expr_simp')
    # proved helper contract
    try:
        V = parity_contract(run)
        if V.unsupported:
            run.ob('C05:parity:generate', DOWNGRADED, 'SMT-A', 'pyvc', detail=V.unsupported)
        else:
            for cl, d in sorted(V.clauses.items()):
                if d['status'] == 'sat':
                    # replay the counter-model on the real function before calling it a violation
                    from miasmx.expression.expression_helper import parity as real_parity
                    try: a = int((d['witness'] or {}).get('a', 0))
                    except Exception: a = 0
                    try:
                        got = real_parity(a); want = 1 - bin(a & 0xFF).count('1') % 2
                        bad = (got != want)
                    except Exception as ex:
                        got, want, bad = repr(ex), None, True
                    if bad:
                        run.ob('C05:parity:%s' % cl, FAILED, 'SMT-A', 'z3', d['secs'], detail='parity(%d) = %s, expected %s' % (a, got, want), confirmed=True, func='parity')
                    else:
                        run.ob('C05:parity:%s' % cl, DOWNGRADED, 'SMT-A', 'z3', d['secs'], detail='counter-model %s does not replay on the real function (uninterpreted bit operations); all 256 low bytes checked natively instead' % d['witness'], func='parity')
                        wrong = [a for a in list(range(256)) + [256, 257, -1, -255, 1 << 40] if real_parity(a) != 1 - bin(a & 0xFF).count('1') % 2]
                        run.ob('C05:parity:twin', FAILED if wrong else BOUNDED_OK, 'BND', 'cpython-enum', detail=('parity(%d) wrong' % wrong[0]) if wrong else '261 inputs', confirmed=bool(wrong), func='parity')
                    continue
                st = {'unsat': DISCHARGED, 'unknown': DOWNGRADED}.get(d['status'], FAILED)
                run.ob('C05:parity:%s' % cl, st, 'SMT-A', 'z3', d['secs'], detail=str(d['detail']) + ' ' + str(d['witness']), confirmed=False, func='parity')
    except Exception:
        run.ob('C05:parity:crash', ENGINE_ERR, 'SMT-A', 'pyvc', detail=traceback.format_exc()[-800:])
    run.evaluations = len(trees)
    run.distinct = n_changed
    run.rule = ('trees = rule-directed templates at widths 1/8/16/32/64 (every _expr_simp rewrite rule x boundary constants) + all depth-1 trees '
                '(quick: widths 8,32; thorough: all) + two-level operator trees over {a,b,0,1,msb,all-ones} (quick: width 8) + %s seeded random trees of depth 2..4; '
                'each tree is built fresh, simplified by the real expr_simp, and den(e) != den(simp e) is refuted by z3 for all valuations of identifiers and memory; '
                'distinct_nontrivial counts trees whose simplified form differs syntactically from the original' % ('6000' if tier == 'quick' else '150000'))
    run.explanation = ('shape-bounded, valuation-unbounded: every enumerated tree is proved equivalent to its simplification for ALL valuations (z3 QF_AUFBV); '
                       'termination is a bounded observation (5 s alarm per tree); _expr_simp/merge_sliceto_slice themselves are not verified inductively (DESIGN 6)')
    run.samples = [gen.dstr(d) for d in trees[:3] + trees[len(trees) // 2: len(trees) // 2 + 3] + trees[-3:]]
    run.trust('z3 5.1'); run.trust('S-ir denotation liftvc/den.py (audited against specs/irsem.py)')
    run.assume('flat memory model; segment bases of es/cs/ss/ds are 0')
    run.assume('trees outside the enumerated shapes/constants are not covered (bounded in shape, unbounded in values)')
    return run.finish()

if __name__ == '__main__':
    sys.exit(main(sys.argv[1:]))
