"""C19 - assembler family check; see checks/asmfam.py"""
import sys
from checks import asmfam
RULE = 'abstract instructions = spec decodings of the structural byte enumeration (integer + x87 maps, prefixes none/66/64/F0/F3, every ModRM, SIB grid, two paddings), one per (mnemonic, operand kinds/sizes, register class, addressing structure): ~17k'
TEXT = {
 'C02': ('Intel and AT&T spellings (plus the 15 boundary immediates of the property at the operand width) are assembled by the real asm/asm_att; EVERY candidate is decoded by the independent spec decoder and must be the requested instruction with its full length', 'bounded run-time contract on asm/asm_att: forall c in asm(line(A)): spec_decode(c) == (len(c), A); the numeric helper contracts of DESIGN 5/C02 (check_imm_size, ad_to_generic) are not proved'),
 'C03': ('for every candidate c of asm(line(A)): dis(c) accepts, consumes len(c), and c in asm(str(dis(c))); for every enumerated byte string that GNU as reproduces from the reference spelling (canonical): b in asm(str(dis(b)))', 'bounded fixpoint contract over generated lines and canonical byte strings; canonicity is decided by executing GNU as on the spec rendering, as the property defines it'),
 'C09': ('for every enumerated canonical byte string: b in asm(str(i)) and b in asm_att(att(i)); when no raw relative displacement or absolute numeric memory operand is involved, both renderings are given to the real GNU as (--32, Intel and AT&T mode) and its output must spec-decode to the same instruction', 'bounded; GNU as is an external function executed for real (batched), its answer compared through the spec decoder'),
 'C19': ('for every generated line: upper-case registers, lower-case size keywords, extra blanks/tabs, hexadecimal and signed numbers, index-first and displacement-first term order, disp[reg] form, st(0) for st, and the AT&T transliteration must yield the same SET of candidates', 'bounded metamorphic contract on asm/asm_att; the term algebra dict_add/dict_sub/dict_mul IS verified from its AST for all integer coefficients over every key shape (SMT-A, checks/C19smt.py)'),
}
def _smt(run):
    from checks import C19smt, asmsse
    C19smt.ob_smt(run)
    asmsse.ob(run, 'C19')       # spellings of the MMX/SSE lines
    from checks import asmrel
    asmrel.ob(run, 'C19')        # relative branches

if __name__ == '__main__':
    sys.exit(asmfam.run_family('C19', sys.argv[1:], 'other', RULE + '; ' + TEXT['C19'][0], TEXT['C19'][1],
                               ['specs/x86dec.py (reference disassembler)', 'bounded/asmgen.py printers (audited against GNU as: 16475 of 16878 generated lines assemble to an encoding of the intended instruction)'] + (['/usr/bin/as (GNU assembler, executed)'] if 'C19' in ('C03', 'C09') else []),
                               ['MMX/SSE, relative branches with a numeric displacement are checked separately against the spec decoder (checks/asmrel.py: all spellings of jmp/call/jcc/loop*/jecxz x 24 boundary displacements); far pointers are outside the generator', 'lines the assembler rejects with ValueError are not constrained',
                                'term algebra proof: key sets bounded to {eax, ebx, imm, symb{s}, symb{s,t}} per operand; arg2txt (spelling memo) is an opaque callee that may raise ValueError; size/ad/txt keys are outside the abstract view'],
                               extra=_smt))
