"""SMT-A part of C06: the constant evaluators eval_abs.eval_op_* are verified from their AST for ALL operand values (callee contracts: the
fixed-width integer operators proved in C14).  eval_ExprOp calls deal_op[op](self, args, op_size, cast_int) with args = the .arg of
ExprInt operands, all of class cast_int (width op_size), and wraps the result as ExprInt(cast_int(ret)).

Contract of eval_op_X(self, args, op_size, cast_int) (from the property: "evaluating an expression whose inputs are constants yields the
constant the expression denotes"):  cast_int(result) has the value  spec_X(values of args) mod 2^op_size , with spec_X the arithmetic
meaning of the IR operator (liftvc/den.py is the bit-vector statement of the same table):
   + sum, * product, - difference / negation, & | ^ bitwise (same uninterpreted bit operations on both sides, exact for masks), ! complement,
   == and < (unsigned) as 0/1, *lo low half of the product, *hi high half of the product (op_size <= 32).
Arity 1..4 for the n-ary operators (loops are unrolled by the concrete list length), every width 8/16/32/64.
Shifts, rotates, division and bit scans are NOT verified here (non-linear in the count / bit-level): they stay with the shape-bounded
SMT of checks/C06.py.
"""
import sys, os
from vlib import common
from vlib.common import DISCHARGED, FAILED, DOWNGRADED, ENGINE_ERR, BOUNDED_OK

REPLAY = '''
import sys, os
sys.path.insert(0, %(verif)r); sys.path.insert(0, %(repo)r)
sys.dont_write_bytecode = True
from checks import C06smt
sys.exit(C06smt.replay(%(data)r))
'''
EA = 'miasmx.expression.expression_eval_abstract'
OPS = {  # name -> (function, arities, widths)
    '+': ('eval_op_plus', (1, 2, 3, 4), (8, 16, 32, 64)),
    '*': ('eval_op_mult', (1, 2, 3), (8, 16, 32, 64)),
    '-': ('eval_op_minus', (1, 2), (8, 16, 32, 64)),
    '&': ('eval_op_and', (1, 2, 3, 4), (8, 16, 32, 64)),
    '|': ('eval_op_or', (1, 2, 3, 4), (8, 16, 32, 64)),
    '^': ('eval_op_xor', (1, 2, 3, 4), (8, 16, 32, 64)),
    '!': ('eval_op_not', (1,), (8, 16, 32, 64)),
    '==': ('eval_op_eq', (2,), (8, 16, 32, 64)),
    '<': ('eval_op_inf', (2,), (8, 16, 32, 64)),
    '*lo': ('eval_op_mullo', (2,), (8, 16, 32)),
    '*hi': ('eval_op_mulhi', (2,), (8, 16, 32)),
    # x86 named operators: signed high half, the 8-bit multiplies (operands are the 16/32-bit registers, only their low bytes count)
    'imulhi': ('eval_op_imulhi', (2,), (8, 16, 32)),
    'umul08': ('eval_op_umul08', (2,), (16, 32)),
    'imul08': ('eval_op_imul08', (2,), (16, 32)),
    # double-width dividend hi:lo by a single-width divisor; ValueError iff divisor 0 or the quotient does not fit (#DE)
    'div': ('eval_op_div', (3,), (8, 16, 32)),
    'rem': ('eval_op_rem', (3,), (8, 16, 32)),
    'idiv': ('eval_op_idiv', (3,), (8, 16, 32)),
    'irem': ('eval_op_irem', (3,), (8, 16, 32)),
}
DIVS = ('div', 'rem', 'idiv', 'irem')
# shifts: the count is enumerated (every count below the width is one obligation set, exact encoding x * 2^k / x // 2^k), and one more
# set for ALL counts >= width with the count symbolic.  'arities' holds the count tags here.
SHIFTS = {'<<': 'eval_op_lshift', '>>': 'eval_op_rshift', 'a>>': 'eval_op_arshift', '<<<': 'eval_op_rotl', '>>>': 'eval_op_rotr'}
ROTS = ('<<<', '>>>')
for _op, _fn in SHIFTS.items():
    OPS[_op] = (_fn, None, (8, 16, 32, 64))
def shift_tags(n, op=None):
    if op in ROTS:
        # rotates: every count 0..2n-1 (both sides of the reduction r %= op_size) and the largest count; for the other counts >= 2n the
        # argument is the C14 contract of `%` in the first statement of the body (not discharged per count: stated in DESIGN 12.2)
        return list(range(2 * n)) + [(1 << n) - 1]
    return list(range(n)) + ['big']

def is_big(k, n):
    """the count is 'every value >= n' (symbolic) or a concrete value >= n"""
    return hasattr(k, 'sexpr') or k >= n

def _sg(v, n, ite):
    return ite(v >= (1 << (n - 1)), v - (1 << n), v)

def divmod_spec(op, vals, n, ite=None, Or=None):
    """(quotient, remainder, divide-error condition) of the double-width dividend vals[0]:vals[1] by vals[2]; unsigned for div/rem,
    signed with the quotient truncated toward zero for idiv/irem (IA-32 DIV/IDIV)"""
    M = 1 << n
    sym = hasattr(vals[0], 'sexpr')
    if ite is None or not sym:
        ite = lambda c, a, b: a if c else b
        Or = lambda *a: any(a)
    elif Or is None:
        import z3
        Or = z3.Or
    div = (lambda a, b: a / b) if sym else (lambda a, b: a // b if b else 0)
    hi, lo, d = vals
    big = hi * M + lo
    if op in ('div', 'rem'):
        q = div(big, d)
        return q, big - q * d, Or(d == 0, q > M - 1)
    sb = _sg(big, 2 * n, ite); sc = _sg(d, n, ite)
    ab = ite(sb < 0, -sb, sb); ac = ite(sc < 0, -sc, sc)
    aq = div(ab, ac)
    q = ite((sb < 0) == (sc < 0), aq, -aq)
    return q, sb - q * sc, Or(d == 0, q < -(M // 2), q > M // 2 - 1)

def div_error(op, vals, n, ite=None, Or=None):
    """the divide-error condition of the architecture (no result): divisor 0 or quotient out of range.  Stated without a division:
    unsigned: hi >= d  (big // d > M-1  <=>  big >= M*d  <=>  hi >= d);  signed: |big| >= |d| * 2^(n-1) except the one more negative value"""
    M = 1 << n
    hi, lo, d = vals
    if ite is None:
        ite = lambda c, a, b: a if c else b
        Or = lambda *a: any(a)
    if op in ('div', 'rem'):
        return Or(d == 0, hi >= d)
    big = _sg(hi * M + lo, 2 * n, ite)
    c = _sg(d, n, ite)
    H = M // 2
    ab = ite(big < 0, -big, big); ac = ite(c < 0, -c, c)
    same = (big < 0) == (c < 0)
    # quotient truncated toward zero: |q| = ab // ac ; allowed  q <= H-1 when signs agree, |q| <= H when they differ
    return Or(d == 0, ite(same, ab >= ac * H, ab >= ac * (H + 1)))

def spec(op, vals, n, bitop=None, ite=None):
    """arithmetic meaning of the IR operator on unsigned values < 2^n (Python ints or terms)"""
    M = 1 << n
    if bitop is None:
        bitop = lambda o, a, b: {'&': a & b, '|': a | b, '^': a ^ b}[o]
        ite = lambda c, a, b: a if c else b
    if op == '+':
        r = vals[0]
        for v in vals[1:]: r = r + v
        return r % M
    if op == '*':
        r = vals[0]
        for v in vals[1:]: r = r * v
        return r % M
    if op == '-':
        return (vals[0] - vals[1]) % M if len(vals) == 2 else (-vals[0]) % M
    if op in '&|^':
        r = vals[0] % M
        for v in vals[1:]: r = bitop(op, r, v) % M       # values below 2^n: reducing after every step does not change the meaning
        return r
    if op == '!': return (M - 1 - vals[0]) % M
    if op == '==': return ite(vals[0] == vals[1], 1, 0)
    if op == '<': return ite(vals[0] < vals[1], 1, 0)
    if op == '*lo': return (vals[0] * vals[1]) % M
    if op in SHIFTS:
        x, k = vals
        big = is_big(k, n) and op not in ROTS
        if op == '<<': return 0 if big else (x * (1 << k)) % M
        if op == '>>': return 0 if big else (x // (1 << k) if not hasattr(x, 'sexpr') else x / (1 << k))
        if op in ROTS:
            r = k % n
            if op == '>>>': r = (n - r) % n          # rotating right by r is rotating left by n - r
            if hasattr(x, 'sexpr'):
                return (x * (1 << r)) % M + x / (1 << (n - r))
            return ((x << r) % M) + (x >> (n - r))
        sx = _sg(x, n, ite)
        if big: return ite(x >= M // 2, M - 1, 0)
        return ((sx // (1 << k)) if not hasattr(x, 'sexpr') else (sx / (1 << k))) % M
    if op in DIVS:
        q, r, err = divmod_spec(op, vals, n, ite)
        return (r if op in ('rem', 'irem') else q) % M
    if op == 'imulhi':
        p = _sg(vals[0], n, ite) * _sg(vals[1], n, ite)
        return ((p // M) % M) if not hasattr(vals[0], 'sexpr') else ((p / M) % M)      # floor division, divisor positive
    if op == 'umul08': return ((vals[0] % 256) * (vals[1] % 256)) % M
    if op == 'imul08': return (_sg(vals[0] % 256, 8, ite) * _sg(vals[1] % 256, 8, ite)) % M
    if op == '*hi': return ((vals[0] * vals[1]) // M) % M if not hasattr(vals[0], 'sexpr') else ((vals[0] * vals[1]) / M) % M
    raise ValueError(op)

def contracts(op, n):
    import contracts.modint as cm
    from pyvc.contract import Contract, SObj, cls_of
    from specs.duck import And, bitop, If, is_sym
    C = dict(cm.CONTRACTS)
    fn = OPS[op][0]
    qn = '%s:eval_abs.%s' % (EA, fn)
    def pre(ctx, self, args, op_size, cast_int):
        p = And(*[cm.inv(a) for a in args])
        if op in ('>>', 'a>>') and is_sym(args[1].arg):
            # ASSUMED fact of Python's int >> (listed in the evidence): a value of magnitude below 2^n shifted right by n or more
            # positions is 0, or -1 when negative.  The count is symbolic here, so the encoding keeps >> uninterpreted (py_shr).
            import z3
            from specs.duck import _uf
            a, r = z3.Ints('lem_a lem_r')
            M = 1 << n
            p = And(p, args[1].arg >= n, z3.ForAll([a, r], z3.Implies(z3.And(a >= -M, a < M, r >= n),
                                                            _uf('py_shr')(a, r) == z3.If(a < 0, z3.IntVal(-1), z3.IntVal(0)))))
        elif op in SHIFTS and is_sym(args[1].arg):
            p = And(p, args[1].arg >= n)
        return p
    def post(ctx, res, self, args, op_size, cast_int):
        vals = [a.arg for a in args]
        want = spec(op, vals, n, bitop=bitop, ite=lambda c, a, b: If(c, a, b))
        got = cm.val(res)
        if got is None: return False
        if op in ROTS:
            # ASSUMED fact of Python's int | (listed in the evidence): the two halves of a rotate occupy disjoint bit ranges, and
            # a | b == a + b when a is a non-negative multiple of 2^k and 0 <= b < 2^k.  k is the concrete split point of this count.
            # It is a hypothesis of the postcondition (not of the path), so that path feasibility stays quantifier-free.
            import z3
            from specs.duck import _uf
            r = args[1].arg % n
            k = r if op == '<<<' else n - r
            a, b = z3.Ints('lem_a lem_b')
            por = _uf('py_or')
            ok = z3.And(a >= 0, b >= 0, b < (1 << k), a % (1 << k) == 0)
            lemma = z3.ForAll([a, b], z3.Implies(ok, z3.And(por(a, b) == a + b, por(b, a) == a + b)))
            return z3.Implies(lemma, cm.norm(cast_int, got) == want)
        return cm.norm(cast_int, got) == want
    if op in DIVS:
        C['%s:eval_abs._div_operands' % EA] = Contract('%s:eval_abs._div_operands' % EA, inline=True)     # verified inline, as part of each caller
        # ValueError exactly when the architecture raises #DE (divisor 0 or quotient out of range)
        def cond(ctx, self, args, op_size, cast_int):
            return divmod_spec(op, [a.arg for a in args], n, ite=lambda c, a, b: If(c, a, b))[2]
        return qn, Contract(qn, pre=pre, post=post, raises={'ValueError': cond}, raises_iff=('ValueError',)), C
    return qn, Contract(qn, pre=pre, post=post), C

def native(op, n, vals):
    import logging
    import miasmx.tools.modint as M
    from miasmx.expression.expression_eval_abstract import eval_abs
    cls = getattr(M, 'uint%d' % n)
    m = eval_abs({}, log=logging.getLogger('verif.null'))
    args = [cls(v) for v in vals]
    err = False
    if op in DIVS:
        iv = [int(a) for a in args]
        err = bool(divmod_spec(op, iv, n)[2])
        if err != bool(div_error(op, iv, n)):
            return 'spec self-check: the two statements of the divide-error condition disagree on %s %r' % (op, iv)
    try:
        r = getattr(m, OPS[op][0])(args, n, cls)
        got = int(cls(r))
    except ValueError as ex:
        if err: return None
        return '%s raised %s: %s' % (OPS[op][0], type(ex).__name__, ex)
    except Exception as ex:
        return '%s raised %s: %s' % (OPS[op][0], type(ex).__name__, ex)
    if err:
        return '%s(%s) at %d bits returned %#x, the architecture raises a divide error (no result)' % (OPS[op][0], ', '.join('%#x' % int(a) for a in args), n, got)
    want = spec(op, [int(a) for a in args], n)
    if got != want:
        return '%s(%s) at %d bits = %#x, the operator denotes %#x' % (OPS[op][0], ', '.join('%#x' % int(a) for a in args), n, got, want)
    return None

def replay(data):
    common.use_repo()
    msg = native(data['op'], data['n'], data['vals'])
    print(msg or 'contract holds on this input')
    return 1 if msg else 0

def _job(job):
    op, n, ar = job
    common.use_repo()
    import z3
    from pyvc import engine
    from pyvc.runner import resolve
    from pyvc.contract import SObj
    import miasmx.tools.modint as M
    import miasmx.expression.expression_eval_abstract as E
    qn, top, C = contracts(op, n)
    mod, node, seg, path = resolve(qn)
    cls = getattr(M, 'uint%d' % n)
    def make_args(ctx):
        ins = {}
        args = []
        if op in SHIFTS:
            v = z3.Int('x0'); ins['x0'] = v
            args.append(SObj(cls, {'arg': v}, fresh=False))
            if ar == 'big':
                k = z3.Int('x1'); ins['x1'] = k
            else:
                k = ar
            args.append(SObj(cls, {'arg': k}, fresh=False))
            return [SObj(E.eval_abs, {}, fresh=False), args, n, cls], ins
        for i in range(ar):
            v = z3.Int('x%d' % i); ins['x%d' % i] = v
            args.append(SObj(cls, {'arg': v}, fresh=False))
        me = SObj(E.eval_abs, {}, fresh=False)
        return [me, args, n, cls], ins
    base = 'C06:%s[%s,uint%d,arity%d]' % (OPS[op][0], op, n, ar) if op not in SHIFTS else 'C06:%s[%s,uint%d,count%s]' % (OPS[op][0], op, n, ar if ar == 'big' else '%02d' % ar if ar < 1000 else 'max')
    out = []
    try:
        V = engine.verify_function(qn, node, vars(mod), top, C, make_args, timeout_ms=3000 if op in ROTS else 20000)   # rotates: ms when they hold; a failing one is 'unknown' (quantified hypothesis) and goes to the twin
    except Exception as ex:
        import traceback
        return [(base + ':generate', DOWNGRADED, 0.0, 'generator error: %s' % traceback.format_exc()[-300:], None)]
    if V.unsupported:
        return [(base + ':generate', DOWNGRADED, 0.0, V.unsupported, None)]
    if not V.cover:
        return [(base + ':cover', ENGINE_ERR, 0.0, 'precondition unsatisfiable', None)]
    for cl, d in sorted(V.clauses.items()):
        oid = base + ':' + cl
        if d['status'] == 'unsat':
            out.append((oid, DISCHARGED, d['secs'], None, None))
        elif d['status'] == 'sat':
            w = d['witness'] or {}
            vals = []
            for i in range(2 if op in SHIFTS else ar):
                try: vals.append(int(w.get('x%d' % i, ar if op in SHIFTS and i == 1 else 0)))
                except Exception: vals.append(0)
            msg = native(op, n, vals)
            if msg is None:
                out.append((oid, DOWNGRADED, d['secs'], 'counter-model %s does not replay on the real function (uninterpreted bit operations); bounded twin below' % w, None))
            else:
                out.append((oid, FAILED, d['secs'], '%s; counterexample %s; native: %s' % (d['detail'], w, msg), {'op': op, 'n': n, 'vals': vals}))
        else:
            out.append((oid, DOWNGRADED, d['secs'], 'solver unknown', None))
    return out

def ob_smt(run):
    import multiprocessing
    from pyvc.runner import resolve
    common.use_repo()
    jobs = []
    for op, (fn, ars, ws) in OPS.items():
        qn = '%s:eval_abs.%s' % (EA, fn)
        mod, node, seg, path = resolve(qn)
        run.function(qn, seg, path, node.lineno)
        for n in ws:
            for ar in (ars if op not in SHIFTS else shift_tags(n, op)):
                jobs.append((op, n, ar))
    with multiprocessing.get_context('fork').Pool(min(16, os.cpu_count() or 4)) as pool:
        results = pool.map(_job, jobs, chunksize=1)
    n_ob = 0
    for (op, n, ar), obs in zip(jobs, results):
        qn = '%s:eval_abs.%s' % (EA, OPS[op][0])
        for (oid, st, secs, detail, data) in obs:
            n_ob += 1
            if st == FAILED:
                rp = run.write_replay(oid, {'obligation': oid, 'detail': detail}, REPLAY % dict(verif=common.VERIF, repo=common.REPO, data=data))
                run.ob(oid, FAILED, 'SMT-A', 'z3', secs, detail=detail, witness=rp, confirmed=True, func=qn)
            elif st == DISCHARGED:
                run.ob(oid, DISCHARGED, 'SMT-A', 'z3', secs, func=qn)
            else:
                run.ob(oid, st, 'SMT-A', 'pyvc' if oid.endswith(':generate') else 'z3', secs, detail=detail)
    # bounded twin: boundary values on the real functions
    cnt = bad = 0
    import itertools
    for op, (fn, ars, ws) in OPS.items():
        for n in ws:
            B = sorted(set([0, 1, 2, 3, (1 << (n - 1)) - 1, 1 << (n - 1), (1 << n) - 2, (1 << n) - 1, 0x55 & ((1 << n) - 1), 0xf0 & ((1 << n) - 1)]))
            if op in SHIFTS:
                for x in B:
                    for k in sorted(set(list(range(n + 2)) + [2 * n, (1 << n) - 1])):
                        cnt += 1
                        msg = native(op, n, [x, k])
                        if msg:
                            bad += 1
                            oid = 'C06:%s[%s,uint%d]:twin' % (fn, op, n)
                            rp = run.write_replay(oid, {'obligation': oid}, REPLAY % dict(verif=common.VERIF, repo=common.REPO, data={'op': op, 'n': n, 'vals': [x, k]}))
                            run.ob(oid, FAILED, 'BND', 'cpython-enum', detail=msg, witness=rp, confirmed=True, func=fn)
                            break
                continue
            for ar in ars:
                pool_vals = B if ar <= 2 else B[:6]
                for vals in itertools.product(pool_vals, repeat=ar):
                    cnt += 1
                    msg = native(op, n, list(vals))
                    if msg:
                        bad += 1
                        oid = 'C06:%s[%s,uint%d,arity%d]:twin' % (fn, op, n, ar)
                        rp = run.write_replay(oid, {'obligation': oid}, REPLAY % dict(verif=common.VERIF, repo=common.REPO, data={'op': op, 'n': n, 'vals': list(vals)}))
                        run.ob(oid, FAILED, 'BND', 'cpython-enum', detail=msg, witness=rp, confirmed=True, func=fn)
                        break
    run.bulk('constant evaluators on boundary operands (native twin)', cnt - bad, 'BND', 'cpython-enum', 0.0, BOUNDED_OK)
    return n_ob
