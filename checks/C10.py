"""C10 - decoder and assembler are total: reject cleanly, never crash or over-read.

  SMT-A  : bin_stream_str.readbs against its contract (raises IOError <=> offset+l > len; result is bin[offset:offset+l]; offset' = offset+l;
           the slice stays inside the sequence) -- proved for all offsets/lengths by pyvc + z3.
  STATIC : frame obligation on x86_mn._dis and x86allmncs.get_afs (AST of the current source): the stream object is used only as
           bin.readbs(..), bin.offset (read) and the single restore `bin.offset = init_offset`  =>  with the readbs contract, no byte
           beyond the input is ever read and a truncated instruction raises IOError, which _dis turns into None.
  BND    : dis(bytes) raises nothing, an accepted instruction renders in both syntaxes; decoding at a stream offset == decoding the suffix,
           records the offset and leaves the stream after the instruction; every truncation of an accepted string is reported absent;
           asm/asm_att(text) return a list of bytes or raise ValueError (nothing else), under a time budget.
"""
import sys, os, time, random, itertools, multiprocessing, traceback, binascii, collections, ast, inspect, signal, re
from vlib import common
from vlib.common import Run, DISCHARGED, FAILED, BOUNDED_OK, UNDECIDED, DOWNGRADED, ENGINE_ERR, Ob

REPLAY = '''
import sys, os
sys.path.insert(0, %(verif)r); sys.path.insert(0, %(repo)r)
sys.dont_write_bytecode = True
from checks import C10
sys.exit(C10.replay(%(kind)r, %(data)r))
'''

def exc_class(ex):
    tb = traceback.extract_tb(ex.__traceback__)
    where = ''
    for fr in reversed(tb):
        if '/miasmx/' in fr.filename or '/ply/' in fr.filename:
            where = fr.name; break
    msg = re.sub(r'0x[0-9a-fA-F]+|\d+', 'N', str(ex))[:50]
    return '%s@%s:%s' % (type(ex).__name__, where, msg)

# ------------------------------------------------------------------------------------------------ SMT-A
def ob_readbs(run):
    import z3
    from pyvc import engine
    from pyvc.runner import resolve
    from pyvc.contract import SObj, SSeq
    import contracts.bin_stream as cb
    import miasmx.core.bin_stream as B
    qn = 'miasmx.core.bin_stream:bin_stream_str.readbs'
    c = cb.CONTRACTS[qn]
    mod, node, seg, path = resolve(qn)
    run.function(qn, seg, path, node.lineno)
    def make_args(ctx):
        off, L, l = z3.Int('offset'), z3.Int('len'), z3.Int('l')
        o = SObj(B.bin_stream_str, {'bin': SSeq('bin', L), 'offset': off, 'l': L}, fresh=False)
        ctx.entry_offset = off
        return [o, l], {'offset': off, 'len': L, 'l': l}
    V = engine.verify_function(qn, node, vars(mod), c, {qn: c}, make_args)
    if V.unsupported:
        run.ob('C10:bin_stream_str.readbs:generate', DOWNGRADED, 'SMT-A', 'pyvc', detail=V.unsupported)
        # bounded twin
        bad = twin_readbs()
        run.ob('C10:bin_stream_str.readbs:twin', FAILED if bad else BOUNDED_OK, 'BND', 'cpython-enum', detail=str(bad), confirmed=True)
        return
    for cl, d in sorted(V.clauses.items()):
        oid = 'C10:bin_stream_str.readbs:%s' % cl
        if d['status'] == 'unsat':
            run.ob(oid, DISCHARGED, 'SMT-A', 'z3', d['secs'], func=qn)
        elif d['status'] == 'sat':
            w = d['witness'] or {}
            bad = twin_readbs(w)
            script = REPLAY % dict(verif=common.VERIF, repo=common.REPO, kind='readbs', data=w)
            rp = run.write_replay(oid, {'obligation': oid, 'inputs': w}, script)
            run.ob(oid, FAILED, 'SMT-A', 'z3', d['secs'], detail='%s; counterexample %s; native: %s' % (d['detail'], w, bad), witness=rp, confirmed=bool(bad), func=qn)
        else:
            run.ob(oid, DOWNGRADED, 'SMT-A', 'z3', d['secs'], detail='solver unknown')
    bad = twin_readbs()
    run.ob('C10:bin_stream_str.readbs:twin', FAILED if bad else BOUNDED_OK, 'BND', 'cpython-enum', detail=str(bad) if bad else 'all (len<=6, offset, l) triples', confirmed=True)

def twin_readbs(w=None):
    """native run-time twin of the readbs contract over small cases (or one model)"""
    from miasmx.core.bin_stream import bin_stream_str
    cases = []
    if w:
        try: cases = [(int(w.get('len', 0)), int(w.get('offset', 0)), int(w.get('l', 1)))]
        except Exception: cases = []
    else:
        cases = [(L, o, l) for L in range(0, 7) for o in range(0, L + 1) for l in range(0, 9)]
    for (L, o, l) in cases:
        if L < 0 or o < 0 or o > L or l < 0 or L > 4096: continue
        data = bytes(range(1, L + 1))
        s = bin_stream_str(data, o)
        try:
            r = s.readbs(l)
        except IOError:
            if not (o + l > L): return 'len=%d offset=%d l=%d raised IOError although the bytes exist' % (L, o, l)
            if s.offset != o: return 'offset changed on the raising path'
            continue
        if o + l > L: return 'len=%d offset=%d l=%d returned %r instead of raising IOError' % (L, o, l, r)
        if r != data[o:o + l] or s.offset != o + l: return 'len=%d offset=%d l=%d returned %r, offset %d' % (L, o, l, r, s.offset)
    return None

# ------------------------------------------------------------------------------------------------ STATIC frame
def ob_frame(run):
    """every use of the stream parameter `bin` in _dis / get_afs is bin.readbs(...), bin.offset (load) or `bin.offset = init_offset`"""
    import miasmx.arch.ia32_arch as A
    src = open(inspect.getsourcefile(A)).read()
    tree = ast.parse(src)
    targets = {}
    for n in ast.walk(tree):
        if isinstance(n, ast.FunctionDef) and n.name in ('_dis', 'get_afs'):
            targets[n.name] = n
    for name, fn in sorted(targets.items()):
        bad = []
        uses = 0
        parents = {}
        for p in ast.walk(fn):
            for ch in ast.iter_child_nodes(p): parents[ch] = p
        for n in ast.walk(fn):
            if isinstance(n, ast.Name) and n.id == 'bin':
                uses += 1
                par = parents.get(n)
                ok = False
                if isinstance(par, ast.Attribute) and par.value is n:
                    if par.attr == 'readbs' and isinstance(parents.get(par), ast.Call) and parents[par].func is par: ok = True
                    elif par.attr == 'offset':
                        if isinstance(par.ctx, ast.Load): ok = True
                        else:
                            asg = parents.get(par)
                            ok = isinstance(asg, ast.Assign) and isinstance(asg.value, ast.Name) and asg.value.id == 'init_offset'
                elif isinstance(par, ast.Call) and n in par.args:
                    f = par.func
                    fname = f.id if isinstance(f, ast.Name) else (f.attr if isinstance(f, ast.Attribute) else '')
                    ok = fname in ('hasattr', 'bin_stream', 'get_afs')     # wrapping a raw buffer into a stream; passing the stream on to get_afs (checked too)
                elif isinstance(par, ast.Assign) and n in par.targets and isinstance(n.ctx, ast.Store):
                    ok = True       # bin = bin_stream(bin)
                elif isinstance(par, ast.arguments) or isinstance(n.ctx, ast.Param if hasattr(ast, 'Param') else ast.Load) and False:
                    ok = True
                if not ok:
                    bad.append('line %d: %s' % (n.lineno, ast.get_source_segment(src, par) if par is not None else 'bin'))
        oid = 'C10:frame[%s]:stream-access' % name
        if bad:
            run.ob(oid, FAILED, 'STATIC', 'ast', detail='the stream is used outside readbs()/offset: %s' % bad[:3], confirmed=False,
                   witness=run.write_replay(oid, {'obligation': oid, 'uses': bad, 'note': 'static frame obligation: no failing input is constructed'}), func=name)
        elif uses == 0:
            run.ob(oid, ENGINE_ERR, 'STATIC', 'ast', detail='no use of `bin` found in %s (vacuous)' % name)
        else:
            run.ob(oid, DISCHARGED, 'STATIC', 'ast', detail='%d uses' % uses, func=name)
    if len(targets) < 2:
        run.ob('C10:frame:locate', ENGINE_ERR, 'STATIC', 'ast', detail='functions _dis/get_afs not found')

# ------------------------------------------------------------------------------------------------ BND: decoder
def check_bytes(bs, off_variants=True):
    """returns list of (clause, class, message)"""
    from miasmx.arch.ia32_arch import x86mnemo
    from miasmx.core.bin_stream import bin_stream
    out = []
    try:
        ins = x86mnemo.dis(bs)
    except Exception as ex:
        return [('dis-crash', exc_class(ex), 'dis(%s) raised %s: %s' % (bs.hex(), type(ex).__name__, str(ex)[:80]))]
    if ins is None:
        return out
    if ins.l > len(bs) or ins.b != bs[:ins.l]:
        out.append(('overread', ins.m.name, 'reports length %d / bytes %r for input %s' % (ins.l, ins.b, bs.hex())))
    # "nor consumes bytes beyond the instruction": the instruction's extent according to the independent IA-32 decoder (where it covers the
    # opcode and no prefix is superfluous)
    try:
        from specs import x86dec
        from checks import C01
        sp = x86dec.decode(bs)
        if sp is not None and C01.meaningful_prefixes(sp, bs) and sp['length'] != ins.l:
            out.append(('length', C01.opkey(sp, bs), '%s: %d bytes consumed, the instruction has %d' % (bs[:max(ins.l, sp['length'])].hex(), ins.l, sp['length'])))
    except Exception:
        pass
    for fmt, tag in ((None, 'intel'), ('att_syntax binutils', 'att')):
        try:
            t = ins.__str__(fmt) if fmt else str(ins)
            if not isinstance(t, str) or not t.strip(): out.append(('render-' + tag, ins.m.name + ':empty', 'empty rendering of %s' % bs[:ins.l].hex()))
        except Exception as ex:
            out.append(('render-' + tag, ('simd' if ('#' in ins.m.name or ins.m.modifs.get('mmx')) else ins.m.name) + ':' + exc_class(ex), '%s rendering of %s raised %s: %s' % (tag, bs[:ins.l].hex(), type(ex).__name__, str(ex)[:80])))
    if off_variants:
        for off in (1, 7):
            pad = b'\xcc' * off
            try:
                s = bin_stream(pad + bs, off)
                i2 = x86mnemo.dis(s)
                if i2 is None or i2.l != ins.l or i2.b != ins.b or i2.offset != off or s.offset != off + ins.l or str(i2.m.name) != str(ins.m.name):
                    out.append(('offset', ins.m.name, 'decoding %s at stream offset %d differs from decoding the suffix (length %s, offset %s, stream at %s)' % (
                        bs[:ins.l].hex(), off, getattr(i2, 'l', None), getattr(i2, 'offset', None), s.offset)))
            except Exception as ex:
                out.append(('offset', ins.m.name + ':' + exc_class(ex), 'decoding at offset %d raised %s' % (off, ex)))
        # every proper truncation is reported absent (never an instruction reaching beyond the buffer, never a crash)
        for k in range(1, ins.l):
            try:
                t = x86mnemo.dis(bs[:k])
                if t is not None and t.l > k:
                    out.append(('truncated', ins.m.name, 'prefix %s of %s decodes with length %d' % (bs[:k].hex(), bs[:ins.l].hex(), t.l)))
            except Exception as ex:
                out.append(('truncated', ins.m.name + ':' + exc_class(ex), 'truncation %s raised %s: %s' % (bs[:k].hex(), type(ex).__name__, str(ex)[:60])))
    return out

def _work_dis(job):
    idx, nparts, tier, seed = job
    common.use_repo()
    from bounded import x86enum
    x86enum.quiet()
    L = x86enum.leaves()
    sub = L[idx::nparts]
    out = {'n': 0, 'groups': {}}
    rng = random.Random(1000 + idx)      # fixed seed, see asm_lines()
    prefixes = [(), (0x66,), (0x67,), (0xF3,), (0x64,)] if tier == 'quick' else x86enum.PREFIX_SETS
    def handle(bs, offv):
        out['n'] += 1
        for (clause, klass, msg) in check_bytes(bs, offv):
            g = out['groups'].setdefault((clause, klass), [0, bs.hex(), msg])
            g[0] += 1
    for path, m in sub:
        seen = set()
        k = 0
        for bs in x86enum.candidates(path, full_sib=(tier != 'quick'), pads=1 if tier == 'quick' else 2, prefixes=prefixes, m=m, smart=True):
            k += 1
            handle(bs[:16], (k % 64 == 0))
    for i in range(3000 if tier == 'quick' else 100000):
        n = rng.randrange(1, 17)
        handle(bytes(rng.getrandbits(8) for _ in range(n)), True)
    return out

# ------------------------------------------------------------------------------------------------ BND: decoding is a function of the bytes
# the same ModRM/SIB bytes under other opcodes, operand sizes and prefixes: decoding them must not change what the probes decode to
PROBES = ['8b00', '8d1a', '8a00', '0fb600', '8b0418', '8d0418', '8b04c0', 'ff30', 'd320', '8b03', '0f6f00', '660f6f00', 'd900', 'dd00', '8b1a', '8d00', '0fbe00',
          '8b0424', 'f700', 'f600', 'c60001', 'c70001000000', '8b4004', '8b8000010000', '8bc3', '0f6fc1', '660f6fc1', 'd9c1', 'ec', 'd3e0', '678b00', '8b0500100000']
HIST_OPS = ['8b', '8a', '8d', '89', '88', '0fb6', '0fbe', '0f6f', '660f6f', 'f30f6f', 'd9', 'dd', 'ff', 'f7', 'f6', 'd3', 'd2', '0fa3', '0f10', 'f20f10', '0fc7', '0f01', '62', 'c4', '8e', '8c']
HIST_PRE = ['', '64', '65', '26', '2e', '36', '3e', '66', '67', '6667', 'f3', 'f2']
HIST_TAIL = ['00', '1a', '03', '0418', '04c0', '0424', 'c3', 'c1', '4004', '8000010000', '0500100000', '20', '30']

def _snap(hexes):
    from miasmx.arch.ia32_arch import x86mnemo
    out = []
    for h in hexes:
        try:
            i = x86mnemo.dis(binascii.unhexlify(h) + b'\x90' * 8)
            if i is None: out.append(None); continue
            out.append((i.l, str(i), i.__str__('att_syntax binutils'), repr(sorted((str(k), str(v)) for a in i.arg for k, v in a.items()))))
        except Exception as ex:
            out.append(('raised', type(ex).__name__))
    return out

def _work_hist(job):
    """probes decoded first thing in a fresh process, then after a fixed history of other decodes: identical (length, both renderings, operands)"""
    common.use_repo()
    from bounded import x86enum
    x86enum.quiet()
    from miasmx.arch.ia32_arch import x86mnemo, u16
    before = _snap(PROBES)
    n = 0
    for pre in HIST_PRE:
        for op in HIST_OPS:
            for t in HIST_TAIL:
                bs = binascii.unhexlify(pre + op + t) + b'\x90' * 8
                n += 1
                for kw in ({}, {'admode': u16, 'opmode': u16}):
                    try:
                        i = x86mnemo.dis(bs, kw) if kw else x86mnemo.dis(bs)
                        if i is not None: str(i); i.__str__('att_syntax binutils')
                    except Exception:
                        pass
    after = _snap(PROBES)
    fails = []
    for h, b, a in zip(PROBES, before, after):
        if b != a:
            fails.append((h, 'first decode in the process: %s; after %d other decodes: %s' % (b and b[:3], n, a and a[:3])))
    return {'n': len(PROBES), 'fails': fails}

# ------------------------------------------------------------------------------------------------ BND: assembler
TOKENS = ['eax', 'AX', 'al', 'ah', 'es', 'cr0', 'dr7', 'mm0', 'xmm1', 'st', 'st(1)', 'byte', 'WORD', 'dword', 'qword', 'ptr', 'PTR', 'offset', 'flat', '[', ']', '+', '-', '*', ',', ':',
          '(', ')', '0', '1', '-1', '0x80', '4294967296', '0x', '1e5', 'foo', '.L1', 'fs', '%eax', '$1', '%', '$', '@', 'short', 'eiz']

def asm_lines(tier, seed):
    from miasmx.arch.ia32_arch import x86mndb
    # fixed seed: the unchanged tree has many distinct crash classes on malformed text; the sampled population is kept stable so that the
    # known-findings list (harvested once, by hand) identifies exactly the classes this population reaches (VERIF_SEED is not used here)
    rng = random.Random(10)
    names = sorted(x86mndb.mnemo_lookup.keys())
    plain = [n for n in names if '#' not in n]
    lines = []
    for n in plain:
        lines.append(n)
        for t in TOKENS: lines.append('%s %s' % (n, t))
    core = ['mov', 'add', 'push', 'jmp', 'lea', 'fadd', 'movzx', 'shl', 'call', 'imul', 'in', 'xchg', 'movsb', 'nop', 'ret', 'enter', 'fld', 'paddd', 'movq', 'cmpxchg']
    for n in core:
        for a, b in itertools.product(TOKENS, repeat=2):
            lines.append('%s %s %s' % (n, a, b))
    for n in core[:6]:
        for a, b, c in itertools.product(TOKENS[:30], repeat=3):
            if rng.random() < (0.25 if tier == 'quick' else 1.0):
                lines.append('%s %s %s %s' % (n, a, b, c))
    for i in range(20000 if tier == 'quick' else 400000):
        k = rng.randrange(1, 9)
        lines.append(' '.join([rng.choice(plain + TOKENS)] + [rng.choice(TOKENS) for _ in range(k - 1)]))
    # every size keyword of the Intel grammar, both letter cases, in front of a memory operand, an immediate and nothing
    for kw in ('BYTE', 'WORD', 'DWORD', 'QWORD', 'SINGLE', 'DOUBLE', 'TBYTE', 'XWORD', 'XMMWORD'):
        for k in (kw, kw.lower()):
            for ptr in ('PTR', 'ptr'):
                for tmpl in ('fld %s %s [eax]', 'push %s %s 4', 'mov eax, %s %s [ebx+ecx*4]', 'movq mm0, %s %s [eax]', 'movdqa xmm0, %s %s [eax]', 'fstp %s %s [esp+8]', 'inc %s %s fs:[eax]', 'mov %s %s', 'fld %s %s'):
                    lines.append(tmpl % (k, ptr))
    lines += ['', ' ', ',', 'mov', 'mov ,', 'mov eax,,ebx', 'lock', 'rep', 'lock rep', 'rep movsb', 'mov eax, [', 'mov eax, ]', 'mov eax, [eax', 'mov eax, 1 1', '\x00', 'mov\teax,\t1', 'é', 'mov eax, ' + '1+' * 200 + '1']
    return lines

class _TO(Exception):
    pass

_MN = None
def line_shape(line):
    """coarse shape of an input line (valid mnemonic first or not, 1 / 2 / 3+ tokens): a crash class is (exception, raising function, message, shape), so that a crash that
       spreads to other kinds of input is a new class"""
    global _MN
    if _MN is None:
        from miasmx.arch.ia32_arch import x86mndb
        _MN = set(x86mndb.mnemo_lookup.keys()) | {'lock', 'rep', 'repz', 'repnz', 'repe', 'repne'}
    toks = line.split()
    if not toks: return 'empty'
    return ('M' if toks[0].lower() in _MN else 'X') + ('1' if len(toks) == 1 else '2' if len(toks) == 2 else '3+')

def check_line(line):
    from miasmx.arch.ia32_arch import x86mnemo
    out = []
    for fn, tag in ((x86mnemo.asm, 'asm'), (x86mnemo.asm_att, 'asm_att')):
        signal.alarm(10)
        try:
            r = fn(line)
            signal.alarm(0)
            if not isinstance(r, list) or any(not isinstance(x, (bytes, str)) for x in r):
                out.append((tag + '-result', 'type', '%s(%r) returned %r' % (tag, line, r)))
        except ValueError:
            pass
        except _TO:
            # a second, patient attempt before a loop is claimed
            signal.alarm(common.patience(60))
            try:
                fn(line)
                signal.alarm(0)
            except _TO:
                out.append((tag + '-loops', 'timeout', '%s(%r) did not return within %d s' % (tag, line, common.patience(60))))
            except Exception:
                signal.alarm(0)
        except Exception as ex:
            out.append((tag + '-crash', exc_class(ex) + '|' + line_shape(line), '%s(%r) raised %s: %s' % (tag, line, type(ex).__name__, str(ex)[:80])))
        finally:
            signal.alarm(0)
    return out

def _alarm(sig, frm):
    raise _TO()

def _work_asm(lines):
    common.use_repo()
    from bounded import x86enum
    x86enum.quiet()
    import io, contextlib
    signal.signal(signal.SIGALRM, _alarm)
    out = {'n': 0, 'groups': {}}
    for l in lines:
        out['n'] += 1
        with contextlib.redirect_stdout(io.StringIO()), contextlib.redirect_stderr(io.StringIO()):
            res = check_line(l)
        for (clause, klass, msg) in res:
            g = out['groups'].setdefault((clause, klass), [0, l, msg])
            g[0] += 1
            if len(l) < len(g[1]): g[1], g[2] = l, msg
    return out

def replay(kind, data):
    from bounded import x86enum
    x86enum.quiet()
    if kind == 'readbs':
        r = twin_readbs(data); print(r); return 1 if r else 0
    if kind == 'history':
        r = _work_hist(0)
        for x in r['fails']: print(x)
        return 1 if any(x[0] == data['hex'] for x in r['fails']) else 0
    if kind == 'bytes':
        r = check_bytes(binascii.unhexlify(data['hex']), True)
        for x in r: print(x)
        return 1 if any(x[0] == data['clause'] for x in r) else 0
    signal.signal(signal.SIGALRM, _alarm)
    r = check_line(data['line'])
    for x in r: print(x)
    return 1 if any(x[0] == data['clause'] for x in r) else 0

def main(argv):
    tier, seed, rest = common.parse_args(argv)
    common.use_repo()
    run = Run('C10', tier, seed, 'other', 'cd /verif && ./vcheck C10 --tier %s' % tier)
    ob_readbs(run)
    ob_frame(run)
    lines = asm_lines(tier, seed)
    nparts = 64
    B = 2000
    # the totality contracts are run-time contracts: they run under the repository's own interpreter (/venv/bin/python), not under the tooling
    # interpreter (the parser's error path, for one, inspects call frames and behaves differently under another Python version)
    r1 = common.native_pool('checks.C10', '_work_dis', [(i, nparts, tier, seed) for i in range(nparts)])
    r2 = common.native_pool('checks.C10', '_work_asm', [lines[i:i + B] for i in range(0, len(lines), B)])
    r3 = common.native_pool('checks.C10', '_work_hist', [0], nproc=1)[0]
    for (h, msg) in r3['fails']:
        oid = 'C10:history[%s]' % h
        script = REPLAY % dict(verif=common.VERIF, repo=common.REPO, kind='history', data={'hex': h})
        rp = run.write_replay(oid, {'obligation': oid, 'detail': msg}, script)
        run.ob(oid, FAILED, 'BND', 'cpython-enum', detail='dis(%s) depends on what was decoded before: %s' % (h, msg), witness=rp, confirmed=True, func='history')
    run.bulk('probe byte strings that decode identically before and after a fixed history of other decodes', r3['n'] - len(r3['fails']), 'BND', 'cpython-enum', 0.0, BOUNDED_OK)
    for results, kind in ((r1, 'bytes'), (r2, 'line')):
        groups = {}
        for r in results:
            for k, g in r['groups'].items():
                G = groups.setdefault(k, [0, g[1], g[2]])
                G[0] += g[0]
                if len(g[1]) < len(G[1]): G[1], G[2] = g[1], g[2]
        n = sum(r['n'] for r in results)
        run.bulk('%s inputs handled cleanly' % ('byte-string' if kind == 'bytes' else 'assembly-text'), n - sum(g[0] for g in groups.values()), 'BND', 'cpython-enum', 0.0, BOUNDED_OK)
        for (clause, klass), (cnt, wit, msg) in sorted(groups.items()):
            oid = 'C10:%s[%s]' % (clause, klass)
            data = {'hex': wit, 'clause': clause} if kind == 'bytes' else {'line': wit, 'clause': clause}
            script = REPLAY % dict(verif=common.VERIF, repo=common.REPO, kind=kind, data=data)
            rp = run.write_replay(oid, {'obligation': oid, 'detail': msg}, script)
            run.ob(oid, FAILED, 'BND', 'cpython-enum', detail='%d inputs, e.g. %r: %s' % (cnt, wit, msg), witness=rp, confirmed=True, func=clause)
        run.extra['%s_inputs' % kind] = n
    run.evaluations = run.extra['bytes_inputs'] + run.extra['line_inputs']
    run.distinct = run.evaluations
    run.rule = ('bytes: every opcode path x prefix sets x ModRM x SIB grid (padded to 16 bytes), every 64th also at stream offsets 1 and 7 and in all truncations, plus seeded random strings of 1..16 bytes; '
                'text: every mnemonic alone and with each of %d lexical tokens, 20 mnemonics x all token pairs, sampled token triples, seeded random token sequences up to 8 tokens, hand-picked malformed lines' % len(TOKENS))
    run.explanation = ('the stream half is proved (readbs contract by VC generation + static frame obligation on _dis/get_afs); totality of dis/asm is a bounded run-time contract over structured and random inputs')
    run.samples = ['0f0000..', 'mov eax, [', 'push 0x80 PTR', lines[len(lines) // 2]]
    run.trust('z3; pyvc (Engine A) incl. its opaque-sequence model of bytes objects'); run.assume('IOError is OSError in Python 3; struct.unpack is never handed a short buffer because readbs returns exactly l bytes (contract)')
    return run.finish()

if __name__ == '__main__':
    sys.exit(main(sys.argv[1:]))
