"""SMT-A part of C16: the read/write-set methods of every IR node class, by structural induction (see checks/exprind.py).

Spec (from the property: "the read set contains every identifier and, when memory reads are requested, every memory cell and address identifier
whose value can change the expression's value; the written set of an assignment names its destination"):

  Dep(ExprInt, m)     = {}                       Dep(ExprId, m) = {self}
  Dep(ExprMem, m)     = {self} ∪ (Dep(arg, m) ∪ Dep(segm, m) if m)      (segm only when it is an expression)
  Dep(ExprCond, m)    = Dep(cond, m) ∪ Dep(src1, m) ∪ Dep(src2, m)
  Dep(ExprOp, m)      = ∪ Dep(arg_i, m)           Dep(ExprCompose, m) = ∪ Dep(part_i, m)
  Dep(ExprSlice, m)   = Dep(arg, m)               Dep(ExprAff, m) = Dep(src, m)
  W(ExprId) = {self}   W(ExprMem) = {self}   W(ExprSlice) = W(arg)   W(ExprAff) = {dst} if dst is a memory cell else W(dst)

Inductive step for class K:  (∀ child c: c.get_r(m) ⊇ Dep(c, m))  ⇒  K.get_r(self, m) ⊇ Dep(self, m), on the real body of K.get_r.
A child's result is the opaque token R(c, m) ("some superset of Dep(c, m)"); sets are unions of tokens and singletons, so inclusion of the
expected tokens is inclusion for every value of the tokens.  Two tokens for the same child are the same when their `m` arguments are equivalent
under the path condition.
"""
import sys, os, itertools
from vlib import common
from vlib.common import DISCHARGED, FAILED, DOWNGRADED, ENGINE_ERR, BOUNDED_OK
from checks import exprind
from checks.exprind import MOD, CHILD_CLASSES

REPLAY = '''
import sys, os
sys.path.insert(0, %(verif)r); sys.path.insert(0, %(repo)r)
sys.dont_write_bytecode = True
from checks import C16smt
sys.exit(C16smt.replay(%(data)r))
'''

# (class, method) -> number of children / arities
SHAPES = [('ExprInt', [0]), ('ExprId', [0]), ('ExprAff', [2]), ('ExprCond', [3]), ('ExprMem', [1, 2]), ('ExprOp', [0, 1, 2, 3, 4]),
          ('ExprSlice', [1]), ('ExprCompose', [1, 2, 3, 4])]

DST = ('ExprId', 'ExprMem', 'ExprSlice')     # classes of a well-typed assignment's destination

class Tok(object):
    """R(child, m) or W(child): the set a child's get_r / get_w returns"""
    def __init__(self, kind, obj, m=None):
        self.kind, self.obj, self.m = kind, obj, m
    def __repr__(self):
        return '%s(%s%s)' % (self.kind, getattr(self.obj, 'tag', self.obj), '' if self.m is None else ', %s' % (self.m,))

def native_get_r(K, vec, m, segm_kind=None):
    """None if the real get_r of a concrete K node over children of classes vec contains what the step demands, else a message"""
    X = exprind.E()
    node, kids = exprind.concrete_node(K, vec)
    try:
        res = node.get_r(mem_read=m)
    except Exception as ex:
        return 'get_r raised %s: %s' % (type(ex).__name__, ex)
    want = set()
    if K == 'ExprAff':
        want |= kids[1].get_r(mem_read=m)
    elif K == 'ExprMem':
        want.add(node)
        if m:
            for c in kids: want |= c.get_r(mem_read=m)
    else:
        if K == 'ExprId': want.add(node)
        for c in kids: want |= c.get_r(mem_read=m)
    miss = [str(x) for x in want if x not in res]
    if miss:
        return '%s(%s).get_r(mem_read=%s) = {%s} lacks %s' % (K, ', '.join(str(c) for c in kids), m, ', '.join(sorted(map(str, res))), sorted(miss))
    return None

def native_get_w(K, vec):
    X = exprind.E()
    node, kids = exprind.concrete_node(K, vec)
    try:
        res = node.get_w()
    except Exception as ex:
        return 'get_w raised %s: %s' % (type(ex).__name__, ex)
    if K == 'ExprAff':
        want = set([kids[0]]) if isinstance(kids[0], X.ExprMem) else kids[0].get_w()
    elif K in ('ExprId', 'ExprMem'):
        want = set([node])
    elif K == 'ExprSlice':
        want = kids[0].get_w()
    else:
        return None
    if set(res) != set(want):
        return '%s(%s).get_w() = {%s}, the destination is {%s}' % (K, ', '.join(str(c) for c in kids), ', '.join(map(str, res)), ', '.join(map(str, want)))
    return None

def replay(data):
    common.use_repo()
    if data['method'] == 'get_r':
        msg = native_get_r(data['K'], tuple(data['vec']), data['m'])
    elif data['method'] == 'match':
        msg = native_match(data['K'], tuple(data['vec']))
    else:
        msg = native_get_w(data['K'], tuple(data['vec']))
    print(msg or 'contract holds on this input')
    return 1 if msg else 0

def ih_contracts(z3, is_sym):
    """induction hypotheses: get_r / get_w of a child return the opaque token"""
    from pyvc.engine import find_method
    cs = {}
    for name in CHILD_CLASSES:
        k = exprind.klass(name)
        for meth in ('get_r', 'get_w'):
            fm = find_method(k, meth)
            qn = '%s:%s.%s' % (fm[0].__module__, fm[0].__qualname__, meth)
            if meth == 'get_r':
                def result(ctx, c, m=False):
                    return set([Tok('R', c, m)])
            else:
                def result(ctx, c):
                    return set([Tok('W', c)])
            cs[qn] = cs.get(qn) or exprind.Contract(qn, result=result)
    return cs

def ob_smt(run, only=None):
    import z3
    from pyvc import engine
    from pyvc.engine import is_sym
    from pyvc.runner import resolve
    from pyvc.contract import Contract, SObj
    from specs.duck import And, Or, Not
    IH = ih_contracts(z3, is_sym)
    n = 0
    def same_m(a, b):
        """formula: the two mem_read arguments are equivalent"""
        if not is_sym(a) and not is_sym(b):
            return bool(a) == bool(b)
        a = a if is_sym(a) else z3.BoolVal(bool(a)); b = b if is_sym(b) else z3.BoolVal(bool(b))
        return a == b
    def has(res, kind, obj, m=None):
        """formula: the token set `res` contains kind(obj, m) (obj itself for kind 'self')"""
        if not isinstance(res, (set, frozenset)): return False
        cl = []
        for t in res:
            if kind == 'self':
                if t is obj: return True
            elif isinstance(t, Tok) and t.kind == kind and t.obj is obj:
                cl.append(same_m(t.m, m) if kind == 'R' else True)
        return Or(*cl) if cl else False
    def build(K, vec):
        kids = [exprind.child(nm, 'c%d:%s' % (i, nm)) for i, nm in enumerate(vec)]
        k = exprind.klass(K)
        if K in ('ExprInt', 'ExprId'): f = {}
        elif K == 'ExprAff': f = {'dst': kids[0], 'src': kids[1]}
        elif K == 'ExprCond': f = {'cond': kids[0], 'src1': kids[1], 'src2': kids[2]}
        elif K == 'ExprMem': f = {'arg': kids[0], 'size': 32, 'segm': kids[1] if len(kids) == 2 else None}
        elif K == 'ExprOp': f = {'op': '+', 'args': tuple(kids)}
        elif K == 'ExprSlice': f = {'arg': kids[0], 'start': z3.Int('start'), 'stop': z3.Int('stop')}
        elif K == 'ExprCompose': f = {'args': [(c, z3.Int('lo%d' % i), z3.Int('hi%d' % i)) for i, c in enumerate(kids)]}
        me = SObj(k, f, fresh=False)
        object.__setattr__(me, 'tag', 'self')
        return me, kids
    def emit(base, V, QN, data, native_msg):
        nonlocal n
        if V.unsupported:
            run.ob(base + ':generate', DOWNGRADED, 'SMT-A', 'pyvc', detail=V.unsupported, func=QN); return
        if not V.cover or (V.returns == 0 and not V.raises):
            run.ob(base + ':cover', ENGINE_ERR, 'SMT-A', 'z3', detail='no feasible path', func=QN); return
        for cl, d in sorted(V.clauses.items()):
            n += 1
            oid = base + ':' + cl
            if d['status'] == 'unsat':
                run.ob(oid, DISCHARGED, 'SMT-A', 'z3', d['secs'], func=QN)
            elif d['status'] == 'sat':
                w = d['witness'] or {}
                dd = dict(data)
                if 'mem_read' in w: dd['m'] = (w['mem_read'] == 'True')
                msg = native_msg(dd)
                if msg is None and 'm' in dd:
                    dd['m'] = not dd['m']; msg = native_msg(dd)
                rp = run.write_replay(oid, {'obligation': oid, 'inputs': w, 'verifier': d['detail']}, REPLAY % dict(verif=common.VERIF, repo=common.REPO, data=dd))
                if msg is None:
                    run.ob(oid, FAILED, 'SMT-A', 'z3', d['secs'], detail='inductive step fails (%s; model %s); the concrete instance of this shape does not show it' % (d['detail'], w), witness=rp, confirmed=False, func=QN)
                else:
                    run.ob(oid, FAILED, 'SMT-A', 'z3', d['secs'], detail='%s; model %s; native: %s' % (d['detail'], w, msg), witness=rp, confirmed=True, func=QN)
            else:
                run.ob(oid, DOWNGRADED, 'SMT-A', 'z3', d['secs'], detail='solver unknown', func=QN)
    seen_tests = {}
    for K, arities in SHAPES:
        k = exprind.klass(K)
        # ---------------- get_r
        QN = '%s:%s.get_r' % (MOD, K)
        mod, node, seg, path = resolve(QN)
        run.function(QN, seg, path, node.lineno)
        seen_tests[QN] = exprind.isinstance_tests(node)
        for ar in arities:
            for vec in exprind.vectors(ar):
                for variant in ('m', 'default'):
                    if only and only != (K, 'get_r'): continue
                    def make_args(ctx, K=K, vec=vec, variant=variant):
                        me, kids = build(K, vec)
                        make_args.me, make_args.kids = me, kids
                        if variant == 'default':
                            return [me], {}
                        m = z3.Bool('mem_read')
                        return [me, m], {'mem_read': m}
                    def post(ctx, res, me, m=False, K=K):
                        kids = make_args.kids
                        if K == 'ExprAff': want_m = [('R', kids[1])]; want_always = []
                        elif K == 'ExprMem': want_m = [('R', c) for c in kids]; want_always = [('self', me)]
                        elif K == 'ExprId': want_m = []; want_always = [('self', me)]
                        else: want_m = []; want_always = [('R', c) for c in kids]
                        cl = [has(res, kind, o, m) for (kind, o) in want_always]
                        mm = m if is_sym(m) else z3.BoolVal(bool(m))
                        cl += [Or(Not(mm), has(res, kind, o, m)) for (kind, o) in want_m]
                        return And(*cl) if cl else isinstance(res, (set, frozenset))
                    top = Contract(QN, post=post)
                    cs = dict(IH); cs[QN + '#top'] = top
                    base = 'C16:ind:%s.get_r[%s%s]' % (K, ','.join(vec) or '-', '' if variant == 'm' else ';default')
                    V = engine.verify_function(QN, node, vars(mod), top, IH, make_args)
                    emit(base, V, QN, {'method': 'get_r', 'K': K, 'vec': list(vec), 'm': variant == 'm'},
                         lambda dd: native_get_r(dd['K'], tuple(dd['vec']), dd['m']))
        # ---------------- get_w
        if K in ('ExprId', 'ExprMem', 'ExprSlice', 'ExprAff'):
            QN = '%s:%s.get_w' % (MOD, K)
            mod, node, seg, path = resolve(QN)
            run.function(QN, seg, path, node.lineno)
            seen_tests[QN] = exprind.isinstance_tests(node)
            for ar in arities:
                for vec in exprind.vectors(ar):
                    if only and only != (K, 'get_w'): continue
                    if K in ('ExprAff', 'ExprSlice') and vec[0] not in DST: continue
                    def make_args(ctx, K=K, vec=vec):
                        me, kids = build(K, vec)
                        make_args.me, make_args.kids = me, kids
                        return [me], {}
                    def post(ctx, res, me, K=K, vec=vec):
                        kids = make_args.kids
                        if not isinstance(res, (set, frozenset)): return False
                        if K in ('ExprId', 'ExprMem'): return len(res) == 1 and has(res, 'self', me)
                        if K == 'ExprSlice': return len(res) == 1 and has(res, 'W', kids[0])
                        if vec[0] == 'ExprMem':   # W(ExprMem) = {the cell}: either spelling names the destination
                            return len(res) == 1 and Or(has(res, 'self', kids[0]), has(res, 'W', kids[0]))
                        return len(res) == 1 and has(res, 'W', kids[0])
                    top = Contract(QN, post=post)
                    base = 'C16:ind:%s.get_w[%s]' % (K, ','.join(vec) or '-')
                    V = engine.verify_function(QN, node, vars(mod), top, IH, make_args)
                    emit(base, V, QN, {'method': 'get_w', 'K': K, 'vec': list(vec)}, lambda dd: native_get_w(dd['K'], tuple(dd['vec'])))
    run.notes.append('C16 induction steps: isinstance tests in the verified bodies (the only observers of a child\'s class): %s' % {k.split(':')[1]: v for k, v in seen_tests.items() if v})
    # native twin: the same step on concrete instances for every class vector (full product up to arity 2, rotations above)
    cnt = bad = 0
    for K, arities in SHAPES:
        for ar in arities:
            vecs = list(itertools.product(CHILD_CLASSES, repeat=ar)) if ar <= 2 else exprind.vectors(ar)
            for vec in vecs:
                for m in (False, True):
                    cnt += 1
                    msg = native_get_r(K, vec, m)
                    if msg:
                        bad += 1
                        if bad <= 3:
                            oid = 'C16:ind:%s.get_r[%s]:twin' % (K, ','.join(vec))
                            rp = run.write_replay(oid, {'obligation': oid}, REPLAY % dict(verif=common.VERIF, repo=common.REPO, data={'method': 'get_r', 'K': K, 'vec': list(vec), 'm': m}))
                            run.ob(oid, FAILED, 'BND', 'cpython-enum', detail=msg, witness=rp, confirmed=True, func='%s:%s.get_r' % (MOD, K))
                if K in ('ExprId', 'ExprMem', 'ExprSlice', 'ExprAff') and not (K in ('ExprAff', 'ExprSlice') and vec[0] not in DST):
                    cnt += 1
                    msg = native_get_w(K, vec)
                    if msg:
                        bad += 1
                        if bad <= 3:
                            oid = 'C16:ind:%s.get_w[%s]:twin' % (K, ','.join(vec))
                            rp = run.write_replay(oid, {'obligation': oid}, REPLAY % dict(verif=common.VERIF, repo=common.REPO, data={'method': 'get_w', 'K': K, 'vec': list(vec)}))
                            run.ob(oid, FAILED, 'BND', 'cpython-enum', detail=msg, witness=rp, confirmed=True, func='%s:%s.get_w' % (MOD, K))
    run.bulk('induction steps of get_r/get_w on concrete nodes for every child-class vector (native twin)', cnt - bad, 'BND', 'cpython-enum', 0.0, BOUNDED_OK)
    return n


# ------------------------------------------------------------------------------------------------ MatchExpr: the recursion scheme
M_SHAPES = [('ExprInt', [0]), ('ExprId', [0]), ('ExprCond', [3]), ('ExprMem', [1, 2]), ('ExprOp', [0, 1, 2, 3]), ('ExprSlice', [1]), ('ExprCompose', [1, 2, 3])]

def native_match(K, vec):
    """the recursion scheme on concrete nodes: a pattern equal to the node but for ONE child replaced by a wildcard must bind exactly that child;
       one with a differing value field, arity or class must not match"""
    from checks import C15smt
    X = exprind.E()
    try:
        vs, a, kids = C15smt._variants(K, vec)
        for (x, y, want, what) in vs:
            if what in ('is_term',): continue
            r = X.MatchExpr(x, y, [])
            if bool(r is not False and r is not None and (r is True or isinstance(r, dict))) != want:
                return 'MatchExpr(%s, %s, []) = %r although the pattern %s (differs in: %s)' % (x, y, r, 'is the expression' if want else 'is no instance', what)
        from checks.C15smt import direct_children
        for i, c in enumerate(kids):
            if K == 'ExprMem' and i == 1: continue      # a segment selector is compared with ==, never matched (MatchExpr's design; selectors are not wildcard positions)
            W = X.ExprId('W', c.get_size())
            pat = a.visit(lambda n: W if n is c else n)
            r = X.MatchExpr(a, pat, [W])
            if not isinstance(r, dict) or list(r.keys()) != [W] or r[W] is not c:
                return 'MatchExpr(%s, %s, [W]) = %r, expected {W: %s}' % (a, pat, r, c)
            r = X.MatchExpr(a, pat, [W], {W: X.ExprId('elsewhere', c.get_size())})
            if r is not False:
                return 'MatchExpr(%s, %s, [W], {W: elsewhere}) = %r although W is already bound to another expression' % (a, pat, r)
    except Exception as ex:
        return 'MatchExpr on %s%s raised %s: %s' % (K, list(vec), type(ex).__name__, ex)
    return None

def ob_match(run):
    """inductive step of MatchExpr for every class of e: which recursive calls are made, with which arguments, and what is returned"""
    import z3
    from pyvc import engine
    from pyvc.engine import is_sym, find_method
    from pyvc.runner import resolve
    from pyvc.contract import Contract, SObj
    from specs.duck import And, Or, Not
    QN = '%s:MatchExpr' % MOD
    TS = '%s:test_set' % MOD
    mod, node, seg, path = resolve(QN)
    run.function(QN, seg, path, node.lineno)
    def tag(o): return getattr(o, 'tag', None) or ('o%d' % o.ident)
    def EQ(x, y):
        if x is y: return True
        if not isinstance(x, SObj) or not isinstance(y, SObj): return False
        a, b = sorted([tag(x), tag(y)])
        return z3.Bool('EQ(%s,%s)' % (a, b))
    calls = []
    def r_match(ctx, e, m, tks, result=None):
        out = ctx.choose(['fail', 'dict', 'true'])
        calls.append(('M', e, m, tks, result, out))
        return {'fail': False, 'dict': result, 'true': True}[out]
    def r_ts(ctx, e, v, tks, result):
        out = ctx.choose(['fail', 'dict', 'true'])
        calls.append(('T', e, v, tks, result, out))
        return {'fail': False, 'dict': result, 'true': True}[out]
    IH = {QN: Contract(QN, result=r_match), TS: Contract(TS, result=r_ts, frame=['result']),
          '%s:Expr.__ne__' % MOD: Contract('%s:Expr.__ne__' % MOD, inline=True)}
    for name in CHILD_CLASSES:
        fm = find_method(exprind.klass(name), '__eq__')
        qn = '%s:%s.__eq__' % (fm[0].__module__, fm[0].__qualname__)
        IH[qn] = Contract(qn, result=lambda ctx, c, o: EQ(c, o))
    def build(K, vec, sfx=''):
        kids = [exprind.child(nm, 'c%d%s:%s' % (i, sfx, nm)) for i, nm in enumerate(vec)]
        sc = lambda nm: z3.Int(nm + sfx)
        if K in ('ExprInt', 'ExprId'): f = {}
        elif K == 'ExprCond': f = {'cond': kids[0], 'src1': kids[1], 'src2': kids[2]}
        elif K == 'ExprMem': f = {'arg': kids[0], 'size': sc('size'), 'segm': kids[1] if len(kids) == 2 else None}
        elif K == 'ExprOp': f = {'op': '+', 'args': tuple(kids)}
        elif K == 'ExprSlice': f = {'arg': kids[0], 'start': sc('start'), 'stop': sc('stop')}
        elif K == 'ExprCompose': f = {'args': [(c, sc('lo%d' % i), sc('hi%d' % i)) for i, c in enumerate(kids)]}
        me = SObj(exprind.klass(K), f, fresh=False)
        object.__setattr__(me, 'tag', 'node' + sfx); object.__setattr__(me, 'kids', kids)
        return me
    n = [0]
    def emit(base, V, data):
        if V.unsupported:
            run.ob(base + ':generate', DOWNGRADED, 'SMT-A', 'pyvc', detail=V.unsupported, func=QN); return
        if not V.cover or (V.returns == 0 and not V.raises):
            run.ob(base + ':cover', ENGINE_ERR, 'SMT-A', 'z3', detail='no feasible path', func=QN); return
        for cl, d in sorted(V.clauses.items()):
            n[0] += 1
            oid = base + ':' + cl
            if d['status'] == 'unsat':
                run.ob(oid, DISCHARGED, 'SMT-A', 'z3', d['secs'], func=QN)
            elif d['status'] == 'sat':
                w = d['witness'] or {}
                msg = native_match(data['K'], tuple(data['vec']))
                rp = run.write_replay(oid, {'obligation': oid, 'inputs': w, 'verifier': d['detail']}, REPLAY % dict(verif=common.VERIF, repo=common.REPO, data=dict(data, method='match')))
                if msg is None:
                    run.ob(oid, FAILED, 'SMT-A', 'z3', d['secs'], detail='inductive step fails (%s; model %s); the concrete instances of this shape do not show it' % (d['detail'], w), witness=rp, confirmed=False, func=QN)
                else:
                    run.ob(oid, FAILED, 'SMT-A', 'z3', d['secs'], detail='%s; model %s; native: %s' % (d['detail'], w, msg), witness=rp, confirmed=True, func=QN)
            else:
                run.ob(oid, DOWNGRADED, 'SMT-A', 'z3', d['secs'], detail='solver unknown', func=QN)
    def pairs_of(K, e, m):
        """(child of e, child of m, guard formula that must hold before the pair is matched)"""
        fe, fm_ = e.fields, m.fields
        if K == 'ExprCond': return [(fe[x], fm_[x], True) for x in ('cond', 'src1', 'src2')]
        if K in ('ExprMem', 'ExprSlice'): return [(fe['arg'], fm_['arg'], True)]
        if K == 'ExprOp': return [(x, y, True) for x, y in zip(fe['args'], fm_['args'])]
        if K == 'ExprCompose': return [(x[0], y[0], And(x[1] == y[1], x[2] == y[2])) for x, y in zip(fe['args'], fm_['args'])]
        return []
    def head_ok(K, e, m):
        """formula: the value fields that MatchExpr must compare before descending"""
        fe, fm_ = e.fields, m.fields
        if K == 'ExprMem':
            se, sm = fe['segm'], fm_['segm']
            if (se is None) != (sm is None): return False
            return And(fe['size'] == fm_['size'], EQ(se, sm) if se is not None else True)
        if K == 'ExprSlice': return And(fe['start'] == fm_['start'], fe['stop'] == fm_['stop'])
        if K == 'ExprOp': return fe['op'] == fm_['op'] and len(fe['args']) == len(fm_['args'])
        if K == 'ExprCompose': return len(fe['args']) == len(fm_['args'])
        return True
    for K, arities in M_SHAPES:
        for ar in arities:
            for vec in exprind.vectors(ar):
                variants = [('same', K, vec)]
                if K in ('ExprOp', 'ExprCompose'): variants.append(('arity', K, tuple(vec) + ('ExprId',)))
                if K == 'ExprMem': variants.append(('segm', K, vec[:1] if ar == 2 else tuple(vec) + ('ExprId',)))
                K2 = 'ExprCond' if K != 'ExprCond' else 'ExprSlice'
                variants.append(('class', K2, ('ExprId',) * {'ExprCond': 3, 'ExprSlice': 1}[K2]))
                if K == 'ExprOp': variants.append(('op', K, vec))
                for (what, Km, vecm) in variants:
                    for dflt in (False, True):
                        st = {}
                        def make_args(ctx, K=K, vec=vec, Km=Km, vecm=vecm, what=what, dflt=dflt, st=st):
                            del calls[:]
                            e, m = build(K, vec), build(Km, vecm, "'")
                            if what == 'op': m.fields['op'] = '^'
                            w = exprind.child('ExprId', 'W')
                            st['tks'] = [w]; st['res'] = {}; st['w'] = w
                            ins = dict((str(v), v) for o in (e, m) for v in o.fields.values() if is_sym(v))
                            return ([e, m, st['tks']] if dflt else [e, m, st['tks'], st['res']]), ins
                        def post(ctx, res, e, m, tks, result=None, K=K, Km=Km, dflt=dflt, st=st):
                            cs = list(calls)
                            wild = EQ(m, st['w'])          # m in tks
                            def args_ok(c, kind, a, b):
                                ok = c[0] == kind and c[1] is a and c[2] is b and c[3] is tks
                                if dflt: return ok and isinstance(c[4], dict) and all(c[4] is x[4] for x in cs)
                                return ok and c[4] is result
                            def outcome(c): return {'fail': False, 'dict': c[4], 'true': True}[c[5]]
                            # leaf and wildcard cases: exactly one test_set(e, m, tks, result), its outcome returned
                            leaf = len(cs) == 1 and args_ok(cs[0], 'T', e, m) and res is outcome(cs[0])
                            if K in ('ExprInt', 'ExprId'):
                                return leaf
                            # composite e: either m is a wildcard (leaf behaviour) or the recursion scheme
                            head = head_ok(K, e, m) if Km == K else False
                            prs = pairs_of(K, e, m) if Km == K else []
                            # expected call sequence: pairs in order while guards hold and outcomes are not False
                            i = 0; cond = []; ok_struct = True
                            if cs and cs[0][0] == 'T':
                                return And(wild, leaf) if is_sym(wild) else (bool(wild) and leaf)
                            if Km != K or head is False:
                                good = (not cs) and res is False
                                return And(Not(wild), good) if is_sym(wild) else ((not wild) and good)
                            # on this path the calls that were made must be a prefix of the pairs, each with the right arguments
                            if len(cs) > len(prs): return False
                            for c, (a, b, g) in zip(cs, prs):
                                if not args_ok(c, 'M', a, b): return False
                            failed = [c for c in cs if c[5] == 'fail']
                            guards = [g for (_, _, g) in prs]
                            if failed:
                                # stops at the first failure and reports it
                                good = cs[-1][5] == 'fail' and len(failed) == 1 and res is False
                                return And(Not(wild), head, good, *guards[:len(cs)])
                            if len(cs) < len(prs):
                                # stopped early without a failed call: only a violated guard (compose bounds) or head justifies it
                                if not cs and res is False:
                                    return And(Not(wild), Or(Not(head), Not(guards[0])))
                                return And(Not(wild), head, And(*guards[:len(cs)]), Not(guards[len(cs)]), res is False)
                            # all pairs matched
                            if K in ('ExprMem', 'ExprSlice'):
                                good = res is outcome(cs[0])
                            else:
                                good = (res is cs[0][4]) if cs else (isinstance(res, dict) if dflt else res is result)
                            return And(Not(wild), head, good, *guards)
                        top = Contract(QN, post=post, frame=['result'])
                        V = engine.verify_function(QN, node, vars(mod), top, IH, make_args)
                        emit('C16:ind:MatchExpr[%s(%s)~%s(%s)|%s%s]' % (K, ','.join(vec) or '-', Km, ','.join(vecm) or '-', what, ';default' if dflt else ''), V, {'K': K, 'vec': list(vec)})
    cnt = nbad = 0
    for K, arities in M_SHAPES:
        for ar in arities:
            vs = list(itertools.product(CHILD_CLASSES, repeat=ar)) if ar <= 2 else exprind.vectors(ar)
            for vec in vs:
                cnt += 1
                msg = native_match(K, vec)
                if msg:
                    nbad += 1
                    if nbad <= 4:
                        oid = 'C16:ind:MatchExpr[%s(%s)]:twin' % (K, ','.join(vec))
                        rp = run.write_replay(oid, {'obligation': oid}, REPLAY % dict(verif=common.VERIF, repo=common.REPO, data={'method': 'match', 'K': K, 'vec': list(vec)}))
                        run.ob(oid, FAILED, 'BND', 'cpython-enum', detail=msg, witness=rp, confirmed=True, func=QN)
    run.bulk('MatchExpr recursion scheme on concrete nodes for every child-class vector (native twin)', cnt - nbad, 'BND', 'cpython-enum', 0.0, BOUNDED_OK)
    return n[0]
