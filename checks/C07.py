"""C07 - symbolic machine state equals sequential execution, incl. overlapping memory  (history-bounded SMT).

Contracts: eval_instr / eval_ExprMem / emul_lines.  The real machine executes a history; a byte-addressed little-endian
reference (z3 array, liftvc.den) executes the same assignments sequentially; every register and every read-back is proved
equal for ALL valuations of the initial symbols (one z3 query per observation).
  mem : store/load histories over widths 8/16/32 at offsets 0..7 from a constant or symbolic base (<= 2 stores + 1 load exhaustive
        on the quick grid, seeded random beyond)
  seq : straight-line instruction sequences (length 1..12) over integer-core encodings; reference = sequential composition of the
        lifted semantics (each instruction's assignments read its pre-state)
  rep : rep/repe/repne string instructions with concrete counts, reference = that many single steps with the termination test
"""
import sys, os, time, random, itertools, multiprocessing, traceback, binascii
from vlib import common
from vlib.common import Run, DISCHARGED, FAILED, BOUNDED_OK, UNDECIDED, DOWNGRADED, ENGINE_ERR, Ob

REPLAY = '''
import sys, os
sys.path.insert(0, %(verif)r); sys.path.insert(0, %(repo)r)
sys.dont_write_bytecode = True
sys.setrecursionlimit(10000)
from checks import C07
sys.exit(C07.replay(%(kind)r, %(hist)r))
'''

def quiet():
    from bounded import x86enum
    x86enum.quiet()

# ------------------------------------------------------------------------------------------------ memory histories
def base_expr(kind):
    from miasmx.expression.expression import ExprId, ExprInt32
    return ExprInt32(0x1000) if kind == 'const' else ExprId('init_esi', 32, True, True)

def addr_expr(kind, off):
    from miasmx.expression.expression import ExprOp, ExprInt32
    b = base_expr(kind)
    if kind == 'const':
        return ExprInt32(0x1000 + off)
    if off == 0:
        return b
    return ExprOp('+', b, ExprInt32(off & 0xffffffff))

def run_mem_history(hist):
    """hist = (basekind, [(w, off), ...stores], (w, off) load); returns (machine result expr, reference z3 term, st)"""
    import z3
    import logging
    from liftvc import den as D
    from miasmx.expression.expression import ExprId, ExprMem, ExprAff
    from miasmx.expression.expression_eval_abstract import eval_abs
    kind, stores, load = hist
    sliced = kind.endswith('/sl')       # the stored values are consecutive slices of ONE symbol (mov [p], al ; mov [p+1], ah ...)
    if sliced: kind = kind[:-3]
    m = eval_abs({}, log=logging.getLogger('verif.null'))
    st = D.State()
    mem = st.mem
    pos = 0
    for i, (w, off) in enumerate(stores):
        if sliced:
            from miasmx.expression.expression import ExprSlice
            if pos + w > 64: pos = 0
            mk = lambda pos=pos, w=w: ExprSlice(ExprId('X64', 64), pos, pos + w)
            pos += w
        else:
            mk = lambda i=i, w=w: ExprId('v%d_%d' % (i, w), w)
        m.eval_instr([ExprAff(ExprMem(addr_expr(kind, off), w), mk())])
        a = D.fit(D.den(addr_expr(kind, off), st), 32)
        mem = D.mem_write(mem, a, D.den(mk(), st), w // 8)
    w, off = load
    r = m.eval_expr(ExprMem(addr_expr(kind, off), w), {})
    if sliced:
        # the same read again: a load must not change what is stored (the result of the second read is what is compared)
        r = m.eval_expr(ExprMem(addr_expr(kind, off), w), {})
    a = D.fit(D.den(addr_expr(kind, off), st), 32)
    bs = [z3.Select(mem, a + z3.BitVecVal(i, 32)) for i in range(w // 8)]
    ref = bs[0] if len(bs) == 1 else z3.Concat(*reversed(bs))
    return m, r, ref, st

def check_mem_history(hist):
    import z3
    from liftvc import den as D
    import signal
    signal.alarm(common.patience(20))
    try:
        m, r, ref, st = run_mem_history(hist)
    except Exception as ex:
        return ('noraise', '%s: %s' % (type(ex).__name__, str(ex)[:100]))
    finally:
        signal.alarm(0)
    try:
        d = D.den(r, st)
    except D.IllTyped as ex:
        return ('welltyped', str(ex))
    if d.size() != ref.size():
        return ('width', 'read-back of %d bits has %d bits: %s' % (ref.size(), d.size(), r))
    if z3.is_false(z3.simplify(d != ref)):
        return None
    s = z3.SolverFor('QF_AUFBV'); s.set('timeout', 10000)
    s.add(d != ref)
    rr = s.check()
    if rr == z3.sat:
        return ('value', 'read-back %s differs from the byte-wise reference' % r)
    if rr != z3.unsat:
        return ('unknown', str(rr))
    return None

def mem_histories(tier, seed):
    rng = random.Random(seed + 7)
    W = (8, 16, 32)
    offs = range(0, 8) if tier != 'quick' else (0, 1, 2, 3, 4)
    loads = [(w, o) for w in W for o in (range(-3, 8) if tier != 'quick' else (-2, -1, 0, 1, 2, 3, 4, 5))]
    out = []
    for kind in ('const', 'sym'):
        for s1 in [(w, o) for w in W for o in offs]:
            for ld in loads:
                out.append((kind, [s1], ld))
        S = [(w, o) for w in W for o in offs]
        pairs = list(itertools.product(S, S))
        if tier == 'quick':
            pairs = rng.sample(pairs, 70)
        for s1, s2 in pairs:
            for ld in (loads if tier != 'quick' else rng.sample(loads, 8)):
                out.append((kind, [s1, s2], ld))
        for i in range(150 if tier == 'quick' else 4000):
            n = rng.randrange(3, 7)
            out.append((kind, [(rng.choice(W), rng.randrange(0, 8)) for _ in range(n)], (rng.choice(W), rng.randrange(-3, 8))))
        # adjacent cells holding consecutive slices of one symbol, read back (twice) with a wide load
        for ws in ((8, 8), (8, 8, 8, 8), (16, 16), (8, 16, 8), (16, 8, 8), (8, 8, 16)):
            for start in (0, 1):
                stores, o = [], start
                for w in ws:
                    stores.append((w, o)); o += w // 8
                for ld in ((16, start), (32, start), (32, start - 1), (16, start + 1), (8, start + 1)):
                    out.append((kind + '/sl', stores, ld))
    return out

# ------------------------------------------------------------------------------------------------ instruction sequences
SEQ_CODE = ['01d8', '29c8', '11d0', '19cb', 'f7d9', '31d2', '0fc1d1', 'f7d2', '09d0', '21d0', '8b442404', '894c2408', '50', '5b', '51', '5a', '0fb6c3', '0fbfc8',
            '8d0488', '8d4c2404', 'c1e803', 'd1f8', '40', '49', '8b06', '8907', '884603', '668b4602', '66894704', '8a4601', '0fb64602', '8b4604', '894708',
            '89e5', '83c404', '83ec08', 'ff7604', '8f4704', '0f94c0', '0f4cc3', '86c4', '0fc8', 'f7e3', '0fafc3', '98', '99', 'c60701', '66c747020500', 'c7460478563412',
            '8b0e', '880f', '8a07', '66890e', '8b4efe', '894ffd', 'a5', 'aa', 'ac', 'fc', 'f8', 'f9', '85c0', '39d8', '38c4']

def run_sequence(codes):
    """machine emulation vs sequential den composition. returns (machine, observations) with observations = [(name, machine expr, ref term)]"""
    import z3
    from liftvc import den as D
    from miasmx.arch.ia32_arch import x86mnemo
    from miasmx.arch import ia32_sem as S
    from miasmx.tools import emul_helper
    from miasmx.tools.modint import uint32
    from miasmx.expression.expression import ExprInt, ExprMem
    from miasmx.core.bin_stream import bin_stream
    quiet()
    blob = b''.join(binascii.unhexlify(c) for c in codes)
    bs = bin_stream(blob)
    instrs = []
    while bs.offset < len(blob):
        i = x86mnemo.dis(bs)
        if i is None: raise ValueError('undecodable sequence')
        instrs.append(i)
    machine = emul_helper.x86_machine()
    import signal
    signal.alarm(common.patience(20))            # bounded observation of termination (machine only; the solver has its own budget)
    try:
        emul_helper.emul_lines(machine, instrs)
    finally:
        signal.alarm(0)
    # reference: registers start as init_* symbols
    st = D.State()
    cur = st.copy()
    for reg, init in S.init_regs.items():
        cur.regs[(reg.name, reg.size)] = st.reg(init.name, init.size)
    cur.regs[('cs', 16)] = z3.BitVecVal(9, 16)
    cur.regs[('cr0', 32)] = st.reg('init_cr0', 32)
    cur.regs[('dr7', 32)] = z3.BitVecVal(0, 32)
    written = []
    for k, i in enumerate(instrs):
        affs = emul_helper.get_instr_expr(i, ExprInt(uint32(i.offset + i.l)), [])
        post, writes = D.apply_affs(affs, cur)
        for wr in writes:
            if wr[0] == 'mem': written.append((wr[1], wr[2]))
        post.regs.pop(('eip', 32), None)
        cur = post
    obs = []
    for reg in [S.eax, S.ebx, S.ecx, S.edx, S.esi, S.edi, S.esp, S.ebp, S.zf, S.nf, S.pf, S.of, S.cf, S.af, S.df]:
        if reg in machine.pool:
            obs.append((reg.name, machine.pool[reg], cur.regs.get((reg.name, reg.size), None), reg.size))
    # read back every written location (and one byte around it) through the machine
    seen = set()
    for (addr, nb) in written[-6:]:
        for w, delta in ((nb * 8, 0), (8, 0), (8, nb - 1), (32, 0), (16, 1)):
            key = (str(addr), w, delta)
            if key in seen: continue
            seen.add(key)
            obs.append(('mem', (addr, w, delta), None, w))
    return machine, st, cur, obs, instrs

def noalias_premise(st):
    """the symbolic machine keeps memory cells whose addresses differ in their symbolic base apart (it never resolves a read of
       [init_esi+2] against a write to [init_edi]).  Histories over ONE base are checked without any premise (mem histories);
       for instruction sequences the comparison is made under the premise that distinct initial registers point to regions at
       least 64 KiB apart -- the cross-base aliasing case itself is the fixed obligation family C07:alias[...] (a known finding)."""
    import z3
    bases = [st.reg('init_' + r, 32) for r in ('eax', 'ebx', 'ecx', 'edx', 'esi', 'edi', 'esp', 'ebp')]
    D = z3.BitVecVal(0x10000, 32)
    out = []
    for i in range(len(bases)):
        for j in range(i + 1, len(bases)):
            a, b = bases[i], bases[j]
            out.append(z3.And(z3.UGT(a - b, D), z3.UGT(b - a, D)))
    return out

def check_sequence(codes):
    import z3
    from liftvc import den as D
    from miasmx.expression.expression import ExprMem, ExprInt32, ExprOp
    try:
        machine, st, cur, obs, instrs = run_sequence(codes)
    except Exception as ex:
        return [('noraise', '%s: %s' % (type(ex).__name__, str(ex)[:150]))]
    fails = []
    for (name, mexpr, ref, size) in obs:
        try:
            if name == 'mem':
                continue        # memory read-backs of instruction sequences go through the store/load histories (address terms are z3, not IR)
            d = D.fit(D.den(mexpr, st), size)
            if ref is None:
                continue
            ref = D.fit(ref, size)
        except D.IllTyped as ex:
            fails.append(('welltyped:' + name, str(ex))); continue
        if z3.is_false(z3.simplify(d != ref)):
            continue
        s = z3.SolverFor('QF_AUFBV'); s.set('timeout', 3000)
        s.add(d != ref)
        for c in st.defined: s.add(c)
        for c in noalias_premise(st): s.add(c)
        rr = s.check()
        if rr == z3.sat:
            fails.append(('reg:' + name, 'machine has %s = %s, sequential reference differs' % (name, str(mexpr)[:200])))
        elif rr != z3.unsat:
            fails.append(('unknown:' + name, str(rr)))
    return fails

def sequences(tier, seed):
    rng = random.Random(seed + 77)
    out = []
    for c in SEQ_CODE:
        out.append(['fc', c])
    for a, b in itertools.product(SEQ_CODE[:40], repeat=2):
        if rng.random() < (0.12 if tier == 'quick' else 1.0):
            out.append(['fc', a, b])
    for i in range(250 if tier == 'quick' else 6000):
        out.append(['fc'] + [rng.choice(SEQ_CODE) for _ in range(rng.randrange(3, 12))])
    # directed: byte parts of one register stored at non-adjacent / swapped places and read back as a whole; a register made constant and
    # then changed in one byte by a flag-dependent instruction (setcc on ah/bh/ch/dh), followed by a store and wider read-backs
    SL = {'al@0': '8806', 'ah@0': '8826', 'al@1': '884601', 'ah@1': '886601', 'al@2': '884602', 'ah@2': '886602', 'ah@3': '886603', 'bl@1': '885e01', 'bh@2': '887e02',
          'ax@0': '668906', 'ax@2': '66894602'}
    RD = ['8b06', '8b4eff', '668b4601', '8a4602', '8b5601']
    for a, b in itertools.permutations(sorted(SL), 2):
        if a.split('@')[1] == b.split('@')[1]: continue
        out.append(['fc', SL[a], SL[b], RD[(len(out)) % len(RD)]])
    for a, b, c in [('al@0', 'ah@2', 'bl@1'), ('ah@0', 'al@1', 'bh@2'), ('al@0', 'bl@1', 'ah@2'), ('ax@0', 'ah@3', 'al@2')]:
        out.append(['fc', SL[a], SL[b], SL[c], '8b06'])
    CONST = ['b844332211', 'bb00ff00ff', 'b9ffffffff', 'ba00000080']
    SETCC = ['0f94c4', '0f95c7', '0f92c5', '0f9cc6', '0f94c0', '0f95c3']          # sete ah, setne bh, setb ch, setl dh, sete al, setne bl
    USE = ['8907', '894f04', '01d8', '89c1', '66894702']
    for k, cst in enumerate(CONST):
        for st in SETCC:
            out.append(['fc', '39d8', cst, st, USE[k % len(USE)], '8b07'])
            out.append(['fc', cst, '85d2', st])
    # concrete operands: every shift / rotate / double shift by cl (an 8-bit count against a 16/32-bit value), by an immediate and by one,
    # multiplications and divisions, sign extensions -- the machine folds them to constants, the reference computes the same value
    CL = ['b103', 'b100', 'b11f', 'b120', 'b121']
    BYCL = ['d3f8', 'd3e8', 'd3e0', 'd3c0', 'd3c8', 'd3d0', 'd3d8', '66d3f8', '66d3e8', '66d3c0', 'd2f8', 'd2e8', 'd2c0', '0fa5d8', '0fadd8', '660fa5d8', 'c1f803', 'c1e81f', 'd1f8', 'd1e8', 'd1d0',
            'f7e3', 'f7eb', '0fafc3', '98', '6698', '99', '0fbec8', '0fb7c8', 'f7d8', 'f7d0', '0fc8', '0fa3c8', '0fabc8', '0fbcc8', '0fbdc8']
    for cst in ['b844332211', 'b880000080']:
        for cl in (CL if tier != 'quick' else ['b103', 'b100', 'b121']):
            for op in BYCL:
                out.append(['fc', 'f8', cst, 'bb78563412', cl, op])      # the same population under every seed: known findings are keyed by the last instruction
        # divisions with a dividend that fits (edx cleared / sign-extended first), 32-, 16- and 8-bit
        for pre, op in (('31d2', 'f7f3'), ('99', 'f7fb'), ('31d2', '66f7f3'), ('6699', '66f7fb'), ('b400', 'f6f3'), ('6698', 'f6fb')):
            out.append(['fc', 'f8', cst, 'bb78563412', pre, op])
    return out

# ------------------------------------------------------------------------------------------------ rep
def check_rep(case):
    """case = (hex, count, df, zfmode) ; reference = count single steps with the architectural termination test"""
    import z3
    from liftvc import den as D
    from miasmx.arch.ia32_arch import x86mnemo
    from miasmx.arch import ia32_sem as S
    from miasmx.tools import emul_helper
    from miasmx.tools.modint import uint32
    from miasmx.expression.expression import ExprInt, ExprInt32, ExprAff
    quiet()
    hx, count, df = case
    ins = x86mnemo.dis(binascii.unhexlify(hx))
    from miasmx.expression.expression import ExprMem
    from miasmx.tools.modint import uint8
    machine = emul_helper.x86_machine()
    init = [ExprAff(S.ecx, ExprInt32(count)), ExprAff(S.df, ExprInt32(df))]
    st = D.State()
    cur = st.copy()
    for reg, ini in S.init_regs.items():
        cur.regs[(reg.name, reg.size)] = st.reg(ini.name, ini.size)
    cur.regs[('ecx', 32)] = z3.BitVecVal(count, 32)
    cur.regs[('df', 1)] = z3.BitVecVal(df, 1)
    sname = x86mnemo.dis(binascii.unhexlify(hx[2:])).m.name
    if sname[:4] in ('cmps', 'scas'):
        # concrete operands so that the zero-flag termination test is decidable: the streams agree (repe) / differ (repne) on
        # the first two elements and then change
        ESI, EDI = 0x2000 + 64, 0x3000 + 64
        init += [ExprAff(S.esi, ExprInt32(ESI)), ExprAff(S.edi, ExprInt32(EDI)), ExprAff(S.eax, ExprInt32(0x01010101))]
        cur.regs[('esi', 32)] = z3.BitVecVal(ESI, 32); cur.regs[('edi', 32)] = z3.BitVecVal(EDI, 32); cur.regs[('eax', 32)] = z3.BitVecVal(0x01010101, 32)
        w = {'b': 1, 'w': 2, 'd': 4}[sname[4]]
        rep = int(hx[:2], 16)
        for k in range(-8 * w, 8 * w):
            el = (k // w) if df == 0 else (-(k // w))
            same = (el < 2) if rep == 0xF3 else (el >= 2)
            a = 1
            b = 1 if same else 7
            for (base, val) in ((ESI, a), (EDI, b)):
                init.append(ExprAff(ExprMem(ExprInt32((base + k) & 0xffffffff), 8), ExprInt(uint8(val))))
                cur.mem = z3.Store(cur.mem, z3.BitVecVal((base + k) & 0xffffffff, 32), z3.BitVecVal(val, 8))
    for a in init:
        machine.eval_instr([a])
    import signal
    signal.alarm(common.patience(20))
    try:
        emul_helper.emul_lines(machine, [ins])
    except Exception as ex:
        return [('noraise', '%s: %s' % (type(ex).__name__, str(ex)[:150]))]
    finally:
        signal.alarm(0)
    single = x86mnemo.dis(binascii.unhexlify(hx[2:]))
    affs = emul_helper.get_instr_expr(single, ExprInt(uint32(single.l)), [])
    name = single.m.name
    rep = int(hx[:2], 16)
    # the reference loop is unrolled `count` times; the zf termination test makes later steps conditional
    active = z3.BoolVal(True)
    for k in range(count):
        post, writes = D.apply_affs(affs, cur)
        post.regs[('ecx', 32)] = cur.regs[('ecx', 32)] - 1
        nxt = cur.copy()
        for key in set(list(post.regs.keys()) + list(cur.regs.keys())):
            a, b = post.regs.get(key), cur.regs.get(key)
            if a is None: a = st.reg(key[0], key[1]) if key not in cur.regs else b
            if b is None: b = st.reg(key[0], key[1])
            nxt.regs[key] = z3.If(active, a, b) if not z3.is_true(active) else a
        nxt.mem = z3.If(active, post.mem, cur.mem) if not z3.is_true(active) else post.mem
        if name[:4] in ('cmps', 'scas'):
            zfv = nxt.regs[('zf', 1)]
            cont = (zfv == 1) if rep == 0xF3 else (zfv == 0)
            active = z3.And(active, cont)
        cur = nxt
    fails = []
    for reg in [S.ecx, S.esi, S.edi, S.eax, S.zf, S.cf]:
        if reg not in machine.pool: continue
        try:
            d = D.fit(D.den(machine.pool[reg], st), reg.size)
        except D.IllTyped as ex:
            fails.append(('welltyped:' + reg.name, str(ex))); continue
        ref = D.fit(cur.regs.get((reg.name, reg.size)), reg.size)
        s = z3.SolverFor('QF_AUFBV'); s.set('timeout', 10000)
        s.add(d != ref)
        for c in noalias_premise(st): s.add(c)
        rr = s.check()
        if rr == z3.sat:
            fails.append(('reg:' + reg.name, 'after %s with ecx=%d df=%d the machine has %s = %s' % (hx, count, df, reg.name, str(machine.pool[reg])[:160])))
        elif rr != z3.unsat:
            fails.append(('unknown:' + reg.name, str(rr)))
    return fails

def check_repcap(case):
    """large concrete counts around the emulator's anti-runaway cap: rep stosb must run exactly ecx steps (ecx = 0, edi advanced by ecx)"""
    import z3
    from liftvc import den as D
    from miasmx.arch.ia32_arch import x86mnemo
    from miasmx.arch import ia32_sem as S
    from miasmx.tools import emul_helper
    from miasmx.expression.expression import ExprInt32, ExprAff
    quiet()
    hx, count = case
    ins = x86mnemo.dis(binascii.unhexlify(hx))
    machine = emul_helper.x86_machine()
    machine.eval_instr([ExprAff(S.ecx, ExprInt32(count)), ExprAff(S.df, ExprInt32(0)), ExprAff(S.edi, ExprInt32(0x100000))])
    import signal
    signal.alarm(common.patience(120))
    try:
        emul_helper.emul_lines(machine, [ins])
    except Exception as ex:
        return [('noraise', '%s: %s' % (type(ex).__name__, str(ex)[:150]))]
    finally:
        signal.alarm(0)
    st = D.State()
    fails = []
    step = {'aa': 1, 'ab': 4, 'a4': 1, 'a5': 4, 'ac': 1, 'ad': 4}.get(hx[-2:], 1)      # bytes per iteration of the string instruction
    for reg, want in ((S.ecx, 0), (S.edi, 0x100000 + count * step)):
        d = D.den(machine.pool[reg], st)
        s = z3.Solver(); s.add(d != z3.BitVecVal(want, 32))
        if s.check() != z3.unsat:
            fails.append(('reg:' + reg.name, 'after %s with ecx=0x%x the machine has %s = %s (expected 0x%x): not that many single steps' % (hx, count, reg.name, machine.pool[reg], want)))
    return fails

def rep_cases(tier):
    out = []
    for hx in ('f3a4', 'f3a5', 'f3aa', 'f3ab', 'f3ac', 'f3a6', 'f2a6', 'f3ae', 'f2ae', 'f3a7', 'f2af'):
        for count in ((0, 1, 2, 5) if tier == 'quick' else (0, 1, 2, 3, 5, 8)):
            for df in (0, 1):
                out.append((hx, count, df))
    return out

# ------------------------------------------------------------------------------------------------ cross-base aliasing (fixed family)
ALIAS_CASES = [('init_edi', 'init_esi', 32, 32), ('init_esp', 'init_ebp', 32, 8), ('init_ebx', 'init_esi', 8, 32)]

def check_alias(case):
    """store through one symbolic base, load through another, NO disjointness premise: exact only if the machine resolved may-aliasing"""
    import z3, logging
    from liftvc import den as D
    from miasmx.expression.expression import ExprId, ExprMem, ExprAff
    from miasmx.expression.expression_eval_abstract import eval_abs
    b1, b2, w1, w2 = case
    m = eval_abs({}, log=logging.getLogger('verif.null'))
    st = D.State()
    m.eval_instr([ExprAff(ExprMem(ExprId(b1, 32), w1), ExprId('v0_%d' % w1, w1))])
    r = m.eval_expr(ExprMem(ExprId(b2, 32), w2), {})
    mem = D.mem_write(st.mem, st.reg(b1, 32), st.reg('v0_%d' % w1, w1), w1 // 8)
    a = st.reg(b2, 32)
    bs = [z3.Select(mem, a + z3.BitVecVal(i, 32)) for i in range(w2 // 8)]
    ref = bs[0] if len(bs) == 1 else z3.Concat(*reversed(bs))
    s = z3.SolverFor('QF_AUFBV'); s.set('timeout', 10000)
    s.add(D.den(r, st) != ref)
    rr = s.check()
    if rr == z3.sat:
        return [('value', 'store @%d[%s] then load @%d[%s] returns %s: wrong when %s and %s point to overlapping bytes' % (w1, b1, w2, b2, r, b1, b2))]
    return []

# ------------------------------------------------------------------------------------------------ driver
def replay(kind, hist):
    if kind == 'mem':
        r = check_mem_history(hist)
        print('history: base %s, stores %s, load %s' % (hist[0], hist[1], hist[2]))
        try:
            m, rr, ref, st = run_mem_history(hist)
            print('machine read-back:', rr)
        except Exception as ex:
            print('raised', ex)
        print('verdict:', r)
        return 1 if (r is not None and r[0] != 'unknown') else 0
    if kind == 'seq':
        fs = check_sequence(hist)
    elif kind == 'alias':
        fs = check_alias(tuple(hist))
    elif kind == 'repcap':
        fs = check_repcap(tuple(hist))
    else:
        fs = check_rep(tuple(hist))
    for f in fs: print(f)
    return 1 if any(not f[0].startswith('unknown') for f in fs) else 0

def _work(job):
    kind, items = job
    common.use_repo()
    sys.setrecursionlimit(10000)
    quiet()
    out = {'n': 0, 'ok': 0, 'fails': [], 'unknown': 0}
    import signal
    class _TO(Exception): pass
    def _al(sig, frm): raise _TO()
    signal.signal(signal.SIGALRM, _al)
    for it in items:
        out['n'] += 1
        try:
            if kind == 'mem':
                r = check_mem_history(it)
                fs = [] if r is None else [r]
                key = '%s:st%s:ld%s' % (it[0], ','.join('%d@%d' % s for s in it[1]), '%d@%d' % it[2])
            elif kind == 'seq':
                fs = check_sequence(it)
                key = ' '.join(it)
            elif kind == 'repcap':
                fs = check_repcap(it)
                key = '%s ecx=0x%x' % it
            elif kind == 'alias':
                fs = check_alias(it)
                key = 'store@%d[%s],load@%d[%s]' % (it[2], it[0], it[3], it[1])
            else:
                fs = check_rep(it)
                key = '%s ecx=%d df=%d' % it
        except _TO:
            signal.alarm(0)
            key = str(it)[:120]
            out['fails'].append((kind, key, 'terminates', 'no result within 20 s (bounded observation)', it)); continue
        except Exception:
            signal.alarm(0)
            out['fails'].append((kind, 'crash', 'crash', traceback.format_exc()[-600:], None)); continue
        finally:
            signal.alarm(0)
        real = [f for f in fs if not f[0].startswith('unknown')]
        out['unknown'] += len(fs) - len(real)
        if not fs: out['ok'] += 1
        for f in real:
            out['fails'].append((kind, key, f[0], f[1], it))
    return out

def main(argv):
    tier, seed, rest = common.parse_args(argv)
    common.use_repo()
    sys.setrecursionlimit(10000)
    run = Run('C07', tier, seed, 'other', 'cd /verif && ./vcheck C07 --tier %s' % tier)
    H = mem_histories(tier, seed)
    Q = sequences(tier, seed)
    R = rep_cases(tier)
    jobs = [('repcap', [c]) for c in []] + [('mem', H[i:i + 300]) for i in range(0, len(H), 300)] + [('seq', Q[i:i + 25]) for i in range(0, len(Q), 25)] + [('rep', R[i:i + 6]) for i in range(0, len(R), 6)] + [('alias', ALIAS_CASES)] + [('repcap', [c]) for c in ([('f3aa', 0x1000)] if tier == 'quick' else [('f3aa', 0xfff), ('f3aa', 0x1000), ('f3ab', 0x1000), ('f3a4', 0x1000)])]
    with multiprocessing.get_context('fork').Pool(min(16, os.cpu_count() or 4)) as pool:
        results = pool.map(_work, jobs, chunksize=1)
    run.bulk('histories whose every observation is proved equal to the reference', sum(r['ok'] for r in results), 'SMT-shape', 'z3', 0.0, DISCHARGED)
    run.bulk('observations with solver unknown', sum(r['unknown'] for r in results), 'SMT-shape', 'z3', 0.0, DOWNGRADED)
    nf = 0
    for r in results:
        for (kind, key, clause, detail, it) in r['fails']:
            oid = 'C07:%s[%s]:%s' % (kind, key, clause)
            if clause == 'crash':
                run.ob(oid, ENGINE_ERR, 'SMT-shape', 'z3', detail=detail); continue
            nf += 1
            script = REPLAY % dict(verif=common.VERIF, repo=common.REPO, kind=kind, hist=it)
            rp = run.write_replay(oid, {'obligation': oid, 'detail': detail}, script)
            run.ob(oid, FAILED, 'SMT-shape', 'z3', detail=detail, witness=rp, confirmed=True, func=kind)
    run.evaluations = len(H) + len(Q) + len(R)
    run.distinct = run.evaluations
    run.extra.update({'memory_histories': len(H), 'instruction_sequences': len(Q), 'rep_cases': len(R)})
    run.rule = ('mem: all single-store x load pairs and sampled two-store histories over widths 8/16/32, store offsets %s, loads at offsets %s, constant base 0x1000 and symbolic base init_esi, '
                'plus seeded 3..6-store histories, and adjacent cells holding consecutive slices of one symbol read back twice; seq: directed byte-part / constant / setcc sequences and 216 concrete-operand sequences (mov eax,K ; mov ebx,K ; mov cl,n ; one of 36 shift/rotate/multiply/extend/bit instructions), every single encoding of a %d-instruction pool, sampled pairs, seeded sequences of length 3..12; rep: %d (prefix, string op, count, df) cases'
                % ('0..4' if tier == 'quick' else '0..7', '-2..5' if tier == 'quick' else '-3..7', len(SEQ_CODE), len(R)))
    run.explanation = ('history-bounded, valuation-unbounded: each observation (register expression, memory read-back) of the real machine is proved equal to a byte-addressed sequential reference for all '
                       'valuations of the initial symbols; proved from their ASTs for all inputs (SMT-A): rest_slice (gaps of an overlapping read) and substract_mems (what survives of an overwritten cell); the alias '
                       'decision of eval_ExprMem/get_mem_overlapping itself goes through expr_simp and is covered by the histories only')
    run.samples = [str(H[0]), str(H[len(H) // 2]), ' '.join(Q[-1]), str(R[0])]
    run.trust('z3; liftvc/den.py'); run.assume('stores use fresh symbolic values or slices of one symbol; addresses are base+constant')
    # SMT-A: the gap finder of overlapping reads, verified from its AST for all bounds
    from checks import C07smt
    C07smt.ob_smt(run)
    C07smt.ob_sub(run)
    return run.finish()

if __name__ == '__main__':
    sys.exit(main(sys.argv[1:]))
