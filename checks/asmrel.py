"""Relative branches in the assembler family (C02, C03, C09, C19): jmp / call / jcc (all spellings) / loop* / jecxz with a numeric operand.

In miasmX's text syntax the operand of a direct branch is the displacement itself (`jmp -2` is EB FE / E9 FE FF FF FF), in both syntaxes; GNU as reads a
number there as an absolute target, so GNU as is no reference here and the spec decoder (specs/x86dec.py) is.

  C02  every candidate of asm(`m D`) / asm_att(`m D`) spec-decodes, with its full length, to the branch m (condition aliases identified) with
       displacement D; the short form is offered only for -128 <= D <= 127 (a line without
       candidates is not constrained: jna / jnbe are not in the assembler's vocabulary).
  C03  for every encoding b of (m, D) (rel8 and rel32 forms): dis(b) accepts and consumes len(b), and b is among asm(str(dis(b))); every candidate
       of asm(`m D`) is again among the candidates of its own rendering.
  C09  the AT&T rendering of dis(b) given to asm_att contains b (loop/loope/loopne have no AT&T rendering in miasmX: that failure is listed under
       C10's known findings and is not repeated here).
  C19  decimal, hexadecimal (0x / 0X) and (for negative D) two's-complement spellings, extra blanks, and the AT&T line give the same candidate set.
Boundary displacements: -2^31, -32769, -32768, -129, -128, -127, -2, -1, 0, 1, 2, 126, 127, 128, 129, 200, 254, 255, 256, 32767, 32768, 65535, 65536, 2^31-1.
"""
import sys, os
from vlib import common
from vlib.common import FAILED, BOUNDED_OK

REPLAY = '''
import sys, os
sys.path.insert(0, %(verif)r); sys.path.insert(0, %(repo)r)
sys.dont_write_bytecode = True
from checks import asmrel
sys.exit(asmrel.replay(%(prop)r, %(mnem)r, %(D)r, %(clause)r))
'''
DISP = [-(1 << 31), -32769, -32768, -129, -128, -127, -2, -1, 0, 1, 2, 126, 127, 128, 129, 200, 254, 255, 256, 32767, 32768, 65535, 65536, (1 << 31) - 1]
CC = [('o',), ('no',), ('b', 'c', 'nae'), ('ae', 'nb', 'nc'), ('e', 'z'), ('ne', 'nz'), ('be', 'na'), ('a', 'nbe'), ('s',), ('ns',), ('p', 'pe'), ('np', 'po'),
      ('l', 'nge'), ('ge', 'nl'), ('le', 'ng'), ('g', 'nle')]

def mnemonics():
    """(spelling, canonical name as the spec decoder reports it, rel8 opcode or None, rel32 opcode or None)"""
    out = [('jmp', 'jmp', b'\xeb', b'\xe9'), ('call', 'call', None, b'\xe8'),
           ('loop', 'loop', b'\xe2', None), ('loope', 'loope', b'\xe1', None), ('loopne', 'loopne', b'\xe0', None), ('jecxz', 'jecxz', b'\xe3', None)]
    for i, grp in enumerate(CC):
        for sp in grp:
            out.append(('j' + sp, 'j' + grp[0], bytes([0x70 + i]), bytes([0x0f, 0x80 + i])))
    return out

def encodings(m, D):
    sp, canon, o8, o32 = m
    out = []
    if o8 is not None and -128 <= D <= 127: out.append(o8 + (D & 0xff).to_bytes(1, 'little'))
    if o32 is not None: out.append(o32 + (D & 0xffffffff).to_bytes(4, 'little'))
    return out

def check(prop, m, D):
    """list of (clause, message)"""
    from checks.asmfam import safe_asm
    from specs import x86dec
    from miasmx.arch.ia32_arch import x86mnemo
    sp, canon, o8, o32 = m
    res = []
    line = '%s %d' % (sp, D)
    has_att = not sp.startswith('loop')
    def dec_ok(c):
        B = x86dec.decode(c)
        if B is None: return 'is not an IA-32 instruction of the covered maps'
        if B['length'] != len(c): return 'decodes with length %d' % B['length']
        rel = [o for o in B['ops'] if o[0] == 'rel']
        names = set([canon]) | set('j' + x for g in CC if canon[1:] in g for x in g)
        if B['mnem'] not in names and B['mnem'] != canon: return 'is %s' % B['mnem']
        if not rel or rel[0][1] != D: return 'is %s %s' % (B['mnem'], rel and rel[0][1])
        return None
    if prop == 'C02':
        for att in (False, True):
            if att and not has_att: continue
            cands, crash = safe_asm(line, att)
            tag = 'att' if att else 'intel'
            if crash: res.append((tag + '-crash', '%s(%r) raised %s' % ('asm_att' if att else 'asm', line, crash))); continue
            if cands is None: continue
            for c in cands:
                why = dec_ok(c)
                if why: res.append((tag + '-meaning', 'candidate %s of %r %s' % (c.hex(), line, why)))
    elif prop == 'C03':
        for b in encodings(m, D):
            try:
                ins = x86mnemo.dis(b)
            except Exception as ex:
                res.append(('redecode', 'dis(%s) raised %s' % (b.hex(), type(ex).__name__))); continue
            if ins is None or ins.l != len(b):
                res.append(('redecode', '%s (%s) is rejected or cut short by the disassembler' % (b.hex(), line))); continue
            try:
                t = str(ins).strip()
            except Exception as ex:
                res.append(('rerender', 'rendering of %s raised %s' % (b.hex(), type(ex).__name__))); continue
            c2, crash = safe_asm(t)
            if c2 is None or b not in c2:
                res.append(('canonical', 'encoding %s of %r renders as %r, which assembles to %s' % (b.hex(), line, t, [x.hex() for x in c2] if c2 is not None else 'an error')))
        cands, crash = safe_asm(line)
        for c in (cands or []):
            try:
                ins = x86mnemo.dis(c); t = str(ins).strip() if ins is not None else None
            except Exception:
                t = None
            if t is None: res.append(('redecode', 'candidate %s of %r is rejected by the disassembler' % (c.hex(), line))); continue
            c2, crash = safe_asm(t)
            if c2 is None or c not in c2:
                res.append(('fixpoint', 'candidate %s of %r renders as %r, which assembles to %s' % (c.hex(), line, t, [x.hex() for x in c2] if c2 is not None else 'an error')))
    elif prop == 'C09':
        if has_att:
            for b in encodings(m, D):
                try:
                    ins = x86mnemo.dis(b)
                    ta = ins.__str__('att_syntax binutils').strip() if ins is not None else None
                except Exception as ex:
                    res.append(('att-render', 'AT&T rendering of %s raised %s' % (b.hex(), type(ex).__name__))); continue
                if ta is None: continue
                c2, crash = safe_asm(ta, True)
                if c2 is None or b not in c2:
                    res.append(('att-parse', '%s renders (AT&T) as %r, which assembles to %s' % (b.hex(), ta, [x.hex() for x in c2] if c2 is not None else 'an error')))
                try:
                    to = ins.__str__('att_syntax objdump').strip()
                    c3, crash = safe_asm(to, True)
                    if c3 is None or b not in c3:
                        res.append(('att-objdump-parse', '%s renders (AT&T, objdump format) as %r, which assembles to %s' % (b.hex(), to, [x.hex() for x in c3] if c3 is not None else 'an error')))
                except Exception as ex:
                    res.append(('att-render', 'AT&T (objdump format) rendering of %s raised %s' % (b.hex(), type(ex).__name__)))
    elif prop == 'C19':
        ref, crash = safe_asm(line)
        if ref is None: return res
        ref = sorted(set(ref))
        spell = [('hex', '%s %s0x%x' % (sp, '-' if D < 0 else '', abs(D))), ('hex-upper', '%s %s0X%X' % (sp, '-' if D < 0 else '', abs(D))), ('blanks', '  %s   %d ' % (sp, D))]
        if D < 0: spell.append(('twos-complement', '%s 0x%x' % (sp, D & 0xffffffff)))
        for name, l2 in spell:
            c2, crash = safe_asm(l2)
            if c2 is None or sorted(set(c2)) != ref:
                res.append(('spelling-' + name, '%r gives %s, %r gives %s' % (line, [x.hex() for x in ref], l2, [x.hex() for x in sorted(set(c2))] if c2 is not None else 'an error')))
        if has_att:
            for name, l2 in (('att', line), ('att-hex', '%s %s0x%x' % (sp, '-' if D < 0 else '', abs(D))), ('att-hex-upper', '%s %s0X%X' % (sp, '-' if D < 0 else '', abs(D)))):
                c2, crash = safe_asm(l2, True)
                if c2 is None or sorted(set(c2)) != ref:
                    res.append(('att-differs' if name == 'att' else 'att-spelling-' + name[4:], 'Intel %r gives %s, AT&T %r gives %s' % (line, [x.hex() for x in ref], l2, [x.hex() for x in sorted(set(c2))] if c2 is not None else 'an error')))
    return res

def replay(prop, mnem, D, clause):
    common.use_repo()
    from bounded import x86enum
    x86enum.quiet()
    m = [x for x in mnemonics() if x[0] == mnem][0]
    r = check(prop, m, D)
    for x in r: print(x)
    return 1 if any(x[0] == clause for x in r) else 0

def ob(run, prop):
    from bounded import x86enum
    x86enum.quiet()
    n = 0
    groups = {}
    for m in mnemonics():
        for D in DISP:
            n += 1
            for (clause, msg) in check(prop, m, D):
                # identity of a failure: clause, mnemonic, and the displacement class (sign / fits a byte)
                dc = ('neg' if D < 0 else 'pos') + ('8' if -128 <= D <= 127 else '32')
                g = groups.setdefault(('rel-' + clause, '%s %s' % (m[0], dc)), [0, m[0], D, msg])
                g[0] += 1
    run.bulk('relative branches (mnemonic spelling x boundary displacement) for which every clause held', n - len(set(k[1] for k in groups)), 'BND', 'cpython-enum', 0.0, BOUNDED_OK)
    for (clause, key), (cnt, mn, D, msg) in sorted(groups.items()):
        oid = '%s:%s[%s]' % (prop, clause, key)
        rp = run.write_replay(oid, {'obligation': oid, 'detail': msg}, REPLAY % dict(verif=common.VERIF, repo=common.REPO, prop=prop, mnem=mn, D=D, clause=clause[4:]))
        run.ob(oid, FAILED, 'BND', 'cpython-enum', detail='%d cases, e.g. %s' % (cnt, msg), witness=rp, confirmed=True, func=clause)
    run.extra['relative_branch_cases'] = n
    return n
