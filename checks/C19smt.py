"""SMT-A part of C19: the term algebra of the Intel operand parser (dict_add / dict_sub / dict_mul in miasmx/core/parse_ad.py) is verified
from its AST: for every key shape of the two operands (registers eax/ebx, immediate, one or two symbols) and ALL integer coefficients, the
result denotes the sum / difference / product of the linear forms the operands denote -- "a sign error in the term algebra changes the
meaning of one spelling only" (property C19).

Abstract view of an operand dictionary: the linear form  sum(coef[k] * k)  over register numbers, 'imm' and the symbols of the nested
'symb' dictionary; the keys 'txt' (spelling memo), 'size', 'ad' are not part of the view.  Representation invariant (precondition, and
postcondition of add/sub): no coefficient is 0.
  dict_add(a, b): view(res) == view(a) + view(b); may raise ValueError (from arg2txt, whose result is an opaque string here)
  dict_sub(a, b): view(res) == view(a) - view(b); an empty nested 'symb' dictionary is removed
  dict_mul(a, b): if a (or b) is a pure immediate {imm: c}: view(res) == c * view(other); otherwise ValueError
Shape-bounded in the KEY SETS (finite: all subsets of {eax, ebx, imm, symb{s}, symb{s,t}} for both operands), unbounded in the coefficients.
"""
import sys, os, itertools
from vlib import common
from vlib.common import DISCHARGED, FAILED, DOWNGRADED, ENGINE_ERR, BOUNDED_OK

REPLAY = '''
import sys, os
sys.path.insert(0, %(verif)r); sys.path.insert(0, %(repo)r)
sys.dont_write_bytecode = True
from checks import C19smt
sys.exit(C19smt.replay(%(data)r))
'''
P = 'miasmx.core.parse_ad'
SYMB = 'symb__intern__'       # x86_afs.symb (checked against the repo at run time)
SHAPES = []
for regs in ([], [0], [3], [0, 3]):
    for imm in ([], ['imm']):
        for symb in (None, ('s',), ('s', 't')):
            SHAPES.append((tuple(regs + imm), symb))

def view(d):
    """linear form of an operand dictionary: {key: coefficient}, nested symbols as ('symb', name)"""
    out = {}
    for k, v in d.items():
        if k in ('txt', 'size', 'ad'): continue
        if k == SYMB:
            for s, c in v.items():
                if s != 'txt': out[('symb', s)] = c
        else:
            out[k] = v
    return out

def build(shape, prefix, mk):
    keys, symb = shape
    d = {}
    for k in keys: d[k] = mk('%s_%s' % (prefix, k))
    if symb is not None:
        d[SYMB] = {s: mk('%s_sym_%s' % (prefix, s)) for s in symb}
    return d

def contracts(op):
    from pyvc.contract import Contract
    from specs.duck import And, Or, Not, is_sym
    def wf(d):
        cl = [Not(c == 0) for c in view(d).values()]
        return And(*cl) if cl else True
    def pre(ctx, a, b):
        return And(wf(a), wf(b))
    def post_lin(f, nonzero):
        def post(ctx, res, a, b):
            if not isinstance(res, dict): return False
            va, vb, vr = view(a), view(b), view(res)
            cl = []
            for k in set(va) | set(vb) | set(vr):
                want = f(va.get(k, 0), vb.get(k, 0))
                if k in vr:
                    cl.append(vr[k] == want)
                    if nonzero: cl.append(Not(vr[k] == 0))
                else:
                    cl.append(want == 0)
            if op == 'dict_sub' and SYMB in res and not view({SYMB: res[SYMB]}):
                return False            # an empty nested dictionary must have been removed
            return And(*cl) if cl else True
        return post
    def post_mul(ctx, res, a, b):
        if not isinstance(res, dict): return False
        va, vb, vr = view(a), view(b), view(res)
        if list(va) == ['imm'] and set(a) == {'imm'}: c, other = va['imm'], vb
        elif list(vb) == ['imm'] and set(b) == {'imm'}: c, other = vb['imm'], va
        else: return False
        if set(vr) != set(other): return False
        cl = [vr[k] == c * other[k] for k in other]
        return And(*cl) if cl else True
    def mul_raises(ctx, a, b):
        return not (set(a) == {'imm'} or set(b) == {'imm'})
    C = {}
    C['%s:arg2txt' % P] = Contract('%s:arg2txt' % P, result=lambda ctx, a: 'TXT', raises={'ValueError': lambda ctx, a: True},
                                   note='the spelling memo is opaque here; arg2txt may reject (ValueError)')
    for o in ('dict_add', 'dict_sub', 'dict_mul'):
        C['%s:%s' % (P, o)] = Contract('%s:%s' % (P, o), inline=True)       # recursive calls on the nested symbol dictionaries execute the real body
    top = {
        'dict_add': Contract('%s:dict_add' % P, pre=pre, post=post_lin(lambda x, y: x + y, True), raises={'ValueError': lambda ctx, a, b: True}),
        'dict_sub': Contract('%s:dict_sub' % P, pre=pre, post=post_lin(lambda x, y: x - y, True)),
        'dict_mul': Contract('%s:dict_mul' % P, pre=pre, post=post_mul, raises={'ValueError': mul_raises}, raises_iff=('ValueError',)),
    }[op]
    return top, C

def native(op, sa, sb, vals):
    """the real function on concrete coefficients; None when the contract holds"""
    import miasmx.core.parse_ad as PA
    a = build(sa, 'a', lambda n: vals.get(n, 1))
    b = build(sb, 'b', lambda n: vals.get(n, 1))
    if any(c == 0 for c in view(a).values()) or any(c == 0 for c in view(b).values()): return None
    va, vb = view(a), view(b)
    try:
        r = getattr(PA, op)(a, b)
    except ValueError:
        if op == 'dict_mul': return None if not (set(a) == {'imm'} or set(b) == {'imm'}) else 'ValueError for a pure-immediate factor'
        return None if op == 'dict_add' else 'dict_sub raised ValueError'
    vr = view(r)
    for k in set(va) | set(vb) | set(vr):
        if op == 'dict_mul':
            c, other = (va['imm'], vb) if set(a) == {'imm'} else (vb['imm'], va)
            want = c * other.get(k, 0)
            if vr.get(k, 0) != want: return '%s(%s, %s) = %s: coefficient of %r is %s, expected %s' % (op, a, b, r, k, vr.get(k, 0), want)
            continue
        want = va.get(k, 0) + vb.get(k, 0) if op == 'dict_add' else va.get(k, 0) - vb.get(k, 0)
        if vr.get(k, 0) != want or (k in vr and vr[k] == 0):
            return '%s(%s, %s) = %s: coefficient of %r is %s, expected %s' % (op, a, b, r, k, vr.get(k, 'absent'), want)
    return None

def replay(data):
    common.use_repo()
    msg = native(data['op'], tuple(map(lambda x: tuple(x) if isinstance(x, list) else x, data['sa'])), tuple(map(lambda x: tuple(x) if isinstance(x, list) else x, data['sb'])), data['vals'])
    print(msg or 'contract holds on this input')
    return 1 if msg else 0

def _smt_job(job):
    """one (operation, left shape): all right shapes; returns obligation tuples"""
    op, sa = job
    common.use_repo()
    import z3
    from pyvc import engine
    from pyvc.runner import resolve
    out = []
    qn = '%s:%s' % (P, op)
    mod, node, seg, path = resolve(qn)
    top, C = contracts(op)
    for sb in SHAPES:
        def make_args(ctx, sa=sa, sb=sb):
            ins = {}
            def mk(name):
                v = z3.Int(name); ins[name] = v; return v
            return [build(sa, 'a', mk), build(sb, 'b', mk)], ins
        base = 'C19:%s[%s|%s]' % (op, shape_txt(sa), shape_txt(sb))
        V = engine.verify_function(qn, node, vars(mod), top, C, make_args)
        if V.unsupported:
            out.append((base + ':generate', DOWNGRADED, 0.0, V.unsupported, None)); continue
        if not V.cover:
            out.append((base + ':cover', ENGINE_ERR, 0.0, 'precondition unsatisfiable', None)); continue
        for cl, d in sorted(V.clauses.items()):
            oid = base + ':' + cl
            if d['status'] == 'unsat':
                out.append((oid, DISCHARGED, d['secs'], None, None))
            elif d['status'] == 'sat':
                w = d['witness'] or {}
                vals = {}
                for k, v in w.items():
                    try: vals[k] = int(v)
                    except Exception: pass
                data = {'op': op, 'sa': sa, 'sb': sb, 'vals': vals}
                msg = native(op, sa, sb, vals)
                if msg is None:
                    out.append((oid, DOWNGRADED, d['secs'], 'counter-model %s does not replay on the real function; bounded twin below' % w, None))
                else:
                    out.append((oid, FAILED, d['secs'], '%s; counterexample %s; native: %s' % (d['detail'], w, msg), data))
            else:
                out.append((oid, DOWNGRADED, d['secs'], 'solver unknown', None))
    return out

def ob_smt(run):
    import multiprocessing
    from pyvc.runner import resolve
    common.use_repo()
    from miasmx.arch.ia32_reg import x86_afs
    assert x86_afs.symb == SYMB and x86_afs.imm == 'imm'
    n = 0
    for op in ('dict_add', 'dict_sub', 'dict_mul'):
        qn = '%s:%s' % (P, op)
        mod, node, seg, path = resolve(qn)
        run.function(qn, seg, path, node.lineno)
    jobs = [(op, sa) for op in ('dict_add', 'dict_sub', 'dict_mul') for sa in SHAPES]
    with multiprocessing.get_context('fork').Pool(min(16, os.cpu_count() or 4)) as pool:
        results = pool.map(_smt_job, jobs, chunksize=1)
    for (op, sa), obs in zip(jobs, results):
        qn = '%s:%s' % (P, op)
        for (oid, st, secs, detail, data) in obs:
            n += 1
            if st == FAILED:
                rp = run.write_replay(oid, {'obligation': oid, 'detail': detail}, REPLAY % dict(verif=common.VERIF, repo=common.REPO, data=data))
                run.ob(oid, FAILED, 'SMT-A', 'z3', secs, detail=detail, witness=rp, confirmed=True, func=qn)
            elif st == DISCHARGED:
                run.ob(oid, DISCHARGED, 'SMT-A', 'z3', secs, func=qn)
            else:
                run.ob(oid, st, 'SMT-A', 'pyvc' if oid.endswith(':generate') else 'z3', secs, detail=detail)
    # bounded twin on the real functions
    cnt = bad = 0
    VALS = [-4, -1, 1, 2, 4, 8]
    import random
    rng = random.Random(19)
    for op in ('dict_add', 'dict_sub', 'dict_mul'):
        for sa in SHAPES:
            for sb in SHAPES:
                for _ in range(6):
                    vals = {}
                    for pref, sh in (('a', sa), ('b', sb)):
                        for k in sh[0]: vals['%s_%s' % (pref, k)] = rng.choice(VALS)
                        for s in (sh[1] or ()): vals['%s_sym_%s' % (pref, s)] = rng.choice(VALS)
                    if _ == 0:      # cancelling coefficients
                        for k in list(vals):
                            if k.startswith('b_'): vals[k] = vals.get('a_' + k[2:], vals[k]) * (1 if op == 'dict_sub' else -1)
                    cnt += 1
                    msg = native(op, sa, sb, vals)
                    if msg:
                        bad += 1
                        oid = 'C19:%s[%s|%s]:twin' % (op, shape_txt(sa), shape_txt(sb))
                        rp = run.write_replay(oid, {'obligation': oid}, REPLAY % dict(verif=common.VERIF, repo=common.REPO, data={'op': op, 'sa': sa, 'sb': sb, 'vals': vals}))
                        run.ob(oid, FAILED, 'BND', 'cpython-enum', detail=msg, witness=rp, confirmed=True, func='%s:%s' % (P, op))
                        break
    run.bulk('term algebra on concrete coefficients (native twin)', cnt - bad, 'BND', 'cpython-enum', 0.0, BOUNDED_OK)
    return n

def shape_txt(sh):
    return ','.join(str(k) for k in sh[0]) + ('+symb(%s)' % ','.join(sh[1]) if sh[1] is not None else '')
