"""Generator of well-typed IR trees of bounded shape (shared by C05, C06, C13, C15, C16).

Trees are always built FRESH (no node shared between two trees or with a previous call): expr_simp
memoises on nodes (.simp) and eval_expr marks nodes (.is_eval); sharing would hide or create failures.
"""
import random, itertools

def _m():
    from miasmx.expression import expression as E
    from miasmx.tools import modint as M
    return E, M

WIDTHS = (1, 8, 16, 32, 64)
UINT = {1: 'uint1', 8: 'uint8', 16: 'uint16', 32: 'uint32', 64: 'uint64'}

def consts(w, small=False):
    if w == 1:
        return [0, 1]
    vs = [0, 1, 2, w - 1, w, (1 << (w - 1)) - 1, 1 << (w - 1), (1 << w) - 1]
    if small:
        vs = [0, 1, (1 << w) - 1, 1 << (w - 1)]
    if w >= 8 and not small:
        vs += [3, 7, 8, 0x10, 0x1f, 0x20, 0xf0 & ((1 << w) - 1), 0x55 & ((1 << w) - 1)]
    out = []
    for v in vs:
        v &= (1 << w) - 1
        if v not in out:
            out.append(v)
    return out

# A tree *description* is a nested tuple, so that trees can be rebuilt fresh, hashed, printed, pickled:
#   ('int', w, v) ('id', name, w) ('mem', addrdesc, w) ('op', opname, (args...)) ('slice', d, lo, hi)
#   ('compose', ((d, lo, hi), ...)) ('cond', c, a, b)
def build(d):
    E, M = _m()
    k = d[0]
    if k == 'int':
        return E.ExprInt(getattr(M, UINT[d[1]])(d[2]))
    if k == 'id':
        return E.ExprId(d[1], d[2])
    if k == 'mem':
        return E.ExprMem(build(d[1]), d[2])
    if k == 'op':
        return E.ExprOp(d[1], *[build(x) for x in d[2]])
    if k == 'slice':
        return E.ExprSlice(build(d[1]), d[2], d[3])
    if k == 'compose':
        return E.ExprCompose([(build(x), lo, hi) for (x, lo, hi) in d[1]])
    if k == 'cond':
        return E.ExprCond(build(d[1]), build(d[2]), build(d[3]))
    raise ValueError(d)

def build_shared(d, memo=None):
    """like build, but equal sub-descriptions share ONE node object (a DAG, as the lifter produces when
       it reuses an operand): exposes in-place mutation of argument nodes"""
    memo = {} if memo is None else memo
    if d in memo:
        return memo[d]
    E, M = _m()
    k = d[0]
    if k == 'int': r = E.ExprInt(getattr(M, UINT[d[1]])(d[2]))
    elif k == 'id': r = E.ExprId(d[1], d[2])
    elif k == 'mem': r = E.ExprMem(build_shared(d[1], memo), d[2])
    elif k == 'op': r = E.ExprOp(d[1], *[build_shared(x, memo) for x in d[2]])
    elif k == 'slice': r = E.ExprSlice(build_shared(d[1], memo), d[2], d[3])
    elif k == 'compose': r = E.ExprCompose([(build_shared(x, memo), lo, hi) for (x, lo, hi) in d[1]])
    elif k == 'cond': r = E.ExprCond(build_shared(d[1], memo), build_shared(d[2], memo), build_shared(d[3], memo))
    else: raise ValueError(d)
    memo[d] = r
    return r

def undesc(e):
    """description of a real expression object (structural read-back)"""
    n = e.__class__.__name__
    if n == 'ExprInt': return ('int', e.arg.size, int(e.arg) % (1 << e.arg.size))
    if n == 'ExprId': return ('id', e.name, e.size)
    if n == 'ExprMem': return ('mem', undesc(e.arg), e.size)
    if n == 'ExprOp': return ('op', e.op, tuple(undesc(a) for a in e.args))
    if n == 'ExprSlice': return ('slice', undesc(e.arg), e.start, e.stop)
    if n == 'ExprCompose': return ('compose', tuple((undesc(x[0]), x[1], x[2]) for x in e.args))
    if n == 'ExprCond': return ('cond', undesc(e.cond), undesc(e.src1), undesc(e.src2))
    raise ValueError(n)

def has_repeat(d, seen=None):
    """does the description contain the same non-leaf sub-description twice?"""
    seen = set() if seen is None else seen
    k = d[0]
    if k in ('int', 'id'):
        return False
    if d in seen:
        return True
    seen.add(d)
    if k == 'mem': subs = [d[1]]
    elif k == 'op': subs = list(d[2])
    elif k == 'slice': subs = [d[1]]
    elif k == 'compose': subs = [x[0] for x in d[1]]
    else: subs = [d[1], d[2], d[3]]
    return any(has_repeat(x, seen) for x in subs)

def dwidth(d):
    k = d[0]
    if k == 'int': return d[1]
    if k == 'id': return d[2]
    if k == 'mem': return d[2]
    if k == 'op':
        return dwidth(d[2][0])
    if k == 'slice': return d[3] - d[2]
    if k == 'compose': return max(x[2] for x in d[1]) - min(x[1] for x in d[1])
    if k == 'cond': return dwidth(d[2])

def dstr(d):
    k = d[0]
    if k == 'int': return '0x%X:%d' % (d[2], d[1])
    if k == 'id': return '%s' % d[1]
    if k == 'mem': return '@%d[%s]' % (d[2], dstr(d[1]))
    if k == 'op':
        if len(d[2]) == 1: return '(%s %s)' % (d[1], dstr(d[2][0]))
        return '(' + (' %s ' % d[1]).join(dstr(x) for x in d[2]) + ')'
    if k == 'slice': return '%s[%d:%d]' % (dstr(d[1]), d[2], d[3])
    if k == 'compose': return '{' + ','.join('%s,%d,%d' % (dstr(x), lo, hi) for (x, lo, hi) in d[1]) + '}'
    if k == 'cond': return '(%s?%s:%s)' % (dstr(d[1]), dstr(d[2]), dstr(d[3]))

def depth(d):
    k = d[0]
    if k in ('int', 'id'): return 0
    if k == 'mem': return 1 + depth(d[1])
    if k == 'op': return 1 + max(depth(x) for x in d[2])
    if k == 'slice': return 1 + depth(d[1])
    if k == 'compose': return 1 + max(depth(x[0]) for x in d[1])
    if k == 'cond': return 1 + max(depth(d[1]), depth(d[2]), depth(d[3]))

def ids(w):
    return [('id', 'a%d' % w, w), ('id', 'b%d' % w, w)]

def mems(w):
    if w < 8: return []
    return [('mem', ('id', 'p32', 32), w)]

def leaves(w, small=False, with_mem=True):
    out = ids(w) + (mems(w) if with_mem else [])
    out += [('int', w, v) for v in consts(w, small)]
    return out

ASSOC = ('+', '*', '^', '&', '|')
SHIFTS = ('<<', '>>', 'a>>')
ROTS = ('<<<', '>>>')

def ops_over(w, xs, ys=None, nary=True):
    """all one-level operator applications at width w over operand lists xs (and ys for the right side)"""
    ys = ys if ys is not None else xs
    for op in ASSOC + ('-',):
        for x in xs:
            for y in ys:
                yield ('op', op, (x, y))
    for x in xs:
        yield ('op', '-', (x,))
        yield ('op', 'parity', (x,))
    for op in SHIFTS + ROTS + ('==',):
        for x in xs:
            for y in ys:
                yield ('op', op, (x, y))

def structs_over(w, xs):
    """slices/composes/conds producing width w from operands (descriptions with their own widths)"""
    for x in xs:
        wx = dwidth(x)
        if wx > w and w in WIDTHS:
            for lo in sorted(set([0, wx - w, (wx - w) // 2 if ((wx - w) // 2) % 1 == 0 else 0, 1 if wx - w >= 1 else 0])):
                if 0 <= lo and lo + w <= wx:
                    yield ('slice', x, lo, lo + w)
    # full slice
    for x in xs:
        if dwidth(x) == w:
            yield ('slice', x, 0, w)

def compose_splits(w):
    out = []
    if w in (16, 32, 64):
        out.append((w // 2, w // 2))
    if w == 32:
        out.append((8, 8, 16))
        out.append((16, 8, 8))
    if w == 64:
        out.append((32, 16, 16))
    if w == 16:
        out.append((8, 8))
    if w == 8:
        pass
    return out

def depth1(w, small=False):
    L = leaves(w, small)
    for d in ops_over(w, L):
        yield d
    for d in L:
        yield d
    # slices of wider leaves
    for w2 in WIDTHS:
        if w2 > w:
            for x in leaves(w2, True):
                for lo in sorted(set([0, w2 - w, 8 if w2 - w >= 8 else 0])):
                    if lo + w <= w2:
                        yield ('slice', x, lo, lo + w)
    for x in L:
        yield ('slice', x, 0, w)
    for split in compose_splits(w):
        pools = [leaves(s, True) for s in split]
        for combo in itertools.product(*pools):
            pos = 0
            slots = []
            for s, x in zip(split, combo):
                slots.append((x, pos, pos + s))
                pos += s
            yield ('compose', tuple(slots))
    for c in leaves(w, True) + (leaves(1, True) if w != 1 else []):
        for a in leaves(w, True):
            for b in leaves(w, True):
                yield ('cond', c, a, b)

def templates(w):
    """rule-directed shapes: each rewrite rule of _expr_simp with symbolic and boundary operands"""
    a, b = ids(w)
    K = [('int', w, v) for v in consts(w)]
    out = []
    for k1 in K:
        for k2 in K:
            for op in ASSOC + SHIFTS:
                out.append(('op', op, (k1, k2)))
            for op in ASSOC:
                out.append(('op', op, (a, k1, k2)))
                out.append(('op', op, (k1, a, k2)))
            out.append(('op', '==', (k1, k2)))
            # ((A & mask) >> shift)
            out.append(('op', '>>', (('op', '&', (a, k1)), k2)))
            out.append(('op', '>>', (('op', '&', (k1, a)), k2)))
            # rotate merging
            for o1 in ROTS:
                for o2 in ROTS:
                    out.append(('op', o1, (('op', o2, (a, k1)), k2)))
            # (A|int) == 0
            out.append(('op', '==', (('op', '|', (a, k1)), k2)))
    for k1 in K:
        out.append(('op', '-', (k1,)))
        out.append(('op', 'parity', (k1,)))
        out.append(('op', '-', (('op', '-', (k1,)),)))
        for op in ('+', '-', '|', '^', '<<', '>>', '<<<', '>>>', '&', '*', 'a>>'):
            out.append(('op', op, (a, k1)))
            out.append(('op', op, (k1, a)))
        out.append(('cond', k1, a, b))
        out.append(('cond', ('op', '-', (a,)), b, k1))
    for op in ASSOC:
        out.append(('op', op, (a, a)))
        out.append(('op', op, (a, b, a)))
        out.append(('op', op, (('op', op, (a, b)), a)))
        out.append(('op', op, (a, ('op', op, (b, a)))))
    out.append(('op', '+', (a, ('op', '-', (a,)))))
    out.append(('op', '+', (('op', '-', (a,)), a)))
    out.append(('op', '+', (a, b, ('op', '-', (a,)))))
    out.append(('op', '-', (('op', '+', (a, b)),)))
    out.append(('op', '-', (('op', '-', (a,)),)))
    out.append(('op', '-', (a, b)))
    out.append(('op', '-', (a, a)))
    for o1 in ROTS:
        for o2 in ROTS:
            out.append(('op', o1, (('op', o2, (a, b)), b)))
            out.append(('op', o1, (('op', o2, (a, b)), a)))
    # slice rules
    for w2 in WIDTHS:
        if w2 > w:
            a2, b2 = ids(w2)
            for lo in sorted(set([0, w2 - w, 1 if w2 - w >= 1 else 0, 8 if w2 - w >= 8 else 0])):
                if lo + w > w2: continue
                out.append(('slice', a2, lo, lo + w))
                for v in consts(w2):
                    out.append(('slice', ('int', w2, v), lo, lo + w))
                for m in mems(w2):
                    out.append(('slice', m, lo, lo + w))
                # slice of slice
                for w3 in WIDTHS:
                    if w3 > w2:
                        a3 = ids(w3)[0]
                        for lo3 in (0, w3 - w2):
                            out.append(('slice', ('slice', a3, lo3, lo3 + w2), lo, lo + w))
                # slice of compose
                for split in compose_splits(w2):
                    pos = 0
                    slots = []
                    for i, s in enumerate(split):
                        slots.append((('id', 'c%d_%d' % (s, i), s), pos, pos + s))
                        pos += s
                    out.append(('slice', ('compose', tuple(slots)), lo, lo + w))
    # compose rules: merge of adjacent slices / ints
    for split in compose_splits(w):
        pos = 0
        sl, ints, mixed = [], [], []
        for i, s in enumerate(split):
            sl.append((('slice', a, pos, pos + s), pos, pos + s))
            ints.append((('int', s, consts(s)[-1 - (i % 2)]), pos, pos + s))
            mixed.append(((('slice', a, pos, pos + s)) if i % 2 == 0 else ('int', s, consts(s)[-1]), pos, pos + s))
            pos += s
        out.append(('compose', tuple(sl)))
        out.append(('compose', tuple(ints)))
        out.append(('compose', tuple(mixed)))
        out.append(('compose', tuple(reversed(sl))))
        # slices of a wider source, shifted
        for w2 in WIDTHS:
            if w2 > w:
                a2 = ids(w2)[0]
                pos = 0
                sl2 = []
                for s in split:
                    sl2.append((('slice', a2, pos + (w2 - w), pos + s + (w2 - w)), pos, pos + s))
                    pos += s
                out.append(('compose', tuple(sl2)))
    out.append(('compose', ((a, 0, w),)))
    # slices of one source that are adjacent in the result but NOT in the source (no merge may happen), and the same slice twice
    for w2 in WIDTHS:
        if w2 >= w and w >= 16:
            a2 = ids(w2)[0]
            h = w // 2
            if w2 >= w + h:
                out.append(('compose', ((('slice', a2, 0, h), 0, h), (('slice', a2, w, w + h), h, w))))
            out.append(('compose', ((('slice', a2, 0, h), 0, h), (('slice', a2, 0, h), h, w))))
            out.append(('compose', ((('slice', a2, h, w), 0, h), (('slice', a2, 0, h), h, w))))
            if w2 > w:
                out.append(('compose', ((('slice', a2, 0, h), 0, h), (('slice', a2, h + 1, w + 1), h, w))))
    # memory reads of every width whose address is rewritten by the simplifier
    if w >= 8:
        p, q = ('id', 'p32', 32), ('id', 'q32', 32)
        for ad in (('op', '+', (p, ('int', 32, 0))), ('op', '+', (p, ('int', 32, 4), ('int', 32, 4))), ('op', '+', (q, p, ('op', '-', (q,)))),
                   ('op', '^', (p, ('int', 32, 0))), ('slice', ('compose', ((p, 0, 32), (q, 32, 64))), 0, 32)):
            out.append(('mem', ad, w))
            out.append(('op', '+', (('mem', ad, w), a)))
    return out

def random_tree(rng, w, d, small=True):
    if d == 0 or rng.random() < 0.15:
        return rng.choice(leaves(w, small))
    r = rng.random()
    if r < 0.45:
        op = rng.choice(ASSOC)
        n = rng.choice((2, 2, 3, 4))
        return ('op', op, tuple(random_tree(rng, w, d - 1, small) for _ in range(n)))
    if r < 0.6:
        op = rng.choice(SHIFTS + ROTS + ('==', '-'))
        return ('op', op, (random_tree(rng, w, d - 1, small), random_tree(rng, w, d - 1, small)))
    if r < 0.68:
        return ('op', rng.choice(('-', 'parity')), (random_tree(rng, w, d - 1, small),))
    if r < 0.8:
        bigger = [x for x in WIDTHS if x > w]
        if bigger:
            w2 = rng.choice(bigger)
            lo = rng.choice(sorted(set([0, w2 - w, (w2 - w) // 2])))
            return ('slice', random_tree(rng, w2, d - 1, small), lo, lo + w)
        return ('slice', random_tree(rng, w, d - 1, small), 0, w)
    if r < 0.9:
        sp = compose_splits(w)
        if sp:
            split = rng.choice(sp)
            pos = 0
            slots = []
            for s in split:
                slots.append((random_tree(rng, s, d - 1, small), pos, pos + s))
                pos += s
            return ('compose', tuple(slots))
    cw = rng.choice((1, w))
    return ('cond', random_tree(rng, cw, d - 1, small), random_tree(rng, w, d - 1, small), random_tree(rng, w, d - 1, small))

def depth2(w, rng=None, limit=None):
    """two-level trees: every operator over (leaf | reduced depth-1 tree) operands"""
    a, b = ids(w)
    base = [a, b] + [('int', w, v) for v in consts(w, True)]
    inner = list(ops_over(w, base))
    # reduce inner by dropping const-const
    inner = [d for d in inner if not all(x[0] == 'int' for x in d[2])]
    operands = base + inner
    for d in ops_over(w, operands, base):
        if depth(d) == 2: yield d
    for d in ops_over(w, base, inner):
        if depth(d) == 2: yield d
