"""S-asm: abstract assembly lines (from the spec decoder's abstract instructions), printers for the Intel and AT&T spellings,
and the external function gnu_as (the real /usr/bin/as, executed, never modelled).  Used by C02, C03, C09, C19."""
import os, re, subprocess, tempfile, binascii, itertools

R32 = ['eax', 'ecx', 'edx', 'ebx', 'esp', 'ebp', 'esi', 'edi']
R16 = ['ax', 'cx', 'dx', 'bx', 'sp', 'bp', 'si', 'di']
R8 = ['al', 'cl', 'dl', 'bl', 'ah', 'ch', 'dh', 'bh']
SEG = ['es', 'cs', 'ss', 'ds', 'fs', 'gs']
PTR = {8: 'BYTE PTR', 16: 'WORD PTR', 32: 'DWORD PTR', 64: 'QWORD PTR', 80: 'TBYTE PTR'}

def regname(n, size):
    return {32: R32, 16: R16, 8: R8}[size][n]

class Unprintable(Exception):
    pass

STRING_OPS = set(a + b for a in ('movs', 'cmps', 'stos', 'lods', 'scas', 'ins', 'outs') for b in ('b', 'w', 'd'))
def is_string_op(m):
    return m in STRING_OPS

def intel_operand(o, opts=None):
    opts = opts or {}
    k = o[0]
    if k == 'reg': return regname(o[1], o[2])
    if k == 'sreg': return SEG[o[1]]
    if k == 'creg': return 'cr%d' % o[1]
    if k == 'dreg': return 'dr%d' % o[1]
    if k == 'st': return 'st(%d)' % o[1]
    if k == 'imm':
        v = o[1] & ((1 << o[2]) - 1)
        if opts.get('signed') and v >> (o[2] - 1): return str(v - (1 << o[2]))
        if opts.get('hex'): return '0x%X' % v
        return str(v)
    if k == 'mem':
        _, base, index, scale, disp, seg, size, adsize = o
        if adsize != 32: raise Unprintable('16-bit addressing')
        terms = []
        if base is not None: terms.append(R32[base])
        if index is not None: terms.append('%s*%d' % (R32[index], scale) if scale != 1 or opts.get('explicit_scale') else R32[index])
        d = disp & 0xffffffff
        sd = d - (1 << 32) if d >> 31 else d
        if opts.get('order') == 'split_disp' and terms:
            # the displacement written as two constant terms with the same sum: [base+(d+8)-8], also constant-first
            inner = '+'.join(terms) + '%+d-8' % (sd + 8) if not opts.get('lead') else '%d+%s-8' % (sd + 8, '+'.join(terms))
            if opts.get('lead') and sd + 8 < 0: raise Unprintable('negative leading displacement')
        elif opts.get('order') == 'scale_first' and index is not None and scale != 1:
            inner = '+'.join(([R32[base]] if base is not None else []) + ['%d*%s' % (scale, R32[index])]) + (('%+d' % sd) if sd else '')
        elif opts.get('order') == 'disp_middle' and len(terms) == 2 and sd:
            inner = '%s%+d+%s' % (terms[0], sd, terms[1])                   # [ebp-8+eax*4]
        elif opts.get('order') == 'disp_first' and terms and sd:
            inner = '%d+%s' % (sd, '+'.join(terms)) if sd > 0 else None
            if inner is None: raise Unprintable('negative leading displacement')
        elif opts.get('order') == 'index_first' and len(terms) == 2:
            inner = '+'.join(reversed(terms)) + (('%+d' % sd) if sd else '')
        else:
            if opts.get('hex') and terms and sd:
                inner = '+'.join(terms) + ('+0x%X' % sd if sd > 0 else '-0X%x' % -sd)
            else:
                inner = '+'.join(terms) + ((('%+d' % sd) if terms else str(d)) if (sd or not terms) else '')
        pre = (PTR[size] + ' ') if size in PTR else ''
        if opts.get('lower_ptr'): pre = pre.lower()
        sg = (SEG[seg] + ':') if seg is not None else ''
        if opts.get('disp_outside') and terms and sd:
            return '%s%s%d[%s]' % (pre, sg, sd, '+'.join(terms))          # 8[ebp] and -8[ebp]
        if not terms and seg is None:
            sg = 'ds:'          # an absolute numeric memory operand needs a segment in GNU Intel syntax
        return '%s%s[%s]' % (pre, sg, inner)
    raise Unprintable(k)

def render_intel(A, opts=None):
    """Intel spelling of an abstract instruction (spec decoder output); raises Unprintable for forms outside the generator"""
    opts = opts or {}
    m = A['mnem']
    ops = A['ops']
    if any(o[0] in ('rel', 'far') for o in ops): raise Unprintable('relative/far operand')
    if is_string_op(m):
        if A['seg'] is not None: raise Unprintable('string op with override')
        txt = m
    else:
        if m.startswith('f') and ops and all(o[0] == 'st' for o in ops):
            txt = '%s %s' % (m, ', '.join('st' if (o[1] == 0 and len(ops) == 2 and not opts.get('st0')) else 'st(%d)' % o[1] for o in ops))
        else:
            txt = m + (' ' + ', '.join(intel_operand(o, opts) for o in ops) if ops else '')
    if m in ('pusha', 'popa', 'pushf', 'popf', 'iret') and A['opsize'] == 16: raise Unprintable('16-bit form has no unambiguous spelling')
    if A.get('rep') and not is_string_op(m):
        if A['rep'] == 0xF3 and m == 'nop' and not ops: return 'pause'
        raise Unprintable('rep prefix on a non-string instruction')
    pre = []
    if A.get('lock'): pre.append('lock')
    if A.get('rep') == 0xF3: pre.append('repz' if m[:4] in ('cmps', 'scas') and is_string_op(m) else 'rep')
    if A.get('rep') == 0xF2: pre.append('repnz')
    return ' '.join(pre + [txt])

ATT_SUFFIX = {8: 'b', 16: 'w', 32: 'l', 64: 'q'}
def att_operand(o):
    k = o[0]
    if k == 'reg': return '%' + regname(o[1], o[2])
    if k == 'sreg': return '%' + SEG[o[1]]
    if k == 'creg': return '%%cr%d' % o[1]
    if k == 'dreg': return '%%dr%d' % o[1]
    if k == 'st': return '%%st(%d)' % o[1]
    if k == 'imm': return '$%d' % (o[1] & ((1 << o[2]) - 1))
    if k == 'mem':
        _, base, index, scale, disp, seg, size, adsize = o
        if adsize != 32: raise Unprintable('16-bit addressing')
        d = disp & 0xffffffff
        sd = d - (1 << 32) if d >> 31 else d
        s = ''
        if base is not None or index is not None:
            s = '(%s%s)' % ('%' + R32[base] if base is not None else '', (',%%%s,%d' % (R32[index], scale)) if index is not None else '')
            s = (str(sd) if sd else '') + s
        else:
            s = str(d)
        return ((('%' + SEG[seg] + ':') if seg is not None else '') + s)
    raise Unprintable(k)

def opsize_of(A):
    for o in A['ops']:
        if o[0] == 'reg': return o[2]
    for o in A['ops']:
        if o[0] == 'mem' and o[6]: return o[6]
    return A['opsize']

ATT_NAMES = {   # AT&T names of instructions whose Intel name differs (GNU as accepts both in AT&T mode)
    'cbw': 'cbtw', 'cwde': 'cwtl', 'cwd': 'cwtd', 'cdq': 'cltd',
    'pushad': 'pushal', 'popad': 'popal', 'pushfd': 'pushfl', 'popfd': 'popfl', 'pusha': 'pushal', 'popa': 'popal', 'pushf': 'pushfl', 'popf': 'popfl',
    'iretd': 'iret', 'retf': 'lret', 'callf': 'lcall', 'jmpf': 'ljmp',
}
NO_SUFFIX = ('in', 'out', 'cmpxchg8b', 'invlpg', 'lgdt', 'lidt', 'sgdt', 'sidt', 'bswap')

def render_att_variants(A):
    """the AT&T transliterations of A that GNU as accepts: with and without the operand-size suffix (when a register fixes the size), and the
       AT&T or the Intel mnemonic where the two differ.  First element: the conventional spelling."""
    m = A['mnem']
    ops = A['ops']
    if any(o[0] in ('rel', 'far') for o in ops): raise Unprintable('relative/far operand')
    if m.startswith('f') or m in ('movzx', 'movsx', 'enter', 'bound') or is_string_op(m):
        raise Unprintable('AT&T form not generated')
    if m in ('pusha', 'popa', 'pushf', 'popf', 'iret') and A['opsize'] == 16: raise Unprintable('16-bit form has no unambiguous spelling')
    if A.get('rep'):
        if A['rep'] == 0xF3 and m == 'nop' and not ops: return ['pause']
        raise Unprintable('rep prefix')
    suffix = ''
    sizes = [o[2] for o in ops if o[0] == 'reg'] + [o[6] for o in ops if o[0] == 'mem' and o[6]]
    shifts = ('shl', 'shr', 'sar', 'sal', 'rol', 'ror', 'rcl', 'rcr', 'shld', 'shrd')
    indirect = m in ('call', 'jmp') and ops and ops[0][0] in ('mem', 'reg')
    if indirect:
        suffix = ATT_SUFFIX.get(opsize_of(A), '')
    elif sizes and m not in NO_SUFFIX and not m.startswith('set') and not m.startswith('j'):
        sz = sizes[0] if m not in shifts else ([o[2] for o in ops[:1] if o[0] == 'reg'] + [o[6] for o in ops[:1] if o[0] == 'mem'])[0]
        if m in ('lar', 'lsl', 'lds', 'les', 'lfs', 'lgs', 'lss', 'lea'): sz = [o[2] for o in ops if o[0] == 'reg'][0]
        if sz in ATT_SUFFIX: suffix = ATT_SUFFIX[sz]
    # the suffix may be left out when a general register operand fixes the size (always for 32-bit indirect branches)
    optional = (any(o[0] == 'reg' and o[2] in (8, 16, 32) for o in ops) and not (m in shifts and ops[0][0] != 'reg')) or (indirect and suffix == 'l') or not suffix
    pre = []
    if A.get('lock'): pre.append('lock')
    star = '*' if indirect else ''
    tail = ((' ' + star + ', '.join(att_operand(o) for o in reversed(ops))) if ops else '')
    names = [m + suffix]
    if optional and suffix: names.append(m)
    if m in ATT_NAMES: names = [ATT_NAMES[m]] + names
    out = []
    for n in names:
        t = ' '.join(pre + [n + tail])
        if t not in out: out.append(t)
    return out

def render_att(A):
    return render_att_variants(A)[0]

# ------------------------------------------------------------------------------------------------ abstract keys / comparison
def canon(A):
    """abstract identity of an instruction: mnemonic class + operands (values modulo their width), independent of the encoding chosen"""
    from checks.C01 import canon_mnem
    ops = []
    for o in A['ops']:
        if o[0] == 'mem':
            _, base, index, scale, disp, seg, size, adsize = o
            coef = {}
            if base is not None: coef[base] = coef.get(base, 0) + 1
            if index is not None: coef[index] = coef.get(index, 0) + scale
            # ds is the default segment (ss for esp/ebp-based addresses): an explicit default override denotes the same location
            dflt = 2 if (base in (4, 5)) else 3
            ops.append(('mem', tuple(sorted(coef.items())), disp & 0xffffffff, None if seg in (None, dflt) else seg, size))
        elif o[0] == 'imm':
            ops.append(('imm', o[1] & ((1 << o[2]) - 1), o[2]))
        else:
            ops.append(tuple(o))
    m = canon_mnem(A['mnem'])
    if m == 'xchg' and len(ops) == 2 and ops[0] == ops[1] and ops[0][0] == 'reg' and ops[0][1] == 0 and ops[0][2] in (16, 32):
        m, ops = 'nop', []          # 90 / 66 90: xchg (e)ax, (e)ax is nop
    if m == 'nop' and A.get('rep') == 0xF3 and not ops:
        return ('pause', (), False, None)
    return (m, tuple(ops), bool(A.get('lock')), A.get('rep'))

def _segs(A):
    """per memory operand: (override written?, segment the access goes through)"""
    out = []
    for o in A['ops']:
        if o[0] == 'mem':
            dflt = 2 if (o[1] in (4, 5)) else 3
            out.append((o[5] is not None, dflt if o[5] is None else o[5]))
    return out

def same_instruction(A, B):
    """A (requested) vs B (decoded candidate): same mnemonic and operands; an immediate may be stored in a narrower sign-extended form"""
    a, b = canon(A), canon(B)
    if a[0] != b[0] or a[2:] != b[2:] or len(a[1]) != len(b[1]): return False
    for x, y in zip(a[1], b[1]):
        if x[0] != y[0]: return False
        if x[0] == 'imm':
            w = max(x[2], y[2])
            def sx(v, n): return v - (1 << n) if v >> (n - 1) else v
            if x[1] != y[1] and (sx(x[1], x[2]) % (1 << w)) != (sx(y[1], y[2]) % (1 << w)) and x[1] != y[1] % (1 << x[2]): return False
        elif x[0] == 'mem':
            if x[1:3] != y[1:3]: return False
            if x[4] is not None and y[4] is not None and x[4] != y[4]: return False
        elif x != y: return False
    # segments: where an override is written on either side, both must go through the same segment (the same registers can have another
    # default as base than as index); two forms without override are not compared on their defaults (flat model, see DESIGN)
    for (ea, sa), (eb, sb) in zip(_segs(A), _segs(B)):
        if (ea or eb) and sa != sb: return False
    return True

# ------------------------------------------------------------------------------------------------ corpus
def corpus(tier, seed, want=None, shard=None):
    """abstract instructions = spec decodings of the structural byte enumeration (spec domain, no superfluous prefix), one per abstract key;
       yields (bytes, A)"""
    from bounded import x86enum
    from specs import x86dec
    from checks import C01
    x86enum.quiet()
    seen = set()
    L = x86enum.leaves()
    prefixes = [(), (0x66,), (0x64,), (0xF0,), (0xF3,)]
    if shard is not None:
        L = L[shard[0]::shard[1]]
    # every segment override (the bulk of the corpus only carries fs): on a handful of opcodes with a memory operand
    SEG_PATHS = set([(0x8b,), (0x89,), (0xa1,), (0xa3,), (0x01,), (0x80, 0), (0xff, 6)])       # (not lea: a segment prefix means nothing there)
    SEG_PREFIXES = [(0x36,), (0x26,), (0x2e,), (0x3e,), (0x65,)]
    def stream():
        for path, m in L:
            if m.modifs.get('mmx') or '#' in m.name: continue
            for bs in x86enum.candidates(path, full_sib=(tier == 'thorough'), pads=2, prefixes=prefixes, m=m, smart=True):
                yield bs
            if tuple(path) in SEG_PATHS or tuple(path[:1]) in SEG_PATHS:
                for bs in x86enum.candidates(path, full_sib=False, pads=1, prefixes=SEG_PREFIXES, m=m, smart=True):
                    yield bs
    for bs in stream():
        if True:
            A = x86dec.decode(bs)
            if A is None or not C01.meaningful_prefixes(A, bs): continue
            # a ds override on an operand whose default segment is ds is superfluous (outside the domain, like every superfluous prefix)
            if 0x3e in A['prefixes'] and not any(o[0] == 'mem' and o[1] in (4, 5) for o in A['ops']): continue
            b = bytes(bs[:A['length']])
            k = canon(A)
            # reduce: one representative per (mnemonic, operand kinds/sizes, register classes)
            thorough = (tier == 'thorough')
            rk = (k[0], tuple((o[0], o[1] if o[0] == 'reg' and (thorough or o[1] in (0, 1, 4)) else None, o[-1] if o[0] in ('reg', 'mem', 'imm') else None,
                               ((o[1] if thorough else tuple(sorted(c for _, c in o[1]))), bool(o[2]), o[3]) if o[0] == 'mem' else None) for o in k[1]), k[2], k[3], tuple(A['prefixes']))
            if rk in seen: continue
            seen.add(rk)
            yield b, A

IMM_BOUNDARY = [-129, -128, -1, 0, 1, 127, 128, 255, 256, 32767, 32768, 65535, 2 ** 31 - 1, 2 ** 31, 2 ** 32 - 1]

# ------------------------------------------------------------------------------------------------ GNU as (external, executed)
def gnu_as(lines, syntax='intel'):
    """assemble each line separately-addressable in ONE invocation of /usr/bin/as --32; returns list of bytes or None (rejected) per line"""
    if not lines: return []
    tmp = tempfile.mkdtemp(prefix='gas_')
    src = os.path.join(tmp, 'in.s')
    with open(src, 'w') as f:
        f.write('.intel_syntax noprefix\n' if syntax == 'intel' else '.att_syntax\n')
        for l in lines:
            f.write(l.replace('\n', ' ') + '\n')
    try:
        p = subprocess.run(['as', '--32', '-Z', '-al', '--listing-lhs-width=8', '--listing-cont-lines=4', '-o', os.path.join(tmp, 'out.o'), src], capture_output=True, text=True, timeout=600)
    finally:
        pass
    out = [b''] * len(lines)
    bad = set()
    for m in re.finditer(r'in\.s:(\d+): (Error|Fatal)', p.stderr):
        bad.add(int(m.group(1)) - 2)
    for row in p.stdout.split('\n'):
        m = re.match(r'^\s*(\d+)\s+([0-9a-f]{4,8}|\?{4})\s+((?:[0-9A-F]{2,}\s?)+)', row)
        if m:
            ln = int(m.group(1)) - 2
            if 0 <= ln < len(lines):
                out[ln] += binascii.unhexlify(m.group(3).replace(' ', ''))
            continue
        m = re.match(r'^\s*(\d+)\s{6,}((?:[0-9A-F]{2,}\s?)+)\s*$', row)
        if m:
            ln = int(m.group(1)) - 2
            if 0 <= ln < len(lines):
                out[ln] += binascii.unhexlify(m.group(2).replace(' ', ''))
    import shutil
    shutil.rmtree(tmp, ignore_errors=True)
    lost = [i for i in range(len(lines)) if not out[i] and i not in bad and lines[i].strip() and not lines[i].startswith('.')]
    if lost:
        # neither bytes nor an error message: the listing was not understood -- a defect of this checker, never a verdict on the code
        raise RuntimeError('GNU as listing not understood for line %d %r' % (lost[0], lines[lost[0]]))
    return [None if (i in bad or not out[i]) else out[i] for i in range(len(lines))]
