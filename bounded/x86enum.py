"""Structural enumeration of the x86 decoder's input space: every trie leaf (opcode byte path) x prefix class x
next byte (ModRM or first immediate byte) x SIB grid, padded with data bytes; everything that selects a path in
_dis is enumerated, data bytes are drawn from a boundary set."""
import itertools, logging

def quiet():
    """the decoder logs at ERROR level on its normal fallback path; silence the repo's loggers (output only)"""
    for n in ("x86escape", "emu.helper", "expr_eval_int", "asmbloc", "parse_ad"):
        logging.getLogger(n).setLevel(logging.CRITICAL)
    logging.disable(logging.ERROR)

def leaves():
    """all opcode byte paths of x86mndb.db_mnemo ending in a mnemonic object: [(path tuple, mnemonic)]"""
    from miasmx.arch.ia32_arch import x86mndb, mnemonic
    out = []
    def rec(tab, path):
        for i, x in enumerate(tab):
            if x is None: continue
            if isinstance(x, mnemonic): out.append((path + (i,), x))
            elif type(x) == list: rec(x, path + (i,))
    rec(x86mndb.db_mnemo, ())
    return out

PREFIX_SETS = [(), (0x66,), (0x67,), (0x66, 0x67), (0xF3,), (0xF2,), (0x64,), (0x2E,), (0xF0,), (0x66, 0x64)]
PAD_SETS = [bytes([0x00] * 12), bytes([0x7F, 0x80, 0xFF, 0x01, 0x00, 0x80, 0xFF, 0x7F, 1, 2, 3, 4]), bytes([0xFF] * 12), bytes([0x80, 0, 0, 0x80] * 3)]

def sib_grid(full=False):
    if full:
        return list(range(256))
    out = []
    for ss in range(4):
        for idx in (0, 3, 4, 5, 7):
            for base in (0, 4, 5, 6):
                out.append((ss << 6) | (idx << 3) | base)
    return out

DATA_BYTES = (0x00, 0x01, 0x7F, 0x80, 0xFF)

def next_bytes(m, path):
    """which values of the byte after the opcode path select different decoder paths (pruning only: the
       thorough tier tries all 256)"""
    from miasmx.arch import ia32_arch as A
    if m.afs in (A.d0, A.d1, A.d2, A.d3, A.d4, A.d5, A.d6, A.d7):
        return None      # the path already ends with the ModRM byte
    if A.rmr in m.rm:
        return range(256)
    return DATA_BYTES

def candidates(path, full_sib=False, pads=1, prefixes=PREFIX_SETS, m=None, smart=False):
    """byte strings to try for one opcode path"""
    nbs = range(256)
    if smart and m is not None:
        nbs = next_bytes(m, path)
    for pre in prefixes:
        head = bytes(pre) + bytes(path)
        if nbs is None:
            # ModRM is the last byte of the path
            mb = path[-1]
            mod, rm = mb >> 6, mb & 7
            if mod != 3 and rm == 4:
                for sib in sib_grid(full_sib):
                    for pad in PAD_SETS[:pads]:
                        yield head + bytes([sib]) + pad
            else:
                for pad in PAD_SETS[:max(pads, 2)]:
                    yield head + pad
            continue
        for nb in nbs:
            mod, rm = nb >> 6, nb & 7
            for pad in PAD_SETS[:pads]:
                yield head + bytes([nb]) + pad
            if mod != 3 and rm == 4:
                for sib in sib_grid(full_sib):
                    yield head + bytes([nb, sib]) + PAD_SETS[0]
                    if pads > 1:
                        yield head + bytes([nb, sib]) + PAD_SETS[1]

def decode_all(paths, full_sib=False, pads=1, prefixes=PREFIX_SETS, smart=False):
    """decode every candidate; yields (consumed bytes, instruction object) deduplicated by consumed bytes"""
    from miasmx.arch.ia32_arch import x86mnemo
    quiet()
    seen = set()
    for path, m in paths:
        for bs in candidates(path, full_sib, pads, prefixes, m, smart):
            try:
                ins = x86mnemo.dis(bs)
            except Exception as ex:
                yield bs, ex
                continue
            if ins is None:
                continue
            if ins.b in seen:
                continue
            seen.add(ins.b)
            yield ins.b, ins

def arg_shape(a):
    """structural class of one decoded operand dictionary"""
    from miasmx.arch.ia32_reg import x86_afs
    regs = tuple(sorted((k, v) for k, v in a.items() if type(k) == int))
    kind = 'mem' if a.get(x86_afs.ad) else ('imm' if (x86_afs.imm in a or x86_afs.symb in a) else 'reg')
    imm = None
    if x86_afs.imm in a:
        imm = getattr(a[x86_afs.imm], 'size', 'int')
    return (kind, str(a.get(x86_afs.size)), str(a.get(x86_afs.ad)), regs, imm, a.get(x86_afs.segm))

def shape_key(ins, regnums=True):
    args = tuple(arg_shape(a) for a in ins.arg)
    if not regnums:
        args = tuple((k, s, ad, tuple(v for (r, v) in regs), imm, sg is not None) for (k, s, ad, regs, imm, sg) in args)
    return (ins.m.name, str(ins.opmode), str(ins.admode), tuple(ins.prefix), args)

def mid_key(ins):
    """operand identity kept for register operands, memory operands reduced to their structure"""
    from miasmx.arch.ia32_reg import x86_afs
    out = []
    for a in ins.arg:
        k, s, ad, regs, imm, sg = arg_shape(a)
        if k == 'mem':
            regs = tuple(sorted(v for (r, v) in regs))
        out.append((k, s, ad, regs, imm, sg is not None))
    return (ins.m.name, str(ins.opmode), str(ins.admode), tuple(p for p in ins.prefix), tuple(out))

def instances(paths, key=mid_key, full_sib=False, pads=1, prefixes=PREFIX_SETS, smart=False):
    """one decoded instruction per key"""
    seen = {}
    for b, ins in decode_all(paths, full_sib, pads, prefixes, smart):
        if isinstance(ins, Exception):
            yield b, ins
            continue
        k = key(ins)
        if k in seen:
            continue
        seen[k] = b
        yield b, ins
