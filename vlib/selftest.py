"""./vcheck selftest -- soundness guard of Engine A (pyvc) on deliberately broken bodies.

For every helper proved by VC generation, a scratch copy of /repo (under $TMPDIR outside /repo and /verif, removed afterwards) gets ONE
deliberate break that violates the contract while the code still runs; the proof driver of the owning check is run against the copy
(VERIF_REPO) in a sub-process and must report the named obligation as failed with a natively replayed counterexample.  The unbroken copy
must verify.  A break that is NOT detected means the generator or an encoding is unsound: exit 3.  Not registered in MANIFEST.json
(it decides no property); run it after touching pyvc/, specs/duck.py or contracts/.
"""
import sys, os, subprocess, shutil, tempfile, json

BREAKS = [
    # (label, file, old text, new text, driver module:function, substring that must occur in a FAILED obligation id)
    ('check_imm_size: s08 range off by one', 'miasmx/arch/ia32_arch.py', 'elif size == s08 and -0x80 <= j < 0x80:', 'elif size == s08 and -0x80 <= j <= 0x80:', 'checks.C02smt', 'check_imm_size[s08,int]:post'),
    ('check_imm_size: u16 accepts negatives', 'miasmx/arch/ia32_arch.py', 'elif size == u16 and 0 <= i < 0x10000:', 'elif size == u16 and -1 <= i < 0x10000:', 'checks.C02smt', 'check_imm_size[u16,int]:post'),
    ('ad_to_generic: s08 form offered for 128', 'miasmx/arch/ia32_arch.py', '        if -128 <= j < 128:\n            to_add.append({x86_afs.imm:x86_afs.s08})\n        if 0 <= i <= 0xFF:', '        if -128 <= j <= 128:\n            to_add.append({x86_afs.imm:x86_afs.s08})\n        if 0 <= i <= 0xFF:', 'checks.C02smt', 'ad_to_generic['),
    ('rest_slice: gap start taken from the wrong bound', 'miasmx/expression/expression_eval_abstract.py', '            o.append((last, a))\n            last = b', '            o.append((last, a))\n            last = a', 'checks.C07smt', 'rest_slice['),
    ('dict_sub: operands swapped', 'miasmx/core/parse_ad.py', '            tmp[k] -= b[k]', '            tmp[k] = b[k] - tmp[k]', 'checks.C19smt', 'dict_sub['),
    ('dict_add: zero coefficient kept', 'miasmx/core/parse_ad.py', '        if tmp[k]==0:\n            del(tmp[k])', '        if tmp[k]==1:\n            del(tmp[k])', 'checks.C19smt', 'dict_add['),
    ('dict_mul: coefficient of the other operand dropped', 'miasmx/core/parse_ad.py', '                ret[k] = b[x86_afs.imm]*a[k]', '                ret[k] = b[x86_afs.imm]+a[k]', 'checks.C19smt', 'dict_mul['),
    ('eval_op_mullo: product replaced by sum', 'miasmx/expression/expression_eval_abstract.py', '        ret_value =  (a*b) & mymaxuint[op_size]', '        ret_value =  (a+b) & mymaxuint[op_size]', 'checks.C06smt', 'eval_op_mullo['),
    ('eval_op_minus: operands swapped', 'miasmx/expression/expression_eval_abstract.py', '            ret_value = args[0] - args[1]', '            ret_value = args[1] - args[0]', 'checks.C06smt', 'eval_op_minus['),
    ('_div_operands: unsigned quotient bound off by one', 'miasmx/expression/expression_eval_abstract.py', '            if q > mask:', '            if q >= mask:', 'checks.C06smt', 'eval_op_div['),
    ('_div_operands: signed quotient sign from the dividend only', 'miasmx/expression/expression_eval_abstract.py', '            if (big < 0) != (c < 0):\n                q = -q', '            if big < 0:\n                q = -q', 'checks.C06smt', 'eval_op_idiv['),
    ('eval_op_imul08: sign bit of al subtracted with the wrong weight', 'miasmx/expression/expression_eval_abstract.py', '        if a >> 7: a -= 0x100', '        if a >> 7: a -= 0x80', 'checks.C06smt', 'eval_op_imul08['),
    ('eval_op_imulhi: second operand not sign-converted', 'miasmx/expression/expression_eval_abstract.py', '        if b >> (op_size-1): b -= 1 << op_size\n        return ((a*b) >> op_size)', '        return ((a*b) >> op_size)', 'checks.C06smt', 'eval_op_imulhi['),
    ('eval_op_rshift: count masked to 5 bits', 'miasmx/expression/expression_eval_abstract.py', '        ret_value = ((args[0]&mymaxuint[op_size])>>r)\n        return ret_value', '        ret_value = ((args[0]&mymaxuint[op_size])>>(r&0x1F))\n        return ret_value', 'checks.C06smt', 'eval_op_rshift['),
    ('eval_op_lshift: operand not reduced, count masked', 'miasmx/expression/expression_eval_abstract.py', '        r = args[1]#&0x1F\n        if int(r) >= op_size:', '        r = args[1]&0x1F\n        if int(r) >= op_size:', 'checks.C06smt', 'eval_op_lshift['),
    ('eval_op_arshift: sign bit never taken', 'miasmx/expression/expression_eval_abstract.py', '        if v >> (op_size-1):\n            v -= 1 << op_size\n        ret_value = v >> int(r)', '        if v >> op_size:\n            v -= 1 << op_size\n        ret_value = v >> int(r)', 'checks.C06smt', 'eval_op_arshift['),
    ('eval_op_rotl: low half shifted one position short', 'miasmx/expression/expression_eval_abstract.py', '((args[0] & mymaxuint[op_size]) >> (op_size-r))\n', '((args[0] & mymaxuint[op_size]) >> (op_size-r-1))\n', 'checks.C06smt', 'eval_op_rotl['),
    ('eval_op_rotr: high half shifted one position too far', 'miasmx/expression/expression_eval_abstract.py', '((args[0] << (op_size-r)) & mymaxuint[op_size])\n', '((args[0] << (op_size-r+1)) & mymaxuint[op_size])\n', 'checks.C06smt', 'eval_op_rotr['),
    ('eval_op_inf: <= instead of <', 'miasmx/expression/expression_eval_abstract.py', '        ret_value =  [0, 1][int(args[0] < args[1])]', '        ret_value =  [0, 1][int(args[0] <= args[1])]', 'checks.C06smt', 'eval_op_inf['),
    ('ExprMem.__eq__ ignores the segment', 'miasmx/expression/expression.py', 'return self.arg == a.arg and self.size == a.size and self.segm == a.segm', 'return self.arg == a.arg and self.size == a.size', 'checks.C15smt', 'ind:ExprMem.__eq__['),
    ('ExprMem.visit forgets the segment child', 'miasmx/expression/expression.py', '            segm = self.segm.visit(cb)\n', '            segm = self.segm\n', 'checks.C15smt', 'ind:ExprMem.visit['),
    ('ExprId.__hash__ uses a field that == ignores', 'miasmx/expression/expression.py', '        return hash(self.name)\n', '        return hash(self.name)^hash(self.is_term)\n', 'checks.C15smt', 'ind:ExprId.__hash__['),
    ('ExprCond.copy shares a child', 'miasmx/expression/expression.py', '                        self.src2.copy())', '                        self.src2)', 'checks.C15smt', 'ind:ExprCond.copy['),
    ('visit_chk drops the callback result', 'miasmx/expression/expression.py', '        return e_new2\n', '        return e_new\n', 'checks.C15smt', 'ind:visit_chk.wrapped'),
    ('ExprCond.get_r forgets the condition', 'miasmx/expression/expression.py', 'out=self.cond.get_r(mem_read).union(self.src1.get_r(mem_read))', 'out=set().union(self.src1.get_r(mem_read))', 'checks.C16smt', 'ind:ExprCond.get_r['),
    ('ExprMem.get_r asks the segment without memory reads', 'miasmx/expression/expression.py', 'r = r.union(self.segm.get_r(mem_read))', 'r = r.union(self.segm.get_r(False))', 'checks.C16smt', 'ind:ExprMem.get_r['),
    ('ExprAff.get_w names the source', 'miasmx/expression/expression.py', '            return self.dst.get_w()\n', '            return self.src.get_w()\n', 'checks.C16smt', 'ind:ExprAff.get_w['),
    ('key_expr ignores the end of a slice', 'miasmx/expression/expression.py', 'return [ 5, key_expr(e.arg), e.start, e.stop ]', 'return [ 5, key_expr(e.arg), e.start ]', 'checks.C13smt', 'ind:key_expr[ExprSlice'),
    ('key_expr ignores the segment of a cell', 'miasmx/expression/expression.py', 'return [ 3, key_expr(e.arg), e.size, key_expr(e.segm) ]', 'return [ 3, key_expr(e.arg), e.size ]', 'checks.C13smt', 'ind:key_expr[ExprMem'),
    ('MatchExpr forgets the second arm of a conditional', 'miasmx/expression/expression.py', '        r = MatchExpr(e.src2, m.src2, tks, result)\n        if r is False: return False\n', '', 'checks.C16smt', 'ind:MatchExpr[ExprCond'),
    ('MatchExpr ignores the segment of a cell', 'miasmx/expression/expression.py', '        if e.size != m.size or e.segm != m.segm:', '        if e.size != m.size:', 'checks.C16smt', 'ind:MatchExpr[ExprMem'),
    ('substract_mems: surviving head one byte too long', 'miasmx/expression/expression_eval_abstract.py', '                val = self.pool[a][0:ptr_diff*8]\n', '                val = self.pool[a][0:ptr_diff*8+8]\n', 'checks.C07smt', 'substract_mems['),
    ('substract_mems: surviving tail addressed from the wrong cell', 'miasmx/expression/expression_eval_abstract.py', "                ex = ExprOp('+', b.arg, ExprInt(uint32(b.size/8)))", "                ex = ExprOp('+', a.arg, ExprInt(uint32(b.size/8)))", 'checks.C07smt', 'substract_mems['),
    ('slice_rest: last bit of the register lost', 'miasmx/expression/expression.py', '    if stop < size:\n        rest.append((stop, size))', '    if stop < size - 1:\n        rest.append((stop, size))', 'checks.C11smt', 'slice_rest:post'),
    ('ExprAff: parts of the rewritten source not in bit order', 'miasmx/expression/expression.py', 'all_a = sorted([(src, dst.start, dst.stop)] + rest, key=lambda x:x[1])', 'all_a = [(src, dst.start, dst.stop)] + rest', 'checks.C11smt', 'ExprAff.__init__[slice destination]'),
]

DRIVER = r'''
import sys, json
from vlib import common
common.use_repo()
import importlib
mod = importlib.import_module(sys.argv[1])
obs = []
class R(object):
    notes = []; extra = {}
    def function(self, *a, **k): pass
    def ob(self, oid, st, mode, be, secs=0.0, **kw): obs.append((oid, st, bool(kw.get('confirmed')), (kw.get('detail') or '')[:200]))
    def bulk(self, *a, **k): pass
    def write_replay(self, *a, **k): return ''
    def trust(self, *a): pass
    def assume(self, *a): pass
r = R()
mod.ob_smt(r)
if hasattr(mod, 'ob_ad'): mod.ob_ad(r)
if hasattr(mod, 'ob_match'): mod.ob_match(r)
if hasattr(mod, 'ob_sub'): mod.ob_sub(r)
print(json.dumps(obs))
'''

def run_driver(module, repo):
    env = dict(os.environ)
    env['VERIF_REPO'] = repo
    env['PYTHONPATH'] = '/verif:' + repo
    env['PYTHONHASHSEED'] = '0'
    p = subprocess.run([sys.executable, '-B', '-c', DRIVER, module], capture_output=True, text=True, timeout=1800, env=env, cwd='/verif')
    if p.returncode != 0:
        raise RuntimeError('driver %s failed: %s' % (module, (p.stderr or p.stdout)[-600:]))
    return json.loads(p.stdout.strip().split('\n')[-1])

def main(argv):
    base = tempfile.mkdtemp(prefix='vselftest_', dir=os.environ.get('SELFTEST_TMP', '/tmp'))
    bad = 0
    try:
        clean = os.path.join(base, 'clean')
        subprocess.run(['git', 'clone', '-q', '/repo', clean], check=True)
        # the working tree of /repo, not only its HEAD
        subprocess.run('git -C /repo diff | git -C %s apply --allow-empty 2>/dev/null || true' % clean, shell=True)
        ok_cache = {}
        sel = [b for b in BREAKS if not argv or any(a in b[0] or a in b[4] for a in argv)]
        for (label, rel, old, new, module, want) in sel:
            if module not in ok_cache:
                obs = run_driver(module, clean)
                failed = [o for o in obs if o[1] == 'failed']
                ok_cache[module] = (len(obs), failed)
                print('%-16s unbroken copy: %d obligations, %d failed' % (module, len(obs), len(failed)))
                if failed or not obs:
                    print('SELFTEST-DEFECT: %s does not verify on the unbroken copy: %s' % (module, failed[:2])); bad += 1
            brk = os.path.join(base, 'broken')
            shutil.rmtree(brk, ignore_errors=True)
            shutil.copytree(clean, brk, ignore=shutil.ignore_patterns('.git'))
            path = os.path.join(brk, rel)
            src = open(path).read()
            if src.count(old) != 1:
                print('SELFTEST-SKIP: %s: the text to break occurs %d times in %s (the code changed; update vlib/selftest.py)' % (label, src.count(old), rel)); continue
            open(path, 'w').write(src.replace(old, new))
            obs = run_driver(module, brk)
            hits = [o for o in obs if o[1] == 'failed' and want in o[0]]
            conf = [o for o in hits if o[2]]
            if hits and conf:
                print('caught  %-55s %d obligations fail, e.g. %s' % (label, len(hits), conf[0][0]))
            else:
                print('SELFTEST-DEFECT: break not detected: %s (expected a failed %s with a replayed counterexample; got %s)' % (label, want, [o for o in obs if o[1] != 'discharged'][:3])); bad += 1
    finally:
        shutil.rmtree(base, ignore_errors=True)
    print('selftest: %d breaks, %d engine defects' % (len(BREAKS), bad))
    return 3 if bad else 0

if __name__ == '__main__':
    sys.exit(main(sys.argv[1:]))
