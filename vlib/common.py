"""Shared driver pieces: obligation bookkeeping, verdicts, evidence, known findings, replay files.

Exit codes (DESIGN 2.7): 0 held / 1 violation / 2 undecided / 3 checker defect.
"""
import os, sys, json, time, fnmatch, hashlib, tempfile, shutil, atexit, subprocess, textwrap

VERIF = os.path.dirname(os.path.dirname(os.path.abspath(__file__)))
REPO = os.environ.get('VERIF_REPO', '/repo')
# evidence/ and replay/ are written below OUT: /verif itself unless a mutation run redirects them (tools/mutants.py, vcheck selftest)
OUT = os.environ.get('VERIF_OUT', VERIF)
VENV_PY = '/venv/bin/python'
VT_PY = shutil.which('python3-vt') or '/usr/local/bin/python3-vt'

# ---------------------------------------------------------------------------------------
# private TMPDIR (PLY table cache isolation); removed at exit
_tmp = None
def private_tmp():
    global _tmp
    if _tmp is None:
        base = os.path.join(VERIF, '.tmp')
        os.makedirs(base, exist_ok=True)
        _tmp = tempfile.mkdtemp(prefix='vc_', dir=base)
        os.environ['TMPDIR'] = _tmp
        tempfile.tempdir = _tmp
        atexit.register(lambda: shutil.rmtree(_tmp, ignore_errors=True))
    return _tmp

def use_repo():
    """make /repo importable in this interpreter (pure Python repo, bundled PLY)"""
    private_tmp()
    sys.dont_write_bytecode = True
    if REPO not in sys.path:
        sys.path.insert(0, REPO)

def sha(text):
    return hashlib.sha256(text.encode()).hexdigest()[:16]

# ---------------------------------------------------------------------------------------
def load_known_findings():
    """known_findings.jsonl: records
       {"id":..., "property":"Cxx", "obligations":[exact ids or fnmatch patterns flagged "pattern":true], "what":...}
       or {"fixed": "property=Cxx <commit> <what failed>"}  (suppresses nothing)"""
    path = os.path.join(VERIF, 'known_findings.jsonl')
    out = []
    if os.path.exists(path):
        for line in open(path):
            line = line.strip()
            if not line or line.startswith('#'):
                continue
            rec = json.loads(line)
            if 'fixed' in rec:
                continue
            out.append(rec)
    return out

import re as _re
_globcache = {}
def _glob(pat, s):
    """only '*' is special (obligation ids contain [ ] ? literally)"""
    rx = _globcache.get(pat)
    if rx is None:
        rx = _globcache[pat] = _re.compile('^' + '.*'.join(_re.escape(x) for x in pat.split('*')) + '$', _re.S)
    return rx.match(s) is not None

class Ob(object):
    __slots__ = ('oid', 'status', 'mode', 'backend', 'secs', 'detail', 'witness', 'confirmed', 'func')
    def __init__(self, oid, status, mode, backend, secs=0.0, detail=None, witness=None, confirmed=None, func=None):
        self.oid, self.status, self.mode, self.backend = oid, status, mode, backend
        self.secs, self.detail, self.witness, self.confirmed, self.func = secs, detail, witness, confirmed, func

# status values
DISCHARGED = 'discharged'   # proof obligation proved (SMT unsat / closed computation over the whole domain)
BOUNDED_OK = 'bounded-ok'   # bounded stand-in found no failing input (never counted as proved)
FAILED     = 'failed'       # refuted; witness replayed natively if confirmed=True
UNDECIDED  = 'undecided'    # unknown/timeout/unsupported and no twin available
DOWNGRADED = 'downgraded'   # proof could not be generated; bounded twin ran clean
ENGINE_ERR = 'engine-error' # the checker itself is wrong (model did not replay)

class Run(object):
    def __init__(self, pid, tier, seed, level, checker_cmd):
        self.pid, self.tier, self.seed, self.level = pid, tier, seed, level
        self.checker_cmd = checker_cmd
        self.t0 = time.time()
        self.obs = []
        self.bulks = []
        self.functions = {}     # qualified name -> {sha, file, lines}
        self.assumptions = []
        self.trusted_base = []
        self.samples = []
        self.extra = {}
        self.notes = []
        self.explanation = ''
        self.rule = ''
        self.evaluations = 0
        self.distinct = 0
        self.exhaustive = None

    # -- recording
    def add(self, ob):
        self.obs.append(ob)
        return ob
    def ob(self, oid, status, mode, backend, secs=0.0, **kw):
        return self.add(Ob(oid, status, mode, backend, secs, **kw))
    def bulk(self, label, n, mode, backend, secs=0.0, status=DISCHARGED):
        """n obligations with the same status, recorded as a count (shape-bounded sweeps)"""
        if n > 0:
            self.bulks.append((label, n, mode, backend, secs, status))
    def function(self, qname, src, file=None, lineno=None):
        self.functions[qname] = {'sha': sha(src), 'file': file, 'line': lineno}
    def assume(self, text):
        if text not in self.assumptions:
            self.assumptions.append(text)
    def trust(self, text):
        if text not in self.trusted_base:
            self.trusted_base.append(text)
    def sample(self, s):
        if len(self.samples) < 12:
            self.samples.append(s)

    # -- replay files
    def write_replay(self, oid, payload, script=None):
        d = os.path.join(OUT, 'replay')
        os.makedirs(d, exist_ok=True)
        safe = ''.join(c if c.isalnum() or c in '._-' else '_' for c in oid)[:150]
        if script is not None:
            path = os.path.join(d, safe + '.py')
            with open(path, 'w') as f:
                f.write('#!/venv/bin/python\n# replay of failed obligation %s\n' % oid)
                f.write('# ' + json.dumps(payload, default=str)[:4000].replace('\n', ' ') + '\n')
                f.write(script)
            os.chmod(path, 0o755)
        else:
            path = os.path.join(d, safe + '.json')
            with open(path, 'w') as f:
                json.dump(payload, f, indent=1, default=str)
        return path

    # -- finish
    def finish(self):
        try:
            from vlib import contracted
            contracted.record(self)
        except Exception as ex:
            self.notes.append('contract table not recorded: %s' % ex)
        kf = [r for r in load_known_findings() if r.get('property') == self.pid]
        def kf_match(oid):
            for r in kf:
                for pat in r.get('obligations', []):
                    if pat == oid or (r.get('pattern') and _glob(pat, oid)):
                        return r
            return None
        n_viol = 0
        kf_hit = {}
        lines = []
        undecided = []
        engine_err = []
        for o in self.obs:
            if o.status == FAILED:
                r = kf_match(o.oid)
                if r is not None:
                    kf_hit.setdefault(r['id'], [r, 0])[1] += 1
                    o.status = 'known-finding'
                    continue
                n_viol += 1
                path = o.witness if isinstance(o.witness, str) and os.path.exists(o.witness) else \
                    self.write_replay(o.oid, {'obligation': o.oid, 'detail': o.detail, 'witness': o.witness})
                tail = '' if o.confirmed else ' no-failing-input-found'
                if n_viol <= 40:
                    lines.append('VIOLATION property=%s replay=%s%s' % (self.pid, path, tail))
                    lines.append('  obligation %s: %s' % (o.oid, (o.detail or '')[:300]))
            elif o.status == UNDECIDED:
                undecided.append(o)
            elif o.status == ENGINE_ERR:
                engine_err.append(o)
        # which listed obligations failed in this run (tools/prune_kf.py drops ids that no run in either tier reaches any more)
        try:
            hits = sorted(o.oid for o in self.obs if o.status == 'known-finding')
            hd = os.path.join(VERIF, '.tmp', 'kfhits'); os.makedirs(hd, exist_ok=True)
            if OUT == VERIF and REPO == '/repo':
                json.dump(hits, open(os.path.join(hd, '%s_%s_%s.json' % (self.pid, self.tier, self.seed)), 'w'))
        except Exception:
            pass
        for rid, (r, n) in sorted(kf_hit.items()):
            print('KNOWN-FINDING: property=%s %s (%d obligations): %s' % (self.pid, rid, n, r.get('what', '')))
        # listed findings that no longer fail are reported (informational)
        for r in kf:
            if r['id'] not in kf_hit:
                print('note: known finding %s did not fail in this run (tier=%s)' % (r['id'], self.tier))
        for l in lines:
            print(l)
        if n_viol > 40:
            print('... %d further violations of %s omitted' % (n_viol - 40, self.pid))
        counts = {}
        for o in self.obs:
            counts[o.status] = counts.get(o.status, 0) + 1
        by_mode = {}
        for o in self.obs:
            k = '%s/%s' % (o.mode, o.backend)
            d = by_mode.setdefault(k, {'n': 0, 'secs': 0.0})
            d['n'] += 1
            d['secs'] += o.secs
        for d in by_mode.values():
            d['secs'] = round(d['secs'], 3)
        PROOF_MODES = ('SMT-A', 'SMT-B', 'COMP', 'SMT-shape', 'STATIC')
        proof_obs = [o for o in self.obs if o.mode in PROOF_MODES]
        # obligations that fell back to the bounded twin / were left undecided by the solver are reported under
        # bounded_obligations / status_counts, not counted as proof obligations
        n_proof = len([o for o in proof_obs if o.status not in ('known-finding', DOWNGRADED, 'superseded-by-twin')])
        n_disch = len([o for o in proof_obs if o.status == DISCHARGED])
        n_bnd = len([o for o in self.obs if o.status in (BOUNDED_OK, DOWNGRADED)])
        for (label, n, mode, backend, secs, status) in self.bulks:
            counts[status] = counts.get(status, 0) + n
            d = by_mode.setdefault('%s/%s' % (mode, backend), {'n': 0, 'secs': 0.0})
            d['n'] += n
            d['secs'] = round(d['secs'] + secs, 3)
            if mode in PROOF_MODES and status != DOWNGRADED:
                n_proof += n
                if status == DISCHARGED:
                    n_disch += n
            if status in (BOUNDED_OK, DOWNGRADED):
                n_bnd += n
        cov = {
            'obligations': n_proof,
            'discharged': n_disch,
            'checker_cmd': self.checker_cmd,
            'trusted_base': self.trusted_base,
            'known_finding_obligations': counts.get('known-finding', 0),
            'bounded_obligations': n_bnd,
            'status_counts': counts,
            'by_mode_backend': by_mode,
            'functions_under_contract': self.functions,
            'evaluations': max(self.evaluations, len(self.obs) + sum(b[1] for b in self.bulks)),
            'distinct_nontrivial': max(self.distinct, len(set(o.oid for o in self.obs)) + sum(b[1] for b in self.bulks)),
            'rule': self.rule,
            'samples': self.samples or [o.oid for o in self.obs[:8]],
            'explanation': self.explanation,
            'notes': self.notes,
        }
        if self.exhaustive is not None:
            cov['exhaustive'] = self.exhaustive
        cov.update(self.extra)
        ev = {
            'property_id': self.pid, 'tier': self.tier, 'seed': self.seed, 'level': self.level,
            'coverage': cov, 'assumptions': self.assumptions,
            'wall_s': round(time.time() - self.t0, 2), 'violations': n_viol,
        }
        os.makedirs(os.path.join(OUT, 'evidence'), exist_ok=True)
        with open(os.path.join(OUT, 'evidence', self.pid + '.json'), 'w') as f:
            json.dump(ev, f, indent=1, default=str)
        print('%s tier=%s: %d obligations (%s) in %.1fs' % (
            self.pid, self.tier, len(self.obs) + sum(b[1] for b in self.bulks), ', '.join('%s=%d' % kv for kv in sorted(counts.items())), time.time() - self.t0))
        if engine_err:
            for o in engine_err[:10]:
                print('CHECKER-DEFECT %s: %s' % (o.oid, (o.detail or '')[:300]))
            # a violation whose failing input was replayed on the real code stands on its own; obligations the checker could not
            # handle are reported next to it, they do not turn the verdict into "checker crashed"
            if not any(o.status == FAILED and o.confirmed for o in self.obs):
                return 3
        if n_viol:
            return 1
        if len(self.obs) + sum(b[1] for b in self.bulks) == 0:
            print('CHECKER-DEFECT: zero obligations generated for %s' % self.pid)
            return 3
        if undecided:
            for o in undecided[:10]:
                print('UNDECIDED %s: %s' % (o.oid, (o.detail or '')[:300]))
            return 2
        return 0

# ---------------------------------------------------------------------------------------
def patience(base):
    """a time budget in seconds scaled by the machine's load (never below `base`): watchdogs must not turn a busy machine into a verdict"""
    try:
        load = os.getloadavg()[0] / float(os.cpu_count() or 1)
    except OSError:
        load = 0.0
    return int(base * max(1.0, min(8.0, 2.0 * load)) + 0.5)

def native_run(script_path, timeout=120):
    """run a replay script under the repo's own interpreter; returns (exit, output)"""
    env = dict(os.environ)
    env['PYTHONPATH'] = REPO
    env['PYTHONDONTWRITEBYTECODE'] = '1'
    env['TMPDIR'] = private_tmp()
    env['PYTHONHASHSEED'] = os.environ.get('PYTHONHASHSEED', '0')
    # a busy machine must not turn a replay into "not confirmed": the budget grows with the load, and a timeout is retried once
    try:
        load = os.getloadavg()[0] / float(os.cpu_count() or 1)
    except OSError:
        load = 0.0
    budget = timeout * max(1.0, min(8.0, 2.0 * load))
    for attempt in (1, 2):
        try:
            p = subprocess.run([VENV_PY, '-B', script_path], capture_output=True, text=True, timeout=budget, env=env)
            return p.returncode, (p.stdout + p.stderr)[-4000:]
        except subprocess.TimeoutExpired:
            budget *= 4
    return 124, 'timeout'

def parse_args(argv):
    tier = os.environ.get('VERIF_TIER', 'quick')
    seed = int(os.environ.get('VERIF_SEED', '0') or 0)
    rest = []
    i = 0
    while i < len(argv):
        a = argv[i]
        if a == '--tier':
            tier = argv[i + 1]; i += 2; continue
        if a == '--seed':
            seed = int(argv[i + 1]); i += 2; continue
        rest.append(a); i += 1
    if tier not in ('quick', 'thorough'):
        tier = 'quick'
    return tier, seed, rest


# ---------------------------------------------------------------------------------------
NATIVE_WORKER = r"""
import sys, json, pickle
sys.dont_write_bytecode = True
sys.path.insert(0, %(verif)r); sys.path.insert(0, %(repo)r)
import importlib
mod = importlib.import_module(%(module)r)
fn = getattr(mod, %(func)r)
jobs = pickle.load(open(sys.argv[1], 'rb'))
out = [fn(j) for j in jobs]
pickle.dump(out, open(sys.argv[2], 'wb'))
"""

def native_pool(module, func, jobs, nproc=None, timeout=7200):
    """run module.func(job) for every job under the REPO'S OWN interpreter (/venv/bin/python), in nproc sub-processes; results in job order.
       For run-time contracts whose verdict may depend on the interpreter version (frame depth, dict order, exception texts): the tooling
       interpreter python3-vt is only needed where z3 is."""
    import pickle
    nproc = nproc or min(16, os.cpu_count() or 4)
    tmp = private_tmp()
    shards = [(i, jobs[i::nproc]) for i in range(nproc) if jobs[i::nproc]]
    procs = []
    env = dict(os.environ)
    env['PYTHONPATH'] = VERIF + ':' + REPO
    env['PYTHONDONTWRITEBYTECODE'] = '1'
    env['TMPDIR'] = tmp
    env['PYTHONHASHSEED'] = os.environ.get('PYTHONHASHSEED', '0')
    code = NATIVE_WORKER % dict(verif=VERIF, repo=REPO, module=module, func=func)
    for i, shard in shards:
        fi = os.path.join(tmp, 'np_%d_%d.in' % (os.getpid(), i)); fo = os.path.join(tmp, 'np_%d_%d.out' % (os.getpid(), i))
        pickle.dump(shard, open(fi, 'wb'))
        procs.append((i, fi, fo, subprocess.Popen([VENV_PY, '-B', '-c', code, fi, fo], env=env, stdout=subprocess.PIPE, stderr=subprocess.PIPE)))
    results = [None] * len(jobs)
    for i, fi, fo, p in procs:
        try:
            so, se = p.communicate(timeout=timeout)
        except subprocess.TimeoutExpired:
            p.kill(); raise RuntimeError('native worker %d timed out' % i)
        if p.returncode != 0 or not os.path.exists(fo):
            raise RuntimeError('native worker %d failed: %s' % (i, (se or so).decode(errors='replace')[-800:]))
        out = pickle.load(open(fo, 'rb'))
        for k, r in enumerate(out):
            results[i + k * nproc] = r
        os.unlink(fi); os.unlink(fo)
    return results
