"""setup_cmd: check that the tools the checks need exist; build nothing else."""
import sys, os, shutil, subprocess, compileall
def main():
    ok = True
    for tool in ['python3-vt', 'z3', 'cvc5']:
        if not shutil.which(tool):
            print('missing tool', tool); ok = False
    if not os.path.exists('/venv/bin/python'):
        print('missing /venv/bin/python'); ok = False
    try:
        import z3
        print('z3', z3.get_version_string())
    except Exception as e:
        print('z3 import failed', e); ok = False
    here = os.path.dirname(os.path.dirname(os.path.abspath(__file__)))
    for d in ['vlib', 'pyvc', 'liftvc', 'tablevc', 'bounded', 'specs', 'contracts', 'checks']:
        p = os.path.join(here, d)
        if os.path.isdir(p):
            for f in sorted(os.listdir(p)):
                if f.endswith('.py'):
                    try:
                        compile(open(os.path.join(p, f)).read(), os.path.join(p, f), 'exec')
                    except SyntaxError as e:
                        print('syntax error', e); ok = False
    os.makedirs(os.path.join(here, 'evidence'), exist_ok=True)
    os.makedirs(os.path.join(here, 'replay'), exist_ok=True)
    print('setup', 'ok' if ok else 'FAILED')
    return 0 if ok else 1
if __name__ == '__main__':
    sys.exit(main())
