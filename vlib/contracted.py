"""Which real functions of /repo each check puts under contract (run-time or proved): recorded in the evidence with a hash of the source text
the run actually used, so that "the verified text is the code that runs" can be checked from the evidence alone."""
import importlib, inspect, hashlib

A = 'miasmx.arch.ia32_arch'
E = 'miasmx.expression.expression'
H = 'miasmx.expression.expression_helper'
V = 'miasmx.expression.expression_eval_abstract'
S = 'miasmx.arch.ia32_sem'
U = 'miasmx.tools.emul_helper'
P = 'miasmx.arch.ppc_arch'
PA = 'miasmx.core.parse_ad'
AT = 'miasmx.arch.ia32_att'
B = 'miasmx.core.bin_stream'

DEC = [A + ':x86_mn._dis', A + ':x86_mn.dis', A + ':x86allmncs.get_afs', A + ':x86allmncs.init_pre_modrm', A + ':x86allmncs.get_im_fmt', A + ':x86_mn.intsize']
REN = [A + ':x86_mn.__str__', A + ':dict_to_ad', A + ':mnemo_to_att']
ASM = [A + ':x86_mn._asm', A + ':x86_mn._asm_att', A + ':x86_mn.parse_mnemo', A + ':x86_mn.normalize_args', A + ':x86_mn.asm_candidates', A + ':x86_mn.asm_all_candidate',
       A + ':x86allmncs.forge_opc', A + ':ad_to_generic', A + ':check_imm_size', A + ':imm_to_generic', A + ':mnemo_from_att', A + ':x86_mn.arg_set_numpy_imm',
       PA + ':parse_ad', PA + ':dict_add', PA + ':dict_sub', PA + ':dict_mul', PA + ':arg2txt', AT + ':parse_args']
LIFT = [U + ':get_instr_expr', U + ':get_instr_expr_args', S + ':dict_to_Expr']
NODES = ['ExprInt', 'ExprId', 'ExprMem', 'ExprOp', 'ExprSlice', 'ExprCompose', 'ExprCond', 'ExprAff']

TABLE = {
    'C01': DEC + REN[:2],
    'C02': ASM,
    'C03': ASM[:7] + DEC[:2] + REN[:2],
    'C09': REN + ASM[:2] + [A + ':mnemo_from_att'],
    'C19': ASM[:5] + [PA + ':parse_ad', PA + ':dict_add', PA + ':dict_sub', PA + ':dict_mul', AT + ':parse_args', A + ':mnemo_from_att'],
    'C10': DEC[:3] + [B + ':bin_stream_str.readbs'] + ASM[:3] + REN[:1],
    'C17': [A + ':x86_mn.getnextflow', A + ':x86_mn.getdstflow', A + ':x86_mn.breakflow', A + ':x86_mn.splitflow', A + ':x86_mn.dstflow'] + DEC[:1],
    'C04': LIFT, 'C11': LIFT + [E + ':slice_rest', E + ':ExprAff.__init__'], 'C08': LIFT + [E + ':%s.get_r' % n for n in NODES] + [E + ':%s.get_w' % n for n in NODES],
    'C05': [H + ':expr_simp', H + ':_expr_simp_w', H + ':_expr_simp', H + ':merge_sliceto_slice', H + ':parity'],
    'C13': [H + ':expr_simp', H + ':_expr_simp_w', H + ':_expr_simp', E + ':key_expr', E + ':canonize_expr_list'],
    'C06': [V + ':eval_abs.eval_expr', V + ':eval_abs.eval_expr_no_cache', V + ':eval_abs.eval_ExprOp', V + ':eval_abs.eval_ExprCond', V + ':eval_abs.eval_ExprSlice',
            V + ':eval_abs.eval_ExprCompose', V + ':eval_abs.eval_ExprMem', V + ':eval_abs.eval_ExprId'],
    'C07': [V + ':eval_abs.eval_instr', V + ':eval_abs.get_instr_mod', V + ':eval_abs.eval_ExprMem', V + ':eval_abs.get_mem_overlapping', V + ':eval_abs.substract_mems',
            V + ':eval_abs.is_mem_in_target', V + ':eval_abs.rest_slice', V + ':mpool.__getitem__', V + ':mpool.__setitem__', V + ':mpool.__contains__', U + ':emul_full_expr', U + ':emul_lines'],
    'C15': [E + ':%s.%s' % (n, m) for n in NODES for m in ('__eq__', '__hash__', 'copy', 'visit')] + [E + ':Expr.replace_expr', E + ':Expr.canonize'],
    'C16': [E + ':%s.get_r' % n for n in NODES] + [E + ':%s.get_w' % n for n in NODES] + [E + ':MatchExpr', E + ':test_set', E + ':get_expr_ids'],
    'C12': [V + ':eval_abs.eval_expr', H + ':_expr_simp_w', H + ':merge_sliceto_slice', A + ':x86allmncs.get_afs', A + ':x86_mn._dis', U + ':get_instr_expr',
            PA + ':p_error', 'ply.yacc:ParserReflect.signature', 'ply.yacc:LRTable.read_table'] + [E + ':%s.copy' % n for n in NODES],
    'C18': [P + ':bm.check_fbits', P + ':bm.get_val', P + ':bm.set_val', P + ':bm_set.check', P + ':ppc_mnemo_metaclass.class_from_op', P + ':ppc_mn.__init__', P + ':ppc_mn.bin',
            P + ':ppc_mnemo_metaclass.asm'],
    'C14': [],
}

def resolve(q):
    modname, dotted = q.split(':')
    mod = importlib.import_module(modname)
    o = mod
    for part in dotted.split('.'):
        o = getattr(o, part)
    o = getattr(o, '__func__', o)
    o = getattr(o, '__wrapped__', o)
    src = inspect.getsource(o)
    return {'sha': hashlib.sha256(src.encode()).hexdigest()[:16], 'file': inspect.getsourcefile(o), 'line': inspect.getsourcelines(o)[1]}

def record(run):
    """add the table's functions (and, for the lifter checks, every semantic function of ia32_sem.mnemo_func) to run.functions"""
    names = list(TABLE.get(run.pid, []))
    missing = []
    for q in names:
        if q in run.functions: continue
        try: run.functions[q] = resolve(q)
        except Exception as ex: missing.append('%s (%s)' % (q, type(ex).__name__))
    if run.pid in ('C04', 'C08', 'C11'):
        try:
            sem = importlib.import_module(S)
            seen = set()
            for name, f in sorted(sem.mnemo_func.items()):
                f = getattr(f, '__func__', f)
                if not inspect.isfunction(f) or f in seen: continue
                seen.add(f)
                q = '%s:%s' % (S, f.__name__)
                if q not in run.functions:
                    src = inspect.getsource(f)
                    run.functions[q] = {'sha': hashlib.sha256(src.encode()).hexdigest()[:16], 'file': inspect.getsourcefile(f), 'line': inspect.getsourcelines(f)[1]}
        except Exception as ex:
            missing.append('mnemo_func (%s)' % ex)
    if missing:
        run.notes.append('functions of the contract table that could not be located in this tree: ' + ', '.join(missing))
